(* C14  Commands fail cleanly on every input.

   "For every input - arbitrary bytes, any include graph including missing files and files
   that include each other, and any flag values - each journal-processing command terminates,
   and does so either successfully or with a non-zero exit status and a diagnostic on standard
   error; it never panics, hangs, or exhausts memory.  An error in any included file fails the
   whole command, and a failing report command leaves standard output empty."

   What is proved here is about the model: (1) the include loader, pinned and repaired;
   (2) exactly which inputs reach a Panic in the pinned model ([guards] is sufficient, each
   conjunct is necessary, and for every panicking function an iff); (3) the repaired variants
   never panic, on any input, and agree with the pinned ones wherever those did not panic;
   (4) errors carry no output.  What only the Go runtime can exhibit - nil dereference, slice
   bounds, allocation, goroutine leaks, the parser on arbitrary bytes - is sampled on the real
   binary by checks/c14.py (level: proof, partial).

   The full-strength statement "forall cmd cfg fs, run cmd cfg fs <> Panic" is FALSE of the
   faithful pinned model: C14_pinned_panics_refuted_* below are the witnesses (findings F5, F8,
   F9, F19); C14_cycle_diverges_pinned is the loader's (F12).  It is TRUE of the repaired model:
   C14_no_panic_repaired, C14_no_panic_repaired_more, C14_load_terminates.

   The seven journal-processing commands: check, balance, print (sections 2-4), transcode,
   portfolio weights, portfolio returns (section 5: the same three guards, the same shape of
   statements), format and infer (section 6: the syntax-level commands end in one of their proper
   results, never in CmdPanic / CmdOutOfFuel / InferBad - C07_fuel, C08_cmd_total and C15_total at
   the command level).  "Any flag values": section 7 (every value parser total, the argument list,
   cobra's validation) and section 8 (regexp.Compile on every string: Model/RxSyntax.v). *)
From Coq Require Import ZArith QArith List Bool.
From Knut Require Import Model.Str Model.Dec Model.Date Model.Account Model.Ledger Model.Journal
     Model.Pipeline Model.Table Model.Cli Model.Loader Model.CliSafe Spec.FailSpec Proofs.LoaderProofs Proofs.NoPanic.
From Knut Require Import Model.CliTranscode Model.Weights Model.CliPortfolio Model.CliSafeMore Spec.FailSpecMore
     Proofs.NoPanicMore.
Import ListNotations.
Open Scope Z_scope.

(* ---------------------------------------------------------------- (1) the include loader *)

(* the repaired loader terminates on every finite file system, cyclic or not *)
Theorem C14_load_terminates : forall fs root, LoaderM.load (fuel_for fs) fs root <> LOutOfFuel.
Proof. exact load_terminates. Qed.
Print Assumptions C14_load_terminates.

(* the pinned loader on a file that includes itself: no amount of fuel suffices *)
Theorem C14_cycle_diverges_pinned : forall fuel, load_pinned fuel fs_selfinclude [[97]] = LOutOfFuel.
Proof. exact selfinclude_diverges. Qed.
Print Assumptions C14_cycle_diverges_pinned.

(* two files that include each other (through a subdirectory and "..") *)
Theorem C14_mutual_cycle_diverges_pinned : forall fuel, load_pinned fuel fs_mutual [[97]] = LOutOfFuel.
Proof. exact mutual_diverges. Qed.
Print Assumptions C14_mutual_cycle_diverges_pinned.

(* in general: from any file of a set of parseable files each of which includes a file of the
   set, the pinned loader never ends, the repaired loader ends with an error *)
Theorem C14_cycle_diverges_pinned_general :
  forall fs S, closed fs S -> forall fuel p, S p -> load_pinned fuel fs p = LOutOfFuel.
Proof. exact pinned_diverges. Qed.
Print Assumptions C14_cycle_diverges_pinned_general.

Theorem C14_cycle_is_error :
  forall fs S root, closed fs S -> S root -> exists e, LoaderM.load (fuel_for fs) fs root = LErr e.
Proof. exact cycle_is_error. Qed.
Print Assumptions C14_cycle_is_error.

(* a diamond is not a cycle: the shared file is loaded once per including file *)
Theorem C14_diamond_is_not_a_cycle :
  forall d, LoaderM.load (fuel_for (fs_diamond d)) (fs_diamond d) [[97]] = LOk [d; d].
Proof. exact diamond_loads_twice. Qed.
Print Assumptions C14_diamond_is_not_a_cycle.

(* a missing, unreadable or unparseable file anywhere in the include graph fails the load,
   whatever the fuel *)
Theorem C14_included_error_fails_all :
  forall fs root p, reach fs root p -> (lookup fs p = None \/ lookup fs p = Some FBad) ->
  forall f ds, LoaderM.load f fs root <> LOk ds.
Proof. exact included_error_fails_all. Qed.
Print Assumptions C14_included_error_fails_all.

Theorem C14_missing_file_fails :
  forall fs root f, lookup fs root = None -> LoaderM.load (S f) fs root = LErr (EMissing root).
Proof. exact missing_root_fails. Qed.
Print Assumptions C14_missing_file_fails.

(* nothing is dropped: every directive of every reachable file is handed to the command *)
Theorem C14_included_directive_loaded :
  forall fs root p items d, reach fs root p -> lookup fs p = Some (FOk items) -> In (IDir d) items ->
  forall f ds, LoaderM.load f fs root = LOk ds -> In d ds.
Proof. exact included_directive_loaded. Qed.
Print Assumptions C14_included_directive_loaded.

(* ... so a directive that lib/model rejects, in any reachable file, fails every command *)
Theorem C14_invalid_directive_fails_all :
  forall fs root p items d,
  reach fs root p -> lookup fs p = Some (FOk items) -> In (IDir d) items ->
  (forall o, parse_directive d <> MOk o) ->
  (forall l u, run_fs fs root (check_cmd_safe l) <> COk u) /\
  (forall l s, run_fs fs root (print_cmd_safe l) <> COk s) /\
  (forall cfg t, run_fs fs root (balance_table_safe cfg) <> COk t).
Proof. exact invalid_directive_fails_all. Qed.
Print Assumptions C14_invalid_directive_fails_all.

(* ---------------------------------------------------------------- (2) the pinned model: which inputs panic *)

(* [guards] (Spec/FailSpec.v): mapping levels and suffixes are non-negative; every accrual
   that spreads an income/expense posting has a window that does not start on day 0 and
   (unless "once") does not end before it starts; the reporting window - the later of --from
   and the first transaction - does not start on day 0. *)
Theorem C14_no_panic_balance :
  forall cfg ds, guards cfg ds = true -> forall m, balance_table cfg ds <> CPanic m.
Proof. exact balance_table_np. Qed.
Print Assumptions C14_no_panic_balance.

Theorem C14_no_panic_check :
  forall lenient ds, accruals_ok ds = true -> forall m, check_cmd lenient ds <> CPanic m.
Proof. exact check_cmd_np. Qed.
Print Assumptions C14_no_panic_check.

Theorem C14_no_panic_print :
  forall lenient ds, accruals_ok ds = true -> forall m, print_cmd lenient ds <> CPanic m.
Proof. exact print_cmd_np. Qed.
Print Assumptions C14_no_panic_print.

(* function by function, exactly when the pinned code panics *)
Theorem C14_expand_panics_iff :
  forall t ac p, (exists m, expand_posting t ac p = MPanic m) <->
                 (is_IE (p_acc p) = true /\ accrual_window_ok ac = false).
Proof. exact expand_posting_panics_iff. Qed.
Print Assumptions C14_expand_panics_iff.

Theorem C14_shorten_panics_iff :
  forall m a, shorten m a = ShPanic <->
  exists level suffix, mapping_level m (acc_name a) = Some (level, suffix) /\
    level <> 0 /\ suffix < acc_level a /\ level <= acc_level a - suffix /\ (level < 0 \/ suffix < 0).
Proof. exact shorten_panics_iff. Qed.
Print Assumptions C14_shorten_panics_iff.

Theorem C14_partition_panics_iff :
  forall cfg b, (exists m, cfg_partition cfg b = CPanic m) <-> Z.max (bc_from cfg) (b_min b) = 0.
Proof. exact cfg_partition_panics_iff. Qed.
Print Assumptions C14_partition_panics_iff.

Theorem C14_check_panics_iff :
  forall lenient ds, (exists m, check_cmd lenient ds = CPanic m) <-> (exists m, parse_directives ds = MPanic m).
Proof. exact check_cmd_panics_iff. Qed.
Print Assumptions C14_check_panics_iff.

(* each conjunct of [guards] is necessary: without it there is an input, satisfying the other
   conjuncts, on which the pinned model panics.  These are the refutations of the
   unconditional "no Panic is reachable" for the pinned code. *)
Theorem C14_pinned_panics_refuted_mapping :      (* F5: -m -1,Assets *)
  exists cfg ds, mapping_nonneg (bc_mapping cfg) = false /\ accruals_ok ds = true /\ window_start_ok cfg ds = true /\
                 balance_table cfg ds = CPanic k_shorten.
Proof. exists (w_cfg w_neg_level), (w_journal w_day None). exact witness_neg_level. Qed.
Print Assumptions C14_pinned_panics_refuted_mapping.

Theorem C14_pinned_panics_refuted_suffix :       (* F5: -m 1:-2,Assets *)
  exists cfg ds, mapping_nonneg (bc_mapping cfg) = false /\ balance_table cfg ds = CPanic k_shorten.
Proof. exists (w_cfg w_neg_suffix), (w_journal w_day None). exact witness_neg_suffix. Qed.
Print Assumptions C14_pinned_panics_refuted_suffix.

Theorem C14_pinned_panics_refuted_accrual :      (* F8: @accrue monthly 2020-06-01 2020-01-01 *)
  exists ds, accruals_ok ds = false /\ mapping_nonneg [] = true /\
             check_cmd true ds = CPanic e_divzero /\ balance_table (w_cfg []) ds = CPanic e_divzero.
Proof. exists (w_journal w_day (Some w_inverted)). exact witness_inverted_accrual. Qed.
Print Assumptions C14_pinned_panics_refuted_accrual.

Theorem C14_pinned_panics_refuted_zero_accrual : (* F19: @accrue monthly 0001-01-01 0001-03-01 *)
  exists ds, accruals_ok ds = false /\ check_cmd true ds = CPanic e_zerotime.
Proof. exists (w_journal w_day (Some w_zero_accrual)). exact witness_zero_accrual. Qed.
Print Assumptions C14_pinned_panics_refuted_zero_accrual.

Theorem C14_pinned_panics_refuted_zero_day :     (* F19: a transaction dated 0001-01-01; check accepts the journal *)
  exists cfg ds, window_start_ok cfg ds = false /\ accruals_ok ds = true /\ check_cmd true ds = COk tt /\
                 balance_table cfg ds = CPanic k_zerotime.
Proof. exists (w_cfg []), (w_journal 0 None). exact witness_zero_day. Qed.
Print Assumptions C14_pinned_panics_refuted_zero_day.

Theorem C14_pinned_panics_refuted_year_zero :    (* F19: a transaction in year 0000 and no --from *)
  exists cfg ds, window_start_ok cfg ds = false /\ balance_table cfg ds = CPanic k_zerotime.
Proof. exists (w_cfg []), (w_journal (-200) None). exact witness_year_zero. Qed.
Print Assumptions C14_pinned_panics_refuted_year_zero.

(* ---------------------------------------------------------------- (3) the repaired model *)

(* no Panic is reachable, for every configuration, every directive list, every file tree *)
Theorem C14_no_panic_repaired :
  forall cfg lenient ds m,
    balance_table_safe cfg ds <> CPanic m /\ check_cmd_safe lenient ds <> CPanic m /\ print_cmd_safe lenient ds <> CPanic m.
Proof. exact repaired_np_all. Qed.
Print Assumptions C14_no_panic_repaired.

Theorem C14_no_panic_repaired_fs :
  forall cfg lenient fs root,
    check_fs lenient fs root <> PredPANIC /\ print_fs lenient fs root <> PredPANIC /\ balance_fs cfg fs root <> PredPANIC.
Proof. exact commands_fs_np. Qed.
Print Assumptions C14_no_panic_repaired_fs.

(* the repair changes nothing on the inputs on which the pinned code did not panic *)
Theorem C14_repaired_agrees :
  forall cfg ds, guards cfg ds = true -> balance_table_safe cfg ds = balance_table cfg ds.
Proof. exact balance_table_safe_agrees. Qed.
Print Assumptions C14_repaired_agrees.

Theorem C14_shorten_safe_agrees :
  forall m a, mapping_nonneg m = true -> shorten m a = shorten_result_of (shorten_safe m a).
Proof. exact shorten_safe_agrees. Qed.
Print Assumptions C14_shorten_safe_agrees.

(* ... and on the witnesses above the repaired commands return errors *)
Theorem C14_repaired_errors_on_witnesses :
  (exists k d, balance_table_safe (w_cfg w_neg_level) (w_journal w_day None) = CErr k d) /\
  (exists k d, balance_table_safe (w_cfg []) (w_journal w_day (Some w_inverted)) = CErr k d) /\
  (exists k d, check_cmd_safe true (w_journal w_day (Some w_zero_accrual)) = CErr k d) /\
  (exists k d, balance_table_safe (w_cfg []) (w_journal 0 None) = CErr k d).
Proof. exact witness_repaired. Qed.
Print Assumptions C14_repaired_errors_on_witnesses.

(* ---------------------------------------------------------------- (4) a failing command prints nothing *)

(* by the result type: output exists only in COk.  (check prints nothing at all without
   --write: its result type is unit.) *)
Theorem C14_error_empty_stdout :
  forall cfg tc lenient ds k d,
    (balance_csv cfg ds = CErr k d -> stdout_of (balance_csv cfg ds) = []) /\
    (balance_text cfg tc ds = CErr k d -> stdout_of (balance_text cfg tc ds) = []) /\
    (print_cmd lenient ds = CErr k d -> stdout_of (print_cmd lenient ds) = []) /\
    (balance_csv_safe cfg ds = CErr k d -> stdout_of (balance_csv_safe cfg ds) = []) /\
    (print_cmd_safe lenient ds = CErr k d -> stdout_of (print_cmd_safe lenient ds) = []).
Proof. exact error_empty_stdout_all. Qed.
Print Assumptions C14_error_empty_stdout.

(* ---------------------------------------------------------------- (5) transcode, portfolio weights, portfolio returns *)

(* Model/CliTranscode.v and Model/CliPortfolio.v are built on the pinned Cli.load, the pinned
   Multiperiod.Partition and a Query whose mapping can hit slice bounds; so the statements have
   the shape of (2)-(4): no Panic under the explicit guards, an iff for every panicking function
   and command, a witness per guard, and the repaired commands (Model/CliSafeMore.v = the code
   after f4c5740 c04a731 78c5401 864fd70) panic-free on every input. *)

(* transcode after fix 864fd70 (a missing -v is an error): for every journal and every optional
   valuation; the only guard is the one of check and print *)
Theorem C14_no_panic_transcode :
  forall lenient v ds, accruals_ok ds = true -> forall m, transcode_cmd lenient v ds <> CPanic m.
Proof. exact transcode_cmd_np. Qed.
Print Assumptions C14_no_panic_transcode.

(* [pf_guards] (Spec/FailSpecMore.v): the three conjuncts of [guards] on a pf_cfg *)
Theorem C14_no_panic_weights :
  forall cfg ds, pf_guards cfg ds = true -> forall m, weights_csv_cmd cfg ds <> CPanic m.
Proof. exact weights_csv_cmd_np. Qed.
Print Assumptions C14_no_panic_weights.

(* returns has no -m: [returns_guards] = accruals_ok && pf_window_start_ok; both wirings *)
Theorem C14_no_panic_returns :
  forall fx cfg ds, returns_guards cfg ds = true -> forall m, returns_cmd fx cfg ds <> CPanic m.
Proof. exact returns_cmd_np. Qed.
Print Assumptions C14_no_panic_returns.

(* exactly when they panic, command by command and function by function *)
Theorem C14_transcode_panics_iff :
  forall lenient v ds,
  (exists m, transcode_cmd lenient v ds = CPanic m) <->
  ((exists c, valuation_flag v = COk (Some c)) /\ (exists m, parse_directives ds = MPanic m)).
Proof. exact transcode_cmd_panics_iff. Qed.
Print Assumptions C14_transcode_panics_iff.

Theorem C14_returns_panics_iff :
  forall fx cfg ds,
  (exists m, returns_cmd fx cfg ds = CPanic m) <->
  ((exists u, check_valuation cfg = COk u) /\
   ((exists m, parse_directives ds = MPanic m) \/ pf_window_start_ok cfg ds = false)).
Proof. exact returns_cmd_panics_iff. Qed.
Print Assumptions C14_returns_panics_iff.

Theorem C14_pf_partition_panics_iff :
  forall cfg b, (exists m, pf_partition cfg b = CPanic m) <-> Z.max (pc_from cfg) (b_min b) = 0.
Proof. exact pf_partition_panics_iff. Qed.
Print Assumptions C14_pf_partition_panics_iff.

(* weights.Query.Execute on one class path: None is the slice-bounds panic of
   append(ss[:level], ss[len(ss)-suffix:]...) *)
Theorem C14_map_path_panics_iff :
  forall m ss, map_path m ss = None <->
  exists level suffix, mapping_level m (join [colon] ss) = Some (level, suffix) /\
    level < Z.of_nat (length ss) - suffix /\ (level < 0 \/ suffix < 0).
Proof. exact map_path_panics_iff. Qed.
Print Assumptions C14_map_path_panics_iff.

Theorem C14_query_panics_iff :
  forall u m ends l, query_entries u m ends l = WPanic <->
  exists d v0 v1 c q, In (d, (v0, v1)) l /\ existsb (Z.eqb d) ends = true /\ In (c, q) v1 /\
                      map_path m (locate u c) = None.
Proof. exact query_entries_panics_iff. Qed.
Print Assumptions C14_query_panics_iff.

(* each guard is necessary, for these commands too *)
Theorem C14_pinned_panics_refuted_weights_mapping :   (* F5 for weights: -m -1 *)
  exists cfg ds, mapping_nonneg (pc_mapping cfg) = false /\ accruals_ok ds = true /\ pf_window_start_ok cfg ds = true /\
                 weights_csv_cmd cfg ds = CPanic k_bounds.
Proof. exists (w_pf w_neg_level_all), (w_journal w_day None). exact witness_weights_neg_level. Qed.
Print Assumptions C14_pinned_panics_refuted_weights_mapping.

Theorem C14_pinned_panics_refuted_weights_suffix :    (* -m 1:-2 *)
  exists cfg ds, mapping_nonneg (pc_mapping cfg) = false /\ weights_csv_cmd cfg ds = CPanic k_bounds.
Proof. exists (w_pf w_neg_suffix_all), (w_journal w_day None). exact witness_weights_neg_suffix. Qed.
Print Assumptions C14_pinned_panics_refuted_weights_suffix.

Theorem C14_pinned_panics_refuted_accrual_more :      (* F8 through weights, returns, transcode *)
  exists ds, accruals_ok ds = false /\ mapping_nonneg [] = true /\
             weights_csv_cmd (w_pf []) ds = CPanic e_divzero /\
             returns_cmd repaired (w_pf []) ds = CPanic e_divzero /\
             transcode_cmd true (Some w_chf) ds = CPanic e_divzero.
Proof. exists (w_journal w_day (Some w_inverted)). exact witness_pf_inverted_accrual. Qed.
Print Assumptions C14_pinned_panics_refuted_accrual_more.

Theorem C14_pinned_panics_refuted_zero_day_more :     (* F19b through weights and returns *)
  exists cfg ds, pf_window_start_ok cfg ds = false /\ accruals_ok ds = true /\
                 weights_csv_cmd cfg ds = CPanic k_zerotime /\ returns_cmd repaired cfg ds = CPanic k_zerotime.
Proof. exists (w_pf []), (w_journal 0 None). exact witness_pf_zero_day. Qed.
Print Assumptions C14_pinned_panics_refuted_zero_day_more.

(* F9: before 864fd70 transcode without -v ended in a nil dereference on every journal that
   check accepts, and never succeeded *)
Theorem C14_pinned_panics_refuted_transcode_noval :
  exists ds, accruals_ok ds = true /\ check_cmd true ds = COk tt /\
             transcode_cmd_pinned true None ds = CPanic k_nil_commodity /\
             transcode_cmd true None ds = CErr k_valuation [].
Proof. exists (w_journal w_day None). exact witness_transcode_noval. Qed.
Print Assumptions C14_pinned_panics_refuted_transcode_noval.

Theorem C14_transcode_pinned_noval_never_ok :
  forall lenient ds,
  (exists k d, transcode_cmd_pinned lenient None ds = CErr k d) \/ (exists m, transcode_cmd_pinned lenient None ds = CPanic m).
Proof. exact transcode_cmd_pinned_noval. Qed.
Print Assumptions C14_transcode_pinned_noval_never_ok.

(* the repaired commands: no Panic is reachable, for every flag value, every directive list,
   every file tree *)
Theorem C14_no_panic_repaired_more :
  forall lenient v fx cfg ds m,
    transcode_cmd_safe lenient v ds <> CPanic m /\ weights_csv_cmd_safe cfg ds <> CPanic m /\
    returns_cmd_safe fx cfg ds <> CPanic m.
Proof. exact repaired_np_more. Qed.
Print Assumptions C14_no_panic_repaired_more.

Theorem C14_no_panic_repaired_more_fs :
  forall lenient v cfg fs root,
    transcode_fs lenient v fs root <> PredPANIC /\ weights_fs cfg fs root <> PredPANIC /\ returns_fs cfg fs root <> PredPANIC.
Proof. exact commands_fs_np_more. Qed.
Print Assumptions C14_no_panic_repaired_more_fs.

(* ... and equal the commands above wherever those do not panic *)
Theorem C14_repaired_agrees_more :
  forall lenient v fx cfg ds,
    (accruals_ok ds = true -> transcode_cmd_safe lenient v ds = transcode_cmd lenient v ds) /\
    (pf_guards cfg ds = true -> weights_csv_cmd_safe cfg ds = weights_csv_cmd cfg ds) /\
    (returns_guards cfg ds = true -> returns_cmd_safe fx cfg ds = returns_cmd fx cfg ds).
Proof.
  intros lenient v fx cfg ds. split; [apply transcode_cmd_safe_agrees|].
  split; [apply weights_csv_cmd_safe_agrees|apply returns_cmd_safe_agrees].
Qed.
Print Assumptions C14_repaired_agrees_more.

Theorem C14_repaired_errors_on_witnesses_more :
  (exists k d, weights_csv_cmd_safe (w_pf w_neg_level_all) (w_journal w_day None) = CErr k d) /\
  (exists k d, weights_csv_cmd_safe (w_pf []) (w_journal w_day (Some w_inverted)) = CErr k d) /\
  (exists k d, returns_cmd_safe repaired (w_pf []) (w_journal w_day (Some w_inverted)) = CErr k d) /\
  (exists k d, transcode_cmd_safe true (Some w_chf) (w_journal w_day (Some w_inverted)) = CErr k d) /\
  (exists k d, weights_csv_cmd_safe (w_pf []) (w_journal 0 None) = CErr k d) /\
  (exists k d, returns_cmd_safe repaired (w_pf []) (w_journal 0 None) = CErr k d).
Proof. exact witness_repaired_more. Qed.
Print Assumptions C14_repaired_errors_on_witnesses_more.

(* an invalid directive in any reachable file fails these commands as well *)
Theorem C14_invalid_directive_fails_more :
  forall fs root p items d,
  reach fs root p -> lookup fs p = Some (FOk items) -> In (IDir d) items ->
  (forall o, parse_directive d <> MOk o) ->
  (forall l v s, run_fs fs root (transcode_cmd_safe l v) <> COk s) /\
  (forall cfg s, run_fs fs root (weights_csv_cmd_safe cfg) <> COk s) /\
  (forall fx cfg s, run_fs fs root (returns_cmd_safe fx cfg) <> COk s).
Proof. exact invalid_directive_fails_more. Qed.
Print Assumptions C14_invalid_directive_fails_more.

(* a failing command prints nothing, by the result type.  The property asks this of "balance,
   print, transcode, infer, check --write".  For transcode (and weights) it is what the code does:
   both render through a bufio.Writer after the journal has been processed.  For returns - which
   the property does not list - it is a statement about the MODEL's result type only:
   performance.Perf prints a line per period end with fmt.Printf while the days are being
   processed, so in the binary a failure on a later day (assertion, missing price) leaves the
   earlier lines on stdout; the model of returns_cmd describes the output of successful runs, and
   the check does not require an empty stdout of a failing `portfolio returns`. *)
Theorem C14_error_empty_stdout_more :
  forall lenient v fx cfg ds k d,
    (transcode_cmd lenient v ds = CErr k d -> stdout_of (transcode_cmd lenient v ds) = []) /\
    (weights_csv_cmd cfg ds = CErr k d -> stdout_of (weights_csv_cmd cfg ds) = []) /\
    (returns_cmd fx cfg ds = CErr k d -> stdout_of (returns_cmd fx cfg ds) = []) /\
    (transcode_cmd_safe lenient v ds = CErr k d -> stdout_of (transcode_cmd_safe lenient v ds) = []) /\
    (weights_csv_cmd_safe cfg ds = CErr k d -> stdout_of (weights_csv_cmd_safe cfg ds) = []) /\
    (returns_cmd_safe fx cfg ds = CErr k d -> stdout_of (returns_cmd_safe fx cfg ds) = []).
Proof. exact error_empty_stdout_more. Qed.
Print Assumptions C14_error_empty_stdout_more.

(* ---------------------------------------------------------------- the hypotheses are satisfiable *)

Example C14_guards_satisfiable :
  guards (w_cfg []) (w_journal w_day None) = true /\ exists t, balance_table (w_cfg []) (w_journal w_day None) = COk t.
Proof. exact witness_ok. Qed.

Example C14_reach_satisfiable : reach fs_mutual [[97]] [[115]; [98]].
Proof. exact mutual_reach. Qed.

Example C14_clean_run_examples :
  clean_run_b true ClOK false false = true /\ clean_run_b true ClERR true true = true /\
  clean_run_b true ClERR false true = false /\ clean_run_b true ClERR true false = false /\
  clean_run_b false ClERR false true = true /\
  clean_run_b true ClPANIC true true = false /\ clean_run_b true ClHANG true false = false /\
  clean_run_b true ClOOM true true = false /\ clean_run_b false ClEXIT true true = false.
Proof. exact clean_run_examples. Qed.

Example C14_pf_guards_satisfiable :
  pf_guards (w_pf []) (w_journal w_day None) = true /\
  (exists out, weights_csv_cmd (w_pf []) (w_journal w_day None) = COk out) /\
  (exists out, returns_cmd repaired (w_pf []) (w_journal w_day None) = COk out) /\
  (exists out, transcode_cmd true (Some w_chf) (w_journal w_day None) = COk out).
Proof. exact witness_pf_ok. Qed.

(* ---------------------------------------------------------------- (6) format and infer *)

(* The syntax-level commands work on bytes: Model/Parser.v parse_text (scanner and parser with
   fuel S |t| for each of their seven loops), Model/SynPrinter.v format_cmd, Model/BayesScore.v
   infer_scored.  Their result types have no error-with-output case at all; what C14 asks of them
   is that the distinguished results CmdPanic (slice bounds in Format), CmdOutOfFuel (a loop of
   the parser not ending) and InferBad (fuel, or a rendering that fails) are unreachable, for
   every byte string and every character class - and then the exit class is a function of
   "do the files parse".  (Imported here, after the ledger-level statements, because both levels
   define their own [str], [account], ...) *)
From Knut Require Import Model.Bytes Model.Utf8 Model.Scanner Model.Parser Model.SynPrinter Model.Bayes Model.BayesScore
     Proofs.InferProofs Proofs.NoPanicSyntax.

Theorem C14_format_total : forall letter digit t,
  format_cmd letter digit t <> CmdPanic /\ format_cmd letter digit t <> CmdOutOfFuel /\
  ((exists n, format_cmd letter digit t = Rewritten n) <-> (exists f, parse_text letter digit t = ParseOk f)) /\
  (format_cmd letter digit t = Untouched <-> (exists e, parse_text letter digit t = ParseErr e)).
Proof. exact format_cmd_clean. Qed.
Print Assumptions C14_format_total.

(* infer as it is (the choice is bayes.Model.Infer over any float arithmetic F) ... *)
Theorem C14_infer_total : forall F flog fadd fgt fields lower ph letter digit training target,
  infer_scored F flog fadd fgt fields lower ph letter digit training target <> InferBad /\
  ((exists out, infer_scored F flog fadd fgt fields lower ph letter digit training target = InferOut out) <->
   (exists ftr ftg, parse_text letter digit training = ParseOk ftr /\ parse_text letter digit target = ParseOk ftg)) /\
  (infer_scored F flog fadd fgt fields lower ph letter digit training target = InferErr <->
   ((exists e, parse_text letter digit training = ParseErr e) \/ (exists e, parse_text letter digit target = ParseErr e))).
Proof. exact infer_scored_clean. Qed.
Print Assumptions C14_infer_total.

(* ... and with any valid choice function *)
Theorem C14_infer_with_total : forall ph letter digit choose training target,
  valid_choose choose ->
  infer_with ph Fixed letter digit choose training target <> InferBad /\
  ((exists out, infer_with ph Fixed letter digit choose training target = InferOut out) <->
   (exists ftr ftg, parse_text letter digit training = ParseOk ftr /\ parse_text letter digit target = ParseOk ftg)) /\
  (infer_with ph Fixed letter digit choose training target = InferErr <->
   ((exists e, parse_text letter digit training = ParseErr e) \/ (exists e, parse_text letter digit target = ParseErr e))).
Proof. exact infer_with_clean. Qed.
Print Assumptions C14_infer_with_total.

(* every byte string either parses or is rejected with an error: the loading commands get a
   syntax tree or a diagnostic from every file *)
Theorem C14_parse_total : forall letter digit t,
  (exists f, parse_text letter digit t = ParseOk f) \/ (exists e, parse_text letter digit t = ParseErr e).
Proof. exact parse_text_cases. Qed.
Print Assumptions C14_parse_total.

(* a failing infer prints nothing (by the result type; infer collects its output and writes it
   after both files have been processed); format never writes to stdout *)
Theorem C14_error_empty_stdout_syntax : forall F flog fadd fgt fields lower ph letter digit training target,
  infer_scored F flog fadd fgt fields lower ph letter digit training target = InferErr ->
  stdout_of_infer (infer_scored F flog fadd fgt fields lower ph letter digit training target) = [].
Proof. intros F flog fadd fgt fields lower ph letter digit training target H. rewrite H. reflexivity. Qed.
Print Assumptions C14_error_empty_stdout_syntax.

(* ---------------------------------------------------------------- (7) flag handling *)
(* "... and any flag values": the value parsers behind knut's flags (cmd/flags, pflag's int/int32/bool on
   strconv, time.Parse for dates), pflag's reading of the argument list and cobra's validation before Run
   (Model/Flags.v), and the commands behind their command lines (Model/CliFlags.v).  regexp.Compile is
   decided on every string by Model/RxSyntax.v ([rx_valid]: regexp/syntax.Parse with the flags syntax.Perl,
   section 8 below), so every value parser is total. *)
From Knut Require Import Model.RxSyntax.   (* first: the names of the modules below take precedence *)
From Knut Require Import Model.Flags Model.CliFlags Proofs.FlagsProofs.

(* a rejected command line (a rejected flag value, an unknown flag, a missing argument, the wrong number of
   arguments, a missing required flag, two exclusive interval flags) ends the command before its Run
   function: the result is the usage error whatever the file system holds - the journal is not loaded,
   nothing is written, there is no panic and no success *)
Theorem C14_flag_error_is_clean : forall c today argv e,
  parse_cmdline c argv = CLRejected e ->
  forall fs, run_argv c today argv fs = ORejected e /\
             run_argv c today argv fs <> ORun PredPANIC /\ run_argv c today argv fs <> ORun PredOK /\
             (forall fs', run_argv c today argv fs' = run_argv c today argv fs).
Proof.
  intros c today argv e H fs. split; [exact (flag_error_is_clean c today argv e H fs)|].
  exact (flag_error_no_panic c today argv e fs H).
Qed.
Print Assumptions C14_flag_error_is_clean.

(* a value its flag's parser rejects, directly after the flag: the parse ends there with that error,
   whatever follows on the command line *)
Theorem C14_rejected_value_rejects : forall defs d v e rest,
  find_long defs (f_name d) = Some d -> f_kind d <> KBool -> ~ In 61 (f_name d) ->
  match f_name d with [] => False | c :: _ => c <> 45 /\ c <> 61 end ->
  parse_value (f_kind d) v = VErr e ->
  parse_args defs ((45 :: 45 :: f_name d) :: v :: rest) = PErr (PInvalid (f_name d) e).
Proof. exact rejected_long_value. Qed.
Print Assumptions C14_rejected_value_rejects.

(* ... and anywhere on the command line: after any accepted arguments (the terminator "--" not among
   them) and whatever follows, the command ends with that flag's usage error, in every file system *)
Theorem C14_rejected_value_ends_command : forall c today pre d v e rest s p fs,
  parse_args (cmd_flags c) pre = PArgs s p -> ~ In dashdash pre ->
  find_long (cmd_flags c) (f_name d) = Some d -> f_kind d <> KBool -> ~ In 61 (f_name d) ->
  match f_name d with [] => False | x :: _ => x <> 45 /\ x <> 61 end ->
  parse_value (f_kind d) v = VErr e ->
  run_argv c today (pre ++ (45 :: 45 :: f_name d) :: v :: rest) fs = ORejected (PInvalid (f_name d) e).
Proof. exact rejected_value_ends_command. Qed.
Print Assumptions C14_rejected_value_ends_command.

(* conversely, what reaches the command are accepted values only, each of a flag the command has, each in
   the range of its flag (64/32-bit two's complement, years 0..9999, non-negative mapping numbers) *)
Theorem C14_accepted_values_in_range : forall c argv sets pos,
  parse_cmdline c argv = CLRun sets pos ->
  Forall (fun nv => exists d, In d (cmd_flags c) /\ f_name d = fst nv /\ value_in_range (f_kind d) (snd nv) = true) sets.
Proof. exact cmdline_values_in_range. Qed.
Print Assumptions C14_accepted_values_in_range.

(* every string is either accepted with a value in range or rejected, for every flag kind: bool, int, int32,
   date, the string flags, and the two kinds that compile a regular expression (--account --commodity
   --remap -s, -m <level>[:<suffix>][,<regex>]) - the result type has no third case *)
Theorem C14_flags_total : forall k s,
  (exists v, parse_value k s = VOk v /\ value_in_range k v = true) \/ (exists e, parse_value k s = VErr e).
Proof. exact flags_total. Qed.
Print Assumptions C14_flags_total.

(* a regular-expression flag accepts exactly the strings regexp/syntax parses *)
Theorem C14_regex_flag_iff : forall s,
  (parse_value KRegex s = VOk (VRegex s) <-> rx_valid s = true) /\
  (parse_value KRegex s = VErr ERegex <-> rx_valid s = false).
Proof.
  intros s. cbn [parse_value]. destruct (rx_valid s); split; split; intros H; try reflexivity; discriminate.
Qed.
Print Assumptions C14_regex_flag_iff.

(* strconv.ParseInt(s, 0, bits) as pflag calls it: an accepted value fits the flag's integer type *)
Theorem C14_int_flag_range : forall s bits n, 1 <= bits -> parse_int s 0 bits = NOk n ->
  - 2 ^ (bits - 1) <= n < 2 ^ (bits - 1).
Proof. exact parse_int_range. Qed.
Print Assumptions C14_int_flag_range.

(* -m: accepted iff the text is <level>[:<suffix>][,<regex>] with integers (strconv.Atoi), level >= 0 and
   suffix >= 0 (fix 78c5401), and the expression, if there is one, compiles *)
Theorem C14_mapping_flag_iff : forall v l sf r,
  parse_mapping v = MapOk l sf r <->
  mapping_text v l sf r /\ 0 <= l /\ 0 <= sf /\ (forall x, r = Some x -> rx_valid x = true).
Proof. exact mapping_flag_iff. Qed.
Print Assumptions C14_mapping_flag_iff.

(* the guard [mapping_nonneg] of the no-panic theorems (sections 2 and 5) holds for every command line
   cobra lets through: after 78c5401 account.Shorten cannot be reached with a negative number *)
Theorem C14_accepted_mapping_guard : forall c argv sets pos today cfg,
  parse_cmdline c argv = CLRun sets pos -> balance_cfg_of today sets = Some cfg ->
  mapping_nonneg (bc_mapping cfg) = true.
Proof. exact accepted_balance_guard. Qed.
Print Assumptions C14_accepted_mapping_guard.

(* "-1,Assets" is a well-formed text with a negative level: rejected, with that reason *)
Example C14_mapping_negative_rejected :
  parse_mapping [45;49;44;65;115;115;101;116;115] = MapErr MNegative /\
  parse_mapping [49;58;45;50;44] = MapErr MNegative /\
  parse_mapping [49;58;50;44;94;65] = MapOk 1 2 (Some [94;65]) /\
  parse_mapping [49;44;40] = MapErr MRegex /\
  parse_mapping [120;44;65] = MapErr MInt /\
  parse_mapping [49;58;50;58;51;44;65] = MapErr MShape.
Proof. vm_compute. repeat split. Qed.

(* the hypothesis of C14_flag_error_is_clean is satisfiable: knut balance -m -1,Assets j *)
Example C14_flag_error_example :
  parse_cmdline CmdBalance [[45;109]; [45;49;44;65;115;115;101;116;115]; [106]] = CLRejected (PInvalid n_map EMapNegative) /\
  parse_cmdline CmdBalance [[45;45;108;97;115;116]; [120]; [106]] = CLRejected (PInvalid n_last EIntSyntax) /\
  parse_cmdline CmdBalance [[45;45;100;105;103;105;116;115]; [50;49;52;55;52;56;51;54;52;56]; [106]] = CLRejected (PInvalid n_digits EIntRange) /\
  parse_cmdline CmdBalance [[45;45;102;114;111;109]; [50;48;50;48;45;48;50;45;51;48]; [106]] = CLRejected (PInvalid n_from EDate) /\
  parse_cmdline CmdBalance [[45;45;100;97;121;115]; [45;45;119;101;101;107;115]; [106]] = CLRejected PExclusive /\
  parse_cmdline CmdBalance [[106]; [107]] = CLRejected (PArgCount 2) /\
  parse_cmdline CmdInfer [[106]] = CLRejected (PRequired n_training) /\
  parse_cmdline CmdPrint [[45;45;120]; [106]] = CLRejected (PUnknownFlag [120]).
Proof. vm_compute. repeat split. Qed.

(* ... and so is that of C14_accepted_values_in_range: knut balance --last 3 --days -m 1,Assets -ak j *)
Example C14_flags_accepted_example :
  parse_cmdline CmdBalance [[45;45;108;97;115;116]; [51]; [45;45;100;97;121;115]; [45;109]; [49;44;65]; [45;97;107]; [106]] =
  CLRun [(n_last, VInt 3); (n_days, VBool true); (n_map, VRule 1 0 (Some [65])); (n_sort, VBool true); (n_thousands, VBool true)] [[106]].
Proof. vm_compute. reflexivity. Qed.

(* the hypotheses of C14_rejected_value_rejects hold for --last of balance *)
Example C14_rejected_value_example :
  let d := mkF n_last 0 KInt64 in
  find_long (cmd_flags CmdBalance) (f_name d) = Some d /\ f_kind d <> KBool /\ ~ In 61 (f_name d) /\
  parse_value (f_kind d) [57;57;57;57;57;57;57;57;57;57;57;57;57;57;57;57;57;57;57;57] = VErr EIntRange.
Proof.
  cbv zeta. split; [vm_compute; reflexivity|]. split; [discriminate|]. split; [|vm_compute; reflexivity].
  cbn. intros [H|[H|[H|[H|[]]]]]; discriminate.
Qed.

(* base prefixes and underscores as strconv.ParseInt(s, 0, 64) reads them *)
Example C14_int_syntax_example :
  parse_int [48;120;49;70] 0 64 = NOk 31 /\ parse_int [49;95;48;48;48] 0 64 = NOk 1000 /\
  parse_int [48;49;55] 0 64 = NOk 15 /\ parse_int [49;95;95;48] 0 64 = NErr NSyntax /\
  parse_int [45;57;50;50;51;51;55;50;48;51;54;56;53;52;55;55;53;56;48;56] 0 64 = NOk (-9223372036854775808) /\
  parse_int [57;50;50;51;51;55;50;48;51;54;56;53;52;55;55;53;56;48;56] 0 64 = NErr NRange /\
  parse_int [50;49;52;55;52;56;51;54;52;56] 0 32 = NErr NRange.
Proof. vm_compute. repeat split. Qed.

(* a whole command line in a file tree: `knut check j` and `knut print --x j` where j is an empty journal,
   `knut check missing` and `knut infer -t nothere j` *)
Example C14_run_argv_example :
  let fs : fsys := [([[106]], LoaderM.FOk [])] in
  run_argv CmdCheck 0 [[106]] fs = ORun PredOK /\
  run_argv CmdPrint 0 [[45;45;120]; [106]] fs = ORejected (PUnknownFlag [120]) /\
  run_argv CmdCheck 0 [[109]] fs = ORun PredERR /\
  run_argv CmdInfer 0 [[45;116]; [110]; [106]] fs = ORun PredERR /\
  run_argv CmdInfer 0 [[45;116]; [106]; [106]] fs = ORun PredOK /\
  run_argv CmdTranscode 0 [[106]] fs = ORun PredERR /\
  run_argv CmdBalance 0 [[45;45;104;101;108;112]; [106]] fs = OHelp.
Proof. vm_compute. repeat split. Qed.

(* ---------------------------------------------------------------- (8) regular expressions on all strings *)
(* regexp.Compile as knut's RegexFlag.Set and MappingFlag.Set call it: regexp/syntax.Parse(s, syntax.Perl)
   followed by Simplify and Compile, which cannot fail.  Model/RxSyntax.v follows the parser (go1.23.5) on
   every byte string, including the tree it builds and the counters behind its three limits; [rx_parse] is
   the tree or the error, [rx_valid] says whether there is a tree. *)
From Knut Require Import Proofs.RxLexProofs Proofs.RxSyntaxProofs.

(* the loops over the text and the recursion of factor are fuelled; the fuel is never used up *)
Theorem C14_rx_valid_fuel_enough : forall s, rx_parse s <> OutOfFuel.
Proof. exact rx_parse_fuel_enough. Qed.
Print Assumptions C14_rx_valid_fuel_enough.

(* every string is parsed or rejected with one of the error codes of regexp/syntax (ErrInternal stands for a
   state the Go parser cannot be in: it is not reached) *)
Theorem C14_rx_parse_total : forall s,
  (exists re, rx_parse s = Ok re) \/ (exists e, rx_parse s = Err e /\ e <> ErrInternal).
Proof. exact rx_parse_total. Qed.
Print Assumptions C14_rx_parse_total.

(* [rx_valid s = false] always stands for an error of the parser, never for exhausted fuel *)
Theorem C14_rx_valid_spec : forall s,
  (rx_valid s = true /\ exists re, rx_parse s = Ok re) \/
  (rx_valid s = false /\ exists e, rx_parse s = Err e /\ e <> ErrInternal).
Proof. exact rx_valid_spec. Qed.
Print Assumptions C14_rx_valid_spec.

(* each turn of the parse loop reads at least one byte of the expression *)
Theorem C14_rx_lex_progress : forall fuel flags b t tok rest,
  lex fuel flags b t = Ok (tok, rest) -> (length rest <= length t)%nat.
Proof. exact lex_lt. Qed.
Print Assumptions C14_rx_lex_progress.

(* factor, the one recursion that is not on the text: on alternatives of total weight below the fuel it
   answers, and its answer is not heavier *)
Theorem C14_rx_factor_fuel : forall fuel l p, (weights l < fuel)%nat ->
  factor fuel l p <> OutOfFuel /\ forall l' p', factor fuel l p = Ok (l', p') -> (weights l' <= weights l)%nat.
Proof.
  intros fuel l p H. destruct (factor_ok fuel l p H) as [[Hf _] Hw]. split; [exact Hf|exact Hw].
Qed.
Print Assumptions C14_rx_factor_fuel.

(* one expression per error code, and some that compile *)
Example C14_rx_examples :
  rx_valid [] = true /\
  rx_valid [94;65;115;115;101;116;115;58;40;63;105;41;91;97;45;122;93;43;36] = true /\            (* ^Assets:(?i)[a-z]+$ *)
  rx_valid [40;63;80;60;110;62;97;124;98;41;123;50;44;51;125;63;92;112;123;71;114;101;101;107;125] = true /\  (* (?P<n>a|b){2,3}?\p{Greek} *)
  rx_parse [40] = Err ErrMissingParen /\                         (* ( *)
  rx_parse [41] = Err ErrUnexpectedParen /\                      (* ) *)
  rx_parse [91;97] = Err ErrMissingBracket /\                    (* [a *)
  rx_parse [91;122;45;97;93] = Err ErrCharRange /\               (* [z-a] *)
  rx_parse [92;112;123;70;111;111;125] = Err ErrCharRange /\     (* \p{Foo} *)
  rx_parse [92;113] = Err ErrEscape /\                           (* \q *)
  rx_parse [92] = Err ErrTrailingBackslash /\
  rx_parse [42] = Err ErrMissingRepeatArg /\                     (* * *)
  rx_parse [97;42;42] = Err ErrRepeatOp /\                       (* a** *)
  rx_parse [97;123;49;48;48;49;125] = Err ErrRepeatSize /\       (* a{1001} *)
  rx_parse [40;97;123;53;48;48;125;41;123;51;125] = Err ErrRepeatSize /\   (* (a{500}){3} *)
  rx_parse [40;63;80;60;49;45;62;97;41] = Err ErrNamedCapture /\ (* (?P<1->a) *)
  rx_parse [40;63;120;41] = Err ErrPerlOp /\                     (* (?x) *)
  rx_parse [97;255] = Err ErrUTF8.
Proof. vm_compute. repeat split. Qed.

(* the nesting limit: 999 groups around a literal parse, 1000 do not *)
Example C14_rx_nesting_limit :
  rx_valid (List.repeat 40 999 ++ [97] ++ List.repeat 41 999) = true /\
  rx_parse (List.repeat 40 1000 ++ [97] ++ List.repeat 41 1000) = Err ErrNestingDepth.
Proof. vm_compute. split; reflexivity. Qed.
