(* C04w  `knut check --write` (branch ext-c04w): what the command prints.
   Theorem statements only; each is closed by [exact <lemma>] and followed by Print Assumptions.

   Model: Model/CheckWrite.v -- [check_write_proc] is the checker of Model/Check.v ([check_proc_fixed], what the code
   does now) with the DayEnd callback of Checker.Write, which appends one assertion per day holding EVERY position of
   the quantity map (zero quantities included), sorted by assertion.CompareBalance; [check_write_assertions] =
   checker.Assertions() after the run; [write_file] = journal.Print of a fresh builder holding these assertions;
   [check_write_cmd] = stdout of `knut check --write FILE`, or the error.
   Specification: Spec/CheckWriteSpec.v over the canonical event sequence of Spec/WellformedSpec.v:
   [events_upto ds dt] (the events up to and including the day dt), [live pre a c] (a is an asset or liability account
   booked in c after its last close), [write_spec ds W].
   What the code does (the alternative in the task's wording): it asserts ALL live positions at the end of EVERY day
   of the journal -- also of a day that has prices only, also positions that did not change that day, also positions
   whose quantity is zero -- and nothing for an account that was closed (its positions are deleted) or for accounts
   other than assets and liabilities.
   Proofs: Proofs/CheckWriteBase.v, CheckWriteKeys.v, CheckWriteComplete.v, CheckWriteAccepted.v, CheckWriteSorted.v,
   CheckWriteExec.v, CheckWriteText.v, CheckWriteWitness.v. *)
From Coq Require Import ZArith List Bool Sorting.Sorted Permutation.
From Knut Require Import Model.Str Model.Dec Model.Account Model.Ledger Model.Journal Model.Check Model.Cli
     Model.Source Model.CheckWrite Proofs.CheckLemmas Proofs.CheckProofs Proofs.DeterminismProofs Spec.WellformedSpec Spec.CheckWriteSpec
     Proofs.CheckMain Proofs.OrderCmd Proofs.CheckWriteBase Proofs.CheckWriteComplete Proofs.CheckWriteAccepted
     Proofs.CheckWriteSorted Proofs.CheckWriteExec Proofs.CheckWriteText Proofs.CheckWriteWitness.
Import ListNotations.
Open Scope Z_scope.

(* The processor with the DayEnd callback is the plain day-by-day recursion: run the checker of `knut check` over a
   day, then record [day_end_assertions] of the quantity map reached (nothing when the map is empty). *)
Theorem C04_write_day_by_day : forall sds,
  check_write_assertions sds = cbind (load sds) (fun b => of_presult (written_of (b_days b))).
Proof. exact check_write_assertions_eq. Qed.
Print Assumptions C04_write_day_by_day.

(* `check --write` succeeds exactly when `check` does; it fails with the same error *)
Theorem C04_write_verdict : forall sds,
  match check_cmd_fixed sds with
  | COk _ => exists W, check_write_assertions sds = COk W /\ check_write_cmd sds = COk (write_file W)
  | CErr k d => check_write_assertions sds = CErr k d /\ check_write_cmd sds = CErr k d
  | CPanic m => check_write_assertions sds = CPanic m /\ check_write_cmd sds = CPanic m
  end.
Proof. exact check_write_verdict. Qed.
Print Assumptions C04_write_verdict.

(* A rejected journal prints nothing: the command's result is the checker's error and no text (the assertions are
   written only after the checker has run over all days; the model's result type has no output beside an error). *)
Theorem C04_write_fails_silently : forall sds,
  check_cmd_fixed sds <> COk tt ->
  (forall t, check_write_cmd sds <> COk t) /\
  (forall k d, check_cmd_fixed sds = CErr k d -> check_write_cmd sds = CErr k d).
Proof. exact check_write_fails_silently. Qed.
Print Assumptions C04_write_fails_silently.

(* For every journal the checker accepts, `check --write` prints the text of a list of assertions W, and the journal
   extended by these assertions is accepted too.  ([sd_syntactic]: account names as the parser produces them, as in
   C04_cmd_iff / C05.  Where the new directives are put is irrelevant: C05_verdict_perm.) *)
Theorem C04_write_accepted : forall sds,
  sd_syntactic sds -> check_cmd_fixed sds = COk tt ->
  exists W, check_write_assertions sds = COk W /\ check_write_cmd sds = COk (write_file W) /\
            check_cmd_fixed (sds ++ map assertion_sdirective W) = COk tt.
Proof. exact check_write_accepted. Qed.
Print Assumptions C04_write_accepted.

(* The text.  For a journal as the parser delivers it ([input_lex]: C09's hypothesis -- printable dates, lexable account
   and commodity names) that the checker accepts: the printed text is read back by the model's parser
   (C09_reparse_printed applied to the days of [write_file]) as balance assertions only; they are the collected
   assertions with re-read quantities ([rq_w]: every quantity q replaced by of_string (to_string q), equal in value,
   C09_reread); and the journal extended by what was read is accepted. *)
Theorem C04_write_text_accepted : forall sds,
  PrintLexInput.input_lex sds -> check_cmd_fixed sds = COk tt ->
  exists W text ss W', check_write_assertions sds = COk W /\ check_write_cmd sds = COk text /\
    ToModel.ToModelM.reparse text = MOk ss /\ assertions_only ss = Some W' /\
    Permutation ss (map assertion_sdirective (map rq_w W)) /\
    check_cmd_fixed (sds ++ ss) = COk tt.
Proof. exact check_write_text_accepted. Qed.
Print Assumptions C04_write_text_accepted.

(* the same on model directives, with the specification's word for "accepted" *)
Theorem C04_write_accepted_wellformed : forall ds W,
  syntactic ds -> check_model ds = VOk -> written ds = ROk W ->
  syntactic (ds ++ written_directives W) /\ check_model (ds ++ written_directives W) = VOk.
Proof. exact written_accepted. Qed.
Print Assumptions C04_write_accepted_wellformed.

(* What is asserted.  [write_spec ds W] (Spec/CheckWriteSpec.v), field by field:
   - the dates of W are strictly ascending (one assertion per day at most), each is a date of the journal, no
     assertion is empty;
   - the lines of an assertion are strictly ordered by (account type, account name, commodity): no position twice;
   - sound: every line (a, q, c) of the assertion of day dt is a live position at the end of that day and q is, in
     value, the running quantity [quantity (events_upto ds dt) a c];
   - complete: every position that is live at the end of a day of the journal has a line in an assertion of that day.
   So the printed assertions cover exactly the live asset/liability positions of every day -- all of them, not only
   the ones that changed. *)
Theorem C04_write_complete : forall ds W, syntactic ds -> written ds = ROk W -> write_spec ds W.
Proof. exact write_complete. Qed.
Print Assumptions C04_write_complete.

(* the executable form the correspondence check evaluates on the assertions read back from the binary's output *)
Theorem C04_write_spec_b_spec : forall ds W, write_spec_b ds W = true <-> write_spec ds W.
Proof. exact write_spec_b_spec. Qed.
Print Assumptions C04_write_spec_b_spec.

(* a live position of a well-formed history belongs to an open account (why the new assertions find their accounts
   open), and was booked (why nothing is asserted before the first booking) *)
Theorem C04_write_live_open : forall pre a c,
  wellformed_events pre -> live pre a c = true -> open_after pre a = true /\ exists q, In (EPost a c q) pre.
Proof. intros pre a c W L. split; [exact (CheckWriteKeys.live_open pre a c W L)|exact (CheckWriteKeys.live_posted pre a c L)]. Qed.
Print Assumptions C04_write_live_open.

(* Permuting the journal's directives changes neither the collected assertions nor the printed bytes (or both runs
   fail) -- the C05/C06 statement for this command; with C05_layout / C06_arrival: nor does the distribution over
   files or their arrival order. *)
Theorem C04_write_order_irrelevant : forall sds1 sds2,
  Permutation sds1 sds2 -> sd_syntactic sds1 ->
  ceq eq (check_write_assertions sds1) (check_write_assertions sds2) /\
  ceq eq (check_write_cmd sds1) (check_write_cmd sds2).
Proof.
  intros sds1 sds2 P H. split; [exact (check_write_assertions_perm sds1 sds2 P H)|exact (check_write_cmd_perm sds1 sds2 P H)].
Qed.
Print Assumptions C04_write_order_irrelevant.

(* Map iteration order (C06_map_order for this command): Checker.dayEnd ranges over ch.quantities, a Go map, and sorts
   the balances with assertion.CompareBalance.  For every quantity map a run of the checker can reach (sorted keys,
   well-formed entries: Proofs/CheckProofs.v [Inv]) and every enumeration l of it, the sorted slice is the same. *)
Theorem C04_write_map_order : forall m l,
  CheckLemmas.keys_sorted m -> (forall x, In x m -> CheckProofs.entry_ok x) -> Permutation l m ->
  Str.sort_by bal_ltb (map entry_balance l) = day_end_balances m.
Proof. exact day_end_map_order. Qed.
Print Assumptions C04_write_map_order.

(* File arrival order (C06): the command is a function of the loaded journal, so C06_arrival / C06_arrival_files /
   C06_arrival_classes apply to it as to every command of C06_commands: tagged directive lists that build the same
   journal give the same result. *)
Theorem C04_write_factor : forall sds, check_write_cmd sds = cbind (load sds) check_write_of.
Proof. exact check_write_factor. Qed.
Print Assumptions C04_write_factor.

Theorem C04_write_arrival : forall fs1 fs2 : list (list (Source.src * directive)),
  Permutation fs1 fs2 ->
  (forall f g x y, In f fs1 -> In g fs1 -> In x f -> In y g -> Source.s_path (fst x) = Source.s_path (fst y) -> f = g) ->
  Source.run_sorted check_write_of (concat fs1) = Source.run_sorted check_write_of (concat fs2).
Proof.
  intros fs1 fs2 P H. unfold Source.run_sorted. rewrite (DeterminismProofs.arrival_files fs1 fs2 P H). reflexivity.
Qed.
Print Assumptions C04_write_arrival.

(* ------------------------------------------------------------------ examples (vm_compute) *)

(* Assets:A receives 5.00 CHF and 2 USD; a day with a price only; 5.00 CHF move to Assets:B and back; Assets:B is
   closed.  Four days with positions: two lines, the same two lines on the price-only day, three lines (Assets:A 0 CHF
   stays), two lines (the closed account's position is gone).  The hypotheses of the theorems hold, the text is the
   expected one, the model's parser reads it back as assertions, and the extended journal is accepted. *)
Example C04_write_example :
  sd_syntactic x_sds /\ check_cmd_fixed x_sds = COk tt /\
  check_write_cmd x_sds = COk x_text /\
  (exists W ds, check_write_assertions x_sds = COk W /\ parse_directives x_sds = MOk ds /\
                length W = 4%nat /\ write_spec_b ds W = true /\
                check_cmd_fixed (x_sds ++ map assertion_sdirective W) = COk tt) /\
  (exists ss W', ToModel.ToModelM.reparse x_text = MOk ss /\ assertions_only ss = Some W' /\
                 check_cmd_fixed (x_sds ++ ss) = COk tt).
Proof. exact write_example. Qed.

(* ... and it satisfies the hypothesis of C04_write_text_accepted *)
Example C04_write_example_input_lex : PrintLexInput.input_lex x_sds.
Proof. exact x_sds_input_lex. Qed.

(* the same directives in another order: the same bytes *)
Example C04_write_example_permuted :
  Permutation x_sds x_sds_permuted /\ x_sds <> x_sds_permuted /\ check_write_cmd x_sds_permuted = COk x_text.
Proof. exact write_example_permuted. Qed.

(* closing Assets:B while it holds 5.00 CHF: rejected, nothing printed *)
Example C04_write_example_rejected :
  check_cmd_fixed x_bad = CErr k_nonzero (acc_name w_assets_b) /\
  check_write_cmd x_bad = CErr k_nonzero (acc_name w_assets_b).
Proof. exact write_example_rejected. Qed.
