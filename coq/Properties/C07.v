(* C07  The parser is total and its tree is a lossless cover of the text.
   Theorem statements only; each is closed by [exact <lemma>] and followed by
   Print Assumptions.
   Model: Model/Utf8.v (utf8.DecodeRuneInString), Model/Scanner.v, Model/Parser.v;
   [parse_text letter digit t] is syntax.ParseFile on the bytes t (parser.New; Advance;
   ParseFile) for a classification of letters and digits.
   Vocabulary: Spec/SyntaxSpec.v (wf_tree_b, cover_b, interleave, err_in_bounds_b) -- the
   executable statements that every check run evaluates on the Go parser's own output.
   All theorems hold for EVERY byte list t (incl. invalid UTF-8, CR/LF mixes, any length)
   and for EVERY classification letter/digit : Z -> bool (in particular for
   UnicodeTables.is_letter / is_digit, the tables of the Go toolchain).                      *)
From Coq Require Import String ZArith List Bool.
From Knut Require Import Model.Bytes Model.Utf8 Model.UnicodeTables Model.Scanner Model.Parser
  Spec.SyntaxSpec Proofs.ScannerProofs Proofs.ParserProofs.
Import ListNotations.
Open Scope Z_scope.

(* the loop bounds of the model (fuel S |t| for each of the seven loops of scanner and parser)
   are never reached: the parser terminates on every byte string *)
Theorem C07_fuel : forall letter digit t, parse_text letter digit t <> ParseFuel.
Proof. exact parse_text_fuel. Qed.
Print Assumptions C07_fuel.

(* every error of a returned chain (the scanner's error, every Scope.Annotate around it, the
   empty directives.Error{} of parseAddons) has 0 <= start <= end <= |t|: Location and Context
   index inside the text *)
Theorem C07_err_in_bounds : forall letter digit t e,
  parse_text letter digit t = ParseErr e -> err_in_bounds_b t e = true.
Proof. exact parse_text_err_in_bounds. Qed.
Print Assumptions C07_err_in_bounds.

(* a returned tree is well-formed: the file range is [0,|t|]; every range has
   0 <= start <= end <= |t|; children lie inside their parent, in source order, disjoint;
   top-level directives are non-empty, strictly increasing and disjoint; the payload of a
   directive has the directive's range (include: ends with it); a quoted string's content is
   the string without its quotes; absent addons are zero values; there is no nil payload.
   Leaf lexical classes beyond the quotes (date = 4-2-2 digits, account segments, decimals)
   are not part of wf_tree_b. *)
Theorem C07_wf : forall letter digit t f,
  parse_text letter digit t = ParseOk f -> wf_tree_b t f = true.
Proof. exact parse_text_wf. Qed.
Print Assumptions C07_wf.

(* the text outside the directives consists only of whitespace-only lines and comment lines
   starting in column 0 with `*`, `#` or `//` (the first line of a gap after a directive is
   whitespace-only: the rest of the directive's last line); every gap that is followed by a
   directive ends with a newline, a gap between two directives is not empty; and gaps and
   directive slices interleave to exactly the input *)
Theorem C07_cover : forall letter digit t f,
  parse_text letter digit t = ParseOk f -> cover_b t f = true /\ interleave t f = t.
Proof. exact parse_text_cover. Qed.
Print Assumptions C07_cover.

(* the three results in one statement *)
Theorem C07_total : forall letter digit t,
  match parse_text letter digit t with
  | ParseOk f => wf_tree_b t f = true /\ cover_b t f = true /\ interleave t f = t
  | ParseErr e => err_in_bounds_b t e = true
  | ParseFuel => False
  end.
Proof. exact parse_text_total. Qed.
Print Assumptions C07_total.

(* the decoder facts the proofs rest on hold of Go's decoder as modelled in Model/Utf8.v *)
Theorem C07_decoder : decoder_ok Utf8M.decode.
Proof. exact utf8_decoder_ok. Qed.
Print Assumptions C07_decoder.

(* ---- examples: the hypotheses are satisfiable, the statements are not vacuous ---- *)

Definition ex_text : str := Eval vm_compute in
  runes_of_string "* c
2020-01-01 open A:B
@performance(X)
2020-01-02 ""d""
A:B C 1.5 X

"%string.

Example C07_example_parses :
  exists f, parse_text is_letter is_digit ex_text = ParseOk f /\
            List.length (f_directives f) = 2%nat /\
            wf_tree_b ex_text f = true /\ cover_b ex_text f = true.
Proof. eexists. vm_compute. repeat split. Qed.

(* an error chain: file > directive > date > scanner error, all inside the 4 bytes *)
Example C07_example_error :
  parse_text is_letter is_digit (runes_of_string "20x0"%string) =
  ParseErr [mkErr (KWhile DFile) 0 2; mkErr (KWhile DDir) 0 2; mkErr (KWhile DDate) 0 2; mkErr KChar 2 2].
Proof. vm_compute. reflexivity. Qed.

(* invalid UTF-8 is an error at the offending byte, not a panic *)
Example C07_example_invalid_utf8 :
  parse_text is_letter is_digit [35; 32; 255; 10] =
  ParseErr [mkErr (KWhile DFile) 0 2; mkErr (KWhile DComment) 0 2; mkErr KNext 1 2; mkErr KUtf8 2 2].
Proof. vm_compute. reflexivity. Qed.

(* the specification rejects trees that are not covers: a directive range shifted by one *)
Example C07_spec_rejects_shifted :
  let t := runes_of_string "2020-01-01 open A
"%string in
  wf_tree_b t (mkFile (mkRange 0 18)
     [mkDirective (mkRange 0 18) (BOpen (mkOpen (mkRange 0 18) (mkRange 0 10) (mkAccount (mkRange 16 17) false)))]) = true /\
  cover_b t (mkFile (mkRange 0 18)
     [mkDirective (mkRange 0 16) (BOpen (mkOpen (mkRange 0 16) (mkRange 0 10) (mkAccount (mkRange 16 16) false)))]) = false.
Proof. vm_compute. split; reflexivity. Qed.
