(* C07  The parser is total and its tree is a lossless cover of the text.
   Theorem statements only; each is closed by [exact <lemma>] and followed by
   Print Assumptions.
   Model: Model/Utf8.v (utf8.DecodeRuneInString), Model/Scanner.v, Model/Parser.v;
   [parse_text letter digit t] is syntax.ParseFile on the bytes t (parser.New; Advance;
   ParseFile) for a classification of letters and digits.
   Vocabulary: Spec/SyntaxSpec.v (wf_tree_b, cover_b, interleave, err_in_bounds_b) and
   Spec/LeafSpec.v (wf_leaves_b: the lexical class of every leaf; wf_keywords_b: the keyword
   that justifies the kind of every node) -- the executable
   statements that every check run evaluates on the Go parser's own output.
   All theorems hold for EVERY byte list t (incl. invalid UTF-8, CR/LF mixes, any length)
   and for EVERY classification letter/digit : Z -> bool (in particular for
   UnicodeTables.is_letter / is_digit, the tables of the Go toolchain).                      *)
From Coq Require Import String ZArith List Bool.
From Knut Require Import Model.Bytes Model.Utf8 Model.UnicodeTables Model.Scanner Model.Parser
  Spec.SyntaxSpec Spec.FormatSpec Spec.LeafSpec Spec.SepSpec Proofs.ScannerProofs Proofs.ParserProofs Proofs.RoundTripLeaf
  Proofs.RoundTripTop Proofs.LeafProofs Proofs.KeywordProofs Proofs.SepProofs Proofs.DeterminedProofs
  Spec.LocationSpec Proofs.LocationProofs Proofs.LocationParserProofs.
Import ListNotations.
Open Scope Z_scope.

(* the loop bounds of the model (fuel S |t| for each of the seven loops of scanner and parser)
   are never reached: the parser terminates on every byte string *)
Theorem C07_fuel : forall letter digit t, parse_text letter digit t <> ParseFuel.
Proof. exact parse_text_fuel. Qed.
Print Assumptions C07_fuel.

(* every error of a returned chain (the scanner's error, every Scope.Annotate around it, the
   empty directives.Error{} of parseAddons) has 0 <= start <= end <= |t|: Location and Context
   index inside the text *)
Theorem C07_err_in_bounds : forall letter digit t e,
  parse_text letter digit t = ParseErr e -> err_in_bounds_b t e = true.
Proof. exact parse_text_err_in_bounds. Qed.
Print Assumptions C07_err_in_bounds.

(* a returned tree is well-formed: the file range is [0,|t|]; every range has
   0 <= start <= end <= |t|; children lie inside their parent, in source order, disjoint;
   top-level directives are non-empty, strictly increasing and disjoint; the payload of a
   directive has the directive's range (include: ends with it); a quoted string's content is
   the string without its quotes; absent addons are zero values; there is no nil payload.
   The lexical classes of the leaves are C07_leaves. *)
Theorem C07_wf : forall letter digit t f,
  parse_text letter digit t = ParseOk f -> wf_tree_b t f = true.
Proof. exact parse_text_wf. Qed.
Print Assumptions C07_wf.

(* the text outside the directives consists only of whitespace-only lines and comment lines
   starting in column 0 with `*`, `#` or `//` (the first line of a gap after a directive is
   whitespace-only: the rest of the directive's last line); every gap that is followed by a
   directive ends with a newline, a gap between two directives is not empty; and gaps and
   directive slices interleave to exactly the input *)
Theorem C07_cover : forall letter digit t f,
  parse_text letter digit t = ParseOk f -> cover_b t f = true /\ interleave t f = t.
Proof. exact parse_text_cover. Qed.
Print Assumptions C07_cover.

(* every leaf's slice is in its lexical class (Spec/LeafSpec.v): the slice decodes into runes
   (no range cuts an encoding or covers an invalid byte) and, over those runes,
     date = dddd-dd-dd;  decimal = -?d+(.d+)?;  commodity = a+;
     account = a+(:a+)* not starting with `$` when Macro is false, `$`l+ when Macro is true;
     interval = daily|weekly|monthly|quarterly;
     quoted string = quote, runes other than the quote, quote, and Content = what is between;
   a transaction has a booking, an assertion a balance, there is no nil payload; the targets
   of @performance are commodities and @accrue is the zero value or interval, two dates and
   an account.  d, l, a are the digit, letter, letter-or-digit predicates of the parser: the
   statement holds for every classification (no class_ok hypothesis is needed) *)
Theorem C07_leaves : forall letter digit t f,
  parse_text letter digit t = ParseOk f -> wf_leaves_b letter digit t f = true.
Proof. exact parse_text_leaves. Qed.
Print Assumptions C07_leaves.

(* in particular for the tables of the Go toolchain *)
Theorem C07_leaves_unicode : forall t f,
  parse_text is_letter is_digit t = ParseOk f -> wf_leaves_b is_letter is_digit t f = true.
Proof. exact (parse_text_leaves is_letter is_digit). Qed.
Print Assumptions C07_leaves_unicode.

(* the kind of every node is justified by the text (Spec/LeafSpec.v, bytes): between the date
   and the payload stand blanks (32, 9, 13), the keyword of the payload's kind -- open, close,
   price, balance -- and blanks (after `balance` the line may end instead: the multi-line
   form); a transaction's description follows its date after blanks only; an include is
   `include`, blanks, the path; a present @performance is `@performance(` ... `)`, a present
   @accrue is `@accrue`, blanks, the interval.  That the blanks after open/close/price are not
   empty needs that the newline is not alphanumeric: the hypothesis class_ok (blank, tab, CR,
   newline, `)` `,` `#` `*` `/` are neither letters nor digits, `i` is one), which holds of
   the Unicode tables (C08_class_ok_unicode) *)
Theorem C07_keywords : forall letter digit t f, class_ok letter digit ->
  parse_text letter digit t = ParseOk f -> wf_keywords_b t f = true.
Proof. exact parse_text_keywords. Qed.
Print Assumptions C07_keywords.

Theorem C07_keywords_unicode : forall t f,
  parse_text is_letter is_digit t = ParseOk f -> wf_keywords_b t f = true.
Proof. exact (fun t f => parse_text_keywords is_letter is_digit t f unicode_class_ok). Qed.
Print Assumptions C07_keywords_unicode.

(* for an arbitrary classification the statement is false: if the newline is a letter, the
   account of `open` may start with it *)
Theorem C07_keywords_unrestricted_refuted :
  exists letter digit t f, parse_text letter digit t = ParseOk f /\ wf_keywords_b t f = false.
Proof. exact keywords_unrestricted_refuted. Qed.
Print Assumptions C07_keywords_unrestricted_refuted.

(* the text BETWEEN the leaves of every node is what the grammar says (Spec/SepSpec.v, bytes;
   blanks are 32, 9, 13):
     booking       credit blank+ debit blank+ decimal blank+ commodity
     balance line  account blank+ decimal blank+ commodity
     price         commodity blank+ decimal blank+ commodity
     @accrue       interval blank+ date blank+ date blank+ account
     @performance( blank* [ commodity ( blank* , blank* commodity )* ] blank* )
   after the description, after every booking, after every balance line of the multi-line form
   and after every addon stands blank* newline (the last line of a directive that ends the text
   may lack the newline); every node starts with its first leaf and ends with its last leaf (or
   with the rest of its last line), the date of a transaction follows its addon lines directly;
   addon lines in front of an open / close / balance / price / include -- which the parser
   accepts and drops -- start with `@` and end with a newline.  That the blanks of a balance
   line, a price and an @accrue line are not empty (readWhitespace1 accepts none in front of a
   newline) needs class_ok *)
Theorem C07_separators : forall letter digit t f, class_ok letter digit ->
  parse_text letter digit t = ParseOk f -> wf_separators_b t f = true.
Proof. exact parse_text_separators. Qed.
Print Assumptions C07_separators.

Theorem C07_separators_unicode : forall t f,
  parse_text is_letter is_digit t = ParseOk f -> wf_separators_b t f = true.
Proof. exact (fun t f => parse_text_separators is_letter is_digit t f unicode_class_ok). Qed.
Print Assumptions C07_separators_unicode.

(* for an arbitrary classification the statement is false: if the newline is a letter, the
   target commodity of `price A 1<newline>B` starts with the newline, right after the number *)
Theorem C07_separators_unrestricted_refuted :
  exists letter digit t f, parse_text letter digit t = ParseOk f /\ wf_separators_b t f = false.
Proof. exact separators_unrestricted_refuted. Qed.
Print Assumptions C07_separators_unrestricted_refuted.

(* SUMMARY: every byte of the text is accounted for.  [pieces t f] (Spec/SepSpec.v) lists, in
   source order, the gaps between the directives, the leaves, the keyword windows and the
   separators of the tree, each with its class; [determined_b]: the ranges of the pieces follow
   each other without a hole from 0 to |t| and the slice of every piece is in its class
   ([piece_ok_b]: a gap is whitespace-only and comment lines as in cover_b; a leaf is in its
   lexical class as in wf_leaves_b; a keyword window is as in wf_keywords_b; a separator is
   blank+, blank*, blank* `,` blank*, blank* newline as in wf_separators_b).  Hence the text is
   the concatenation of the slices of its pieces: it is determined by the leaves, the keywords
   and the classes of gaps and separators.
   The one class that does not describe its text completely is PDropped: addon lines in front
   of an open / close / balance / price / include are accepted by the parser and belong to no
   node (only in a transaction are they kept); of them the statement says `@` ... newline.   *)
Theorem C07_text_determined : forall letter digit t f, class_ok letter digit ->
  parse_text letter digit t = ParseOk f ->
  determined_b letter digit t f = true /\
  forallb (piece_ok_b Utf8M.decode letter digit t) (pieces t f) = true /\
  concat (map (fun p => cut t (fst p)) (pieces t f)) = t.
Proof. exact parse_text_determined. Qed.
Print Assumptions C07_text_determined.

Theorem C07_text_determined_unicode : forall t f,
  parse_text is_letter is_digit t = ParseOk f ->
  determined_b is_letter is_digit t f = true /\
  forallb (piece_ok_b Utf8M.decode is_letter is_digit t) (pieces t f) = true /\
  concat (map (fun p => cut t (fst p)) (pieces t f)) = t.
Proof. exact (fun t f => parse_text_determined is_letter is_digit t f unicode_class_ok). Qed.
Print Assumptions C07_text_determined_unicode.

(* the same about ANY tree -- no parser in the statement: the five executable statements that
   every check run evaluates on the Go parser's tree imply that its pieces account for every
   byte ("cover_b + wf_leaves_b + wf_keywords_b + wf_separators_b", with wf_tree_b for the
   order of the ranges) *)
Theorem C07_specs_determine : forall letter digit t f,
  wf_tree_b t f = true -> cover_b t f = true -> wf_leaves_b letter digit t f = true ->
  wf_keywords_b t f = true -> wf_separators_b t f = true ->
  determined_b letter digit t f = true /\
  forallb (piece_ok_b Utf8M.decode letter digit t) (pieces t f) = true /\
  concat (map (fun p => cut t (fst p)) (pieces t f)) = t.
Proof. exact determined_of_specs_b. Qed.
Print Assumptions C07_specs_determine.

(* two parsed texts whose pieces have the same slices are the same text *)
Theorem C07_text_determined_eq : forall letter digit t f t' f', class_ok letter digit ->
  parse_text letter digit t = ParseOk f -> parse_text letter digit t' = ParseOk f' ->
  map (fun p => cut t (fst p)) (pieces t f) = map (fun p => cut t' (fst p)) (pieces t' f') -> t = t'.
Proof. exact parse_text_determined_eq. Qed.
Print Assumptions C07_text_determined_eq.

(* the three results in one statement *)
Theorem C07_total : forall letter digit t,
  match parse_text letter digit t with
  | ParseOk f => wf_tree_b t f = true /\ cover_b t f = true /\ interleave t f = t
  | ParseErr e => err_in_bounds_b t e = true
  | ParseFuel => False
  end.
Proof. exact parse_text_total. Qed.
Print Assumptions C07_total.

(* everything about a tree the Go parser's tables produce, in one statement *)
Theorem C07_total_unicode : forall t,
  match parse_text is_letter is_digit t with
  | ParseOk f => wf_tree_b t f = true /\ cover_b t f = true /\ interleave t f = t /\
                 wf_leaves_b is_letter is_digit t f = true /\ wf_keywords_b t f = true
  | ParseErr e => err_in_bounds_b t e = true
  | ParseFuel => False
  end.
Proof. exact parse_text_total_unicode. Qed.
Print Assumptions C07_total_unicode.

(* the decoder facts the proofs rest on hold of Go's decoder as modelled in Model/Utf8.v *)
Theorem C07_decoder : decoder_ok Utf8M.decode.
Proof. exact utf8_decoder_ok. Qed.
Print Assumptions C07_decoder.

(* ---- examples: the hypotheses are satisfiable, the statements are not vacuous ---- *)

Definition ex_text : str := Eval vm_compute in
  runes_of_string "* c
2020-01-01 open A:B
@performance(X)
2020-01-02 ""d""
A:B C 1.5 X

"%string.

Example C07_example_parses :
  exists f, parse_text is_letter is_digit ex_text = ParseOk f /\
            List.length (f_directives f) = 2%nat /\
            wf_tree_b ex_text f = true /\ cover_b ex_text f = true.
Proof. eexists. vm_compute. repeat split. Qed.

(* an error chain: file > directive > date > scanner error, all inside the 4 bytes *)
Example C07_example_error :
  parse_text is_letter is_digit (runes_of_string "20x0"%string) =
  ParseErr [mkErr (KWhile DFile) 0 2; mkErr (KWhile DDir) 0 2; mkErr (KWhile DDate) 0 2; mkErr KChar 2 2].
Proof. vm_compute. reflexivity. Qed.

(* invalid UTF-8 is an error at the offending byte, not a panic *)
Example C07_example_invalid_utf8 :
  parse_text is_letter is_digit [35; 32; 255; 10] =
  ParseErr [mkErr (KWhile DFile) 0 2; mkErr (KWhile DComment) 0 2; mkErr KNext 1 2; mkErr KUtf8 2 2].
Proof. vm_compute. reflexivity. Qed.

(* the leaves of the example are in their classes *)
Example C07_example_leaves :
  exists f, parse_text is_letter is_digit ex_text = ParseOk f /\ wf_leaves_b is_letter is_digit ex_text f = true.
Proof. eexists. split; [vm_compute; reflexivity|]. vm_compute. reflexivity. Qed.

(* the classes are not vacuous: what they accept and what they reject *)
Definition ex_in (c : list Z -> bool) (s : string) : bool := in_class Utf8M.decode c (runes_of_string s).
Example C07_classes_accept :
  ex_in (date_rs is_digit) "2020-01-31" = true /\
  ex_in (decimal_rs is_digit) "-10.50" = true /\ ex_in (decimal_rs is_digit) "7" = true /\
  ex_in (account_rs is_letter is_digit false) "Assets:Bank:CH93" = true /\
  ex_in (account_rs is_letter is_digit true) "$dividend" = true /\
  ex_in (commodity_rs is_letter is_digit) "CHF" = true.
Proof. vm_compute. repeat split. Qed.
Example C07_classes_reject :
  ex_in (date_rs is_digit) "2020-01-3" = false /\ ex_in (date_rs is_digit) "2020-1-031" = false /\
  ex_in (date_rs is_digit) "2020/01/31" = false /\
  ex_in (decimal_rs is_digit) "1." = false /\ ex_in (decimal_rs is_digit) ".5" = false /\
  ex_in (decimal_rs is_digit) "--1" = false /\ ex_in (decimal_rs is_digit) "1.2.3" = false /\
  ex_in (decimal_rs is_digit) "1,5" = false /\
  ex_in (account_rs is_letter is_digit false) "Assets:" = false /\
  ex_in (account_rs is_letter is_digit false) ":Assets" = false /\
  ex_in (account_rs is_letter is_digit false) "A::B" = false /\
  ex_in (account_rs is_letter is_digit false) "A B" = false /\
  ex_in (account_rs is_letter is_digit false) "$x" = false /\
  ex_in (account_rs is_letter is_digit true) "$x1" = false /\
  ex_in (account_rs is_letter is_digit true) "$" = false /\
  ex_in (commodity_rs is_letter is_digit) "" = false /\ ex_in (commodity_rs is_letter is_digit) "C-F" = false /\
  in_class Utf8M.decode (commodity_rs is_letter is_digit) [67; 195] = false.
Proof. vm_compute. repeat split. Qed.

(* a tree whose date leaf has a one-digit day passes wf_tree_b and cover_b, not wf_leaves_b *)
Example C07_spec_rejects_short_day :
  let t := runes_of_string "2020-01-1 open A
"%string in
  let f := mkFile (mkRange 0 17)
     [mkDirective (mkRange 0 16) (BOpen (mkOpen (mkRange 0 16) (mkRange 0 9) (mkAccount (mkRange 15 16) false)))] in
  wf_tree_b t f = true /\ cover_b t f = true /\ wf_leaves_b is_letter is_digit t f = false.
Proof. vm_compute. repeat split. Qed.

(* the keywords of the example are where the kinds say *)
Example C07_example_keywords :
  exists f, parse_text is_letter is_digit ex_text = ParseOk f /\ wf_keywords_b ex_text f = true.
Proof. eexists. split; [vm_compute; reflexivity|]. vm_compute. reflexivity. Qed.

(* a `close` directive returned as an opening passes every other check, not wf_keywords_b; so
   does an `open` whose keyword touches the account *)
Example C07_spec_rejects_wrong_kind :
  let t := runes_of_string "2020-01-01 close A
"%string in
  let f := mkFile (mkRange 0 19)
     [mkDirective (mkRange 0 18) (BOpen (mkOpen (mkRange 0 18) (mkRange 0 10) (mkAccount (mkRange 17 18) false)))] in
  wf_tree_b t f = true /\ cover_b t f = true /\ wf_leaves_b is_letter is_digit t f = true /\
  wf_keywords_b t f = false.
Proof. vm_compute. repeat split. Qed.
Example C07_spec_rejects_glued_keyword :
  let t := runes_of_string "2020-01-01 openA
"%string in
  let f := mkFile (mkRange 0 17)
     [mkDirective (mkRange 0 16) (BOpen (mkOpen (mkRange 0 16) (mkRange 0 10) (mkAccount (mkRange 15 16) false)))] in
  wf_tree_b t f = true /\ cover_b t f = true /\ wf_leaves_b is_letter is_digit t f = true /\
  wf_keywords_b t f = false.
Proof. vm_compute. repeat split. Qed.

(* the specification rejects trees that are not covers: a directive range shifted by one *)
Example C07_spec_rejects_shifted :
  let t := runes_of_string "2020-01-01 open A
"%string in
  wf_tree_b t (mkFile (mkRange 0 18)
     [mkDirective (mkRange 0 18) (BOpen (mkOpen (mkRange 0 18) (mkRange 0 10) (mkAccount (mkRange 16 17) false)))]) = true /\
  cover_b t (mkFile (mkRange 0 18)
     [mkDirective (mkRange 0 16) (BOpen (mkOpen (mkRange 0 16) (mkRange 0 10) (mkAccount (mkRange 16 16) false)))]) = false.
Proof. vm_compute. split; reflexivity. Qed.

(* the separators of the example are what the grammar says *)
Definition ex_text2 : str := Eval vm_compute in
  runes_of_string "@performance( X , Y )
@accrue monthly 2020-01-01  2020-12-31 A:B
2020-01-02 ""d""
A:B  C 1.5 X
C A:B -2 Y

2020-01-03 balance
A:B 1 X
C 2 Y

2020-01-04 price X 2.5 Y
"%string.
Example C07_example_separators :
  exists f, parse_text is_letter is_digit ex_text2 = ParseOk f /\ List.length (f_directives f) = 3%nat /\
            wf_separators_b ex_text2 f = true.
Proof. eexists. split; [vm_compute; reflexivity|]. vm_compute. split; reflexivity. Qed.

(* the example text consists of 64 pieces *)
Example C07_example_determined :
  exists f, parse_text is_letter is_digit ex_text2 = ParseOk f /\
            determined_b is_letter is_digit ex_text2 f = true /\ List.length (pieces ex_text2 f) = 64%nat.
Proof. eexists. split; [vm_compute; reflexivity|]. vm_compute. split; reflexivity. Qed.

(* a tab is a blank, a missing blank or a second comma is not: trees whose ranges claim
   `A B 1X` (no blank before the commodity) or `@performance(X,,Y)` pass every other check *)
Example C07_spec_rejects_missing_blank :
  let t := runes_of_string "2020-01-01 ""x""
A B 1X
"%string in
  let f := mkFile (mkRange 0 22)
     [mkDirective (mkRange 0 22) (BTrx (mkTrx (mkRange 0 22) (mkRange 0 10) (mkQuoted (mkRange 11 14) (mkRange 12 13))
        [mkBooking (mkRange 15 21) (mkAccount (mkRange 15 16) false) (mkAccount (mkRange 17 18) false) (mkRange 19 20) (mkRange 20 21)]
        zero_addons))] in
  wf_tree_b t f = true /\ cover_b t f = true /\ wf_leaves_b is_letter is_digit t f = true /\
  wf_keywords_b t f = true /\ wf_separators_b t f = false.
Proof. vm_compute. repeat split. Qed.
Example C07_spec_rejects_two_commas :
  let t := runes_of_string "@performance(X,,Y)
2020-01-01 ""x""
A B 1 X
"%string in
  let f := mkFile (mkRange 0 42)
     [mkDirective (mkRange 0 42) (BTrx (mkTrx (mkRange 0 42) (mkRange 19 29) (mkQuoted (mkRange 30 33) (mkRange 31 32))
        [mkBooking (mkRange 34 41) (mkAccount (mkRange 34 35) false) (mkAccount (mkRange 36 37) false) (mkRange 38 39) (mkRange 40 41)]
        (mkAddons (mkRange 0 19) (mkPerf (mkRange 0 18) [mkRange 13 14; mkRange 16 17]) zero_accrual)))] in
  wf_tree_b t f = true /\ cover_b t f = true /\ wf_leaves_b is_letter is_digit t f = true /\
  wf_keywords_b t f = true /\ wf_separators_b t f = false.
Proof. vm_compute. repeat split. Qed.

(* ==================================================================================
   The RENDERED position of an error (Spec/LocationSpec.v, Proofs/LocationProofs.v).
   Every diagnostic of knut prints "path: line:col message"; line:col is
   directives.Range.Location() of the error's range: Go walks the RUNES of the text up to the
   byte offset End, counting newlines (line) and the runes since the last newline (col).
   [location t off] is that loop with Go's decoder (an invalid byte is one rune of width 1);
   [loc_inside_b t (l,c)]: line l exists in t and 1 <= c <= (runes of line l) + 1;
   [offset_of t (l,c)]: the byte offset that the position (l,c) denotes;
   [rune_boundary_b t off]: off is the start of a rune of Go's walk over t, or |t|.
   ================================================================================== *)

(* the rendered position lies inside the input -- for EVERY text and EVERY offset: the line
   exists and the column is at most one past the runes of that line.  (No hypothesis on off is
   needed: at an offset that is no rune boundary, negative or beyond the text, Go's comparison
   pos == End never succeeds and the position of the END of the text is returned,
   C07_location_off_rune.) *)
Theorem C07_location_inside : forall t off, loc_inside_b t (location t off) = true.
Proof. exact location_inside. Qed.
Print Assumptions C07_location_inside.

(* the rendered position identifies the byte the error points at: computed back from the
   text, the byte offset of (line, col) is off -- for every off at which a rune of the text
   starts, and for off = |t| *)
Theorem C07_location_roundtrip : forall t off,
  rune_boundary_b t off = true -> offset_of t (location t off) = off.
Proof. exact location_roundtrip. Qed.
Print Assumptions C07_location_roundtrip.

(* in terms of BYTES the rendered line is one more than the number of bytes '\n' among the
   first off bytes of the text (a newline rune is the byte 10; the bytes of every other rune,
   valid or not, contain no 10).  The column has no such reading: it counts runes -- that is
   what the round trip above pins down and what a byte distance gets wrong *)
Theorem C07_location_line : forall t off,
  rune_boundary_b t off = true -> fst (location t off) = byte_line t off.
Proof. exact location_line. Qed.
Print Assumptions C07_location_line.

(* the hypothesis says no more than it should: such offsets lie in [0,|t|], and 0 and |t| are
   among them *)
Theorem C07_rune_boundary_bounds : forall t off, rune_boundary_b t off = true -> 0 <= off <= zlen t.
Proof. exact rune_boundary_bounds. Qed.
Print Assumptions C07_rune_boundary_bounds.

(* and it is needed: everywhere else Location() renders the end of the text *)
Theorem C07_location_off_rune : forall t off,
  rune_boundary_b t off = false -> location t off = location t (zlen t).
Proof. exact location_off_rune. Qed.
Print Assumptions C07_location_off_rune.

(* every error of the chain that the parser returns: its byte range lies inside the text
   (C07_err_in_bounds) and the position rendered for its End lies inside the text *)
Theorem C07_error_location_inside : forall letter digit t e,
  parse_text letter digit t = ParseErr e ->
  err_in_bounds_b t e = true /\
  forallb (fun x => loc_inside_b t (location t (er_end x))) e = true.
Proof. exact parse_text_error_location_inside. Qed.
Print Assumptions C07_error_location_inside.

(* every error of a returned chain ends where a rune of the text starts (or at the end of the
   text): the scanner only stands at offsets that Go's walk over the runes reaches -- Advance
   moves by the width of the decoded rune, Backtrack returns to an earlier offset -- and every
   error range ends at a scanner offset (Proofs/LocationParserProofs.v: an invariant carried
   through every function of scanner and parser) *)
Theorem C07_error_ends_at_rune : forall letter digit t e,
  parse_text letter digit t = ParseErr e ->
  forallb (fun x => rune_boundary_b t (er_end x)) e = true.
Proof. exact parse_text_errs_at_runes. Qed.
Print Assumptions C07_error_ends_at_rune.

(* hence the position rendered for every error of the chain identifies the byte the error
   points at: computed back from the text, line:col is the byte End *)
Theorem C07_error_location_roundtrip : forall letter digit t e,
  parse_text letter digit t = ParseErr e ->
  forallb (fun x => offset_of t (location t (er_end x)) =? er_end x) e = true.
Proof. exact parse_text_errs_roundtrip. Qed.
Print Assumptions C07_error_location_roundtrip.

(* so the verdict of the check on a rendered position -- inside the input and denoting End
   (observed_loc_ok_b) -- accepts the model's own rendering of every error *)
Theorem C07_error_location_verdict : forall letter digit t e,
  parse_text letter digit t = ParseErr e ->
  forallb (fun x => observed_loc_ok_b t (er_end x) (location t (er_end x))) e = true.
Proof. exact parse_text_errs_verdict. Qed.
Print Assumptions C07_error_location_verdict.

(* ---- example: an error AFTER multi-byte characters on its line ----
   line 2 has 38 runes in 42 bytes (ö ü ä é are two bytes each); the parser stops at the stray
   euro sign, byte 57 of the text = rune 38 of line 2.  Go renders 2:38 for every error of the
   chain; that position lies inside the text and denotes byte 57.  A Location() that counted
   BYTES since the last newline (the seeded change of round 7, strings.LastIndexByte) would
   print 2:42 -- a column that line 2 does not have. *)
Definition ex_text_umlaut : str := Eval vm_compute in
  runes_of_string "2020-01-01 ""ü""
Vermögen:Zürich Aufwände:Café 12 CHF €
"%string.

Example C07_example_location :
  parse_text is_letter is_digit ex_text_umlaut =
    ParseErr [mkErr (KWhile DFile) 0 57; mkErr (KWhile DDir) 0 57; mkErr (KWhile DTrx) 0 57;
              mkErr (KWhile DRest) 56 57; mkErr KChar 57 57] /\
  rune_boundary_b ex_text_umlaut 57 = true /\
  location ex_text_umlaut 57 = (2, 38) /\
  loc_inside_b ex_text_umlaut (2, 38) = true /\
  offset_of ex_text_umlaut (2, 38) = 57 /\
  byte_line ex_text_umlaut 57 = 2 /\
  byte_col ex_text_umlaut 57 = 42 /\
  loc_inside_b ex_text_umlaut (2, 39) = true /\       (* the newline of line 2 *)
  loc_inside_b ex_text_umlaut (2, 40) = false /\
  loc_inside_b ex_text_umlaut (2, 42) = false /\
  observed_loc_ok_b ex_text_umlaut 57 (2, 38) = true /\
  observed_loc_ok_b ex_text_umlaut 57 (2, 39) = false. (* inside, but another byte *)
Proof. vm_compute. repeat split. Qed.

(* an invalid byte is one rune of width 1 (as Go's range yields U+FFFD): the error of the
   invalid-UTF-8 example above points at byte 2 = column 3 of line 1; and an offset inside an
   encoding (byte 2 of "aü": the second byte of ü) is rendered as the end of the text *)
Example C07_example_location_invalid :
  location [35; 32; 255; 10] 2 = (1, 3) /\ offset_of [35; 32; 255; 10] (1, 3) = 2 /\
  rune_boundary_b [97; 195; 188; 10; 120] 2 = false /\
  location [97; 195; 188; 10; 120] 2 = (2, 2) /\ location [97; 195; 188; 10; 120] 5 = (2, 2).
Proof. vm_compute. repeat split. Qed.
