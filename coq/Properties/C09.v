(* C09  `knut print` emits a normal form that round-trips.
   Theorem statements only; each is closed by [exact <lemma>] and followed by Print Assumptions.
   Vocabulary: Spec/PrintSpec.v (accepted, printed, normal_form, same_report and their executable
   versions).  Model: Model/JPrinter.v (printer.go, journal.Print), Model/ToModel.v (syntax tree ->
   model directives, [reparse] = parser + ToModel), Model/Parser.v, Model/Cli.v.
   [print_cmd_pinned] is knut print as pinned; [print_cmd] is knut print after
   findings/C09-multi-assertion.patch (JPrinter.print_day).

   THE PROPERTY, in full (for pr = print_cmd l; it is FALSE for pr = print_cmd_pinned l, see
   C09_multi_assertion_refuted):

     C09_accepted     : forall l ds text, lex_ok ds -> printed pr ds text ->
                          exists ds', reparse text = MOk ds' /\ accepted l ds'
     C09_idem         : ... /\ printed pr ds' text
     C09_same_reports : ... /\ forall cfg, balance_csv cfg ds' = balance_csv cfg ds
                            /\ forall cfg tc, balance_text cfg tc ds' = balance_text cfg tc ds

   where lex_ok says what the parser guarantees of every journal it has read: names are non-empty
   runs of letters/digits, descriptions are valid UTF-8 without a double quote, years are 0000..9999.

   WHAT IS PROVED HERE (each closed under the global context), in layers:
     layer 0  the pinned printer is refuted; the repaired printer passes on the witness and on a
              journal with Unicode, accrual, targets, negative/trailing-zero amounts (vm_compute
              through the model's parser)                         C09_multi_assertion_refuted,
                                                                  C09_multi_assertion_fixed, C09_example
     layer 1  per directive, at the model level: every directive knut's model layer creates is
              reproduced exactly by re-creating it from what the printer writes for it
              (pair_build of the printed debit half gives back both halves; accruals are already
              expanded; targets kept)                             C09_txn_denoted, C09_directive_denoted
              leaves: date, account name, decimal through ToModel C09_date_roundtrip,
                                                                  C09_account_roundtrip, C09_decimal_roundtrip
     layer 3/4, model level (no text): the directive list denoted by a journal is a normal form --
              it loads to the same builder, hence is accepted iff the journal is, prints the same
              bytes and gives the same balance reports, and denoting again changes nothing
                                                                  C09_accepted_partial, C09_idem_partial,
                                                                  C09_same_reports_partial, C09_denote_idem
     the two printers agree exactly where no multi-balance assertion is followed by another
              assertion of the same day                           C09_printers_agree
   NOT PROVED (the gap between the partial and the full statements; all three are exercised by the
   correspondence check on every run: ops C09.print / C09.tomodel, normal_form_b, same_report_b):
     (a) reparse (print text) = the denoted directives in printed order: the context lemmas of
         DESIGN B.3 for Model/Parser.v on JPrinter output (C09_date/account/decimal_roundtrip are
         their ToModel halves);
     (b) to_string (of_string (to_string q)) = to_string q (decimal text is a normal form; the
         value half is C09_decimal_roundtrip) and invariance of check and reports under
         value-equal quantities;
     (c) invariance of builder, check and reports under the regrouping by day and kind and the
         sorting of a day's transactions that printing performs (C05's permutation lemmas), and
         idempotence of the sort. *)
From Coq Require Import ZArith List Bool.
From Knut Require Import Model.Bytes Model.Scanner Model.Parser.
From Knut Require Import Model.Str Model.Dec Model.Date Model.Account Model.Ledger Model.Journal
     Model.Report Model.JPrinter Model.Cli Model.ToModel.
From Knut Require Import Spec.TableSpec Spec.PrintSpec.
From Knut Require Import Proofs.PrintProofs.
Import ListNotations.
Open Scope Z_scope.

(* ------------------------------------------------------------------ layer 0 *)

(* The pinned printer violates the property: there is a journal, accepted under either reading of
   Checker.balance, whose printed form the parser rejects.  The witness is the journal of
   findings/C09-multi-assertion.md: a multi-balance assertion followed by another assertion of the
   same day. *)
Theorem C09_multi_assertion_refuted :
  exists ds text, accepted true ds /\ accepted false ds /\ printed (print_cmd_pinned true) ds text /\
                  printed (print_cmd_pinned false) ds text /\ reparse text = MErr e_syntax.
Proof. exact multi_assertion_refuted. Qed.
Print Assumptions C09_multi_assertion_refuted.

(* The repaired printer on the same journal: the output is read back, accepted, and printing it
   again reproduces it byte for byte. *)
Theorem C09_multi_assertion_fixed :
  printed (print_cmd true) w_journal w_text_fixed /\
  normal_form_b (print_cmd true) w_text_fixed = true.
Proof. exact multi_assertion_fixed_ok. Qed.
Print Assumptions C09_multi_assertion_fixed.

(* Example (hypotheses are satisfiable; the whole loop runs inside Coq): a journal with a Unicode
   account name, a two-line description, an accrual, two performance targets and an empty target
   list, a negative amount, trailing zeros, a multi-balance assertion followed by another assertion,
   a close.  Accepted; the repaired printer's output is a normal form with the same monthly report;
   the pinned printer's output is not. *)
Theorem C09_example :
  accepted true x_journal /\ printed (print_cmd true) x_journal x_text /\
  normal_form_b (print_cmd true) x_text = true /\
  same_report_b x_cfg x_journal x_text = true /\
  normal_form_b (print_cmd_pinned true) (text_of (print_cmd_pinned true x_journal)) = false.
Proof. exact example_roundtrip. Qed.
Print Assumptions C09_example.

(* ------------------------------------------------------------------ layer 1 *)

(* Transactions.  [stxn_of_txn t] is what the printer writes for t, as a syntax-level transaction:
   date, description, one booking "Other Account Quantity Commodity" per second posting, the
   @performance targets, no @accrue.  Every transaction that transaction.Create returns -- with or
   without accrual expansion, negative and zero quantities included -- is reproduced exactly by
   creating a transaction from that. *)
Theorem C09_txn_denoted : forall s ts t,
  txn_create s = MOk ts -> In t ts -> txn_create (stxn_of_txn t) = MOk [t].
Proof. exact txn_print_denotes. Qed.
Print Assumptions C09_txn_denoted.

(* All directive kinds (opens, closes, prices, single- and multi-balance assertions, transactions) *)
Theorem C09_directive_denoted : forall s ds d,
  parse_directive s = MOk ds -> In d ds -> parse_directive (sdir_of_dir d) = MOk [d].
Proof. exact directive_print_denotes. Qed.
Print Assumptions C09_directive_denoted.

(* Leaves, through ToModel: a range whose bytes are what the printer wrote for a date / an account /
   a decimal is converted back to that date / account / a decimal of the same value. *)
Theorem C09_date_roundtrip : forall t r d,
  ext t r = format_date d -> 0 <= year_of d <= 9999 -> get_date t r = MOk d.
Proof. exact get_date_printed. Qed.
Print Assumptions C09_date_roundtrip.

Theorem C09_account_roundtrip : forall t a x,
  ext t (SynM.acc_range a) = acc_name x -> x <> [] -> Forall seg_ok x -> valid_account x = true ->
  get_account t a = MOk x.
Proof. exact get_account_printed. Qed.
Print Assumptions C09_account_roundtrip.

Theorem C09_decimal_roundtrip : forall t r q,
  ext t r = to_string q -> exists x, get_dec t r = MOk x /\ dec_eqv x q.
Proof. exact get_dec_printed. Qed.
Print Assumptions C09_decimal_roundtrip.

(* ------------------------------------------------------------------ layers 3 and 4, model level *)

(* [denote ss]: the syntax-level directives of the model directives of ss, in order.  (The printed
   text denotes a regrouping of this list by day and kind with quantities re-read from their decimal
   text: gaps (a)-(c) above.) *)

(* C09_accepted, partial: the denoted journal is accepted iff the journal is *)
Theorem C09_accepted_partial : forall l ss,
  accepted l ss -> accepted l (denote ss).
Proof. exact accepted_denote. Qed.
Print Assumptions C09_accepted_partial.

(* C09_idem, partial: printing the denoted journal gives the same bytes (both printers) *)
Theorem C09_idem_partial : forall l ss text,
  (printed (print_cmd_pinned l) ss text -> printed (print_cmd_pinned l) (denote ss) text) /\
  (printed (print_cmd l) ss text -> printed (print_cmd l) (denote ss) text).
Proof. exact printed_denote. Qed.
Print Assumptions C09_idem_partial.

(* C09_same_reports, partial: every balance report of the denoted journal is byte-identical *)
Theorem C09_same_reports_partial : forall l ss,
  accepted l ss ->
  (forall cfg, balance_csv cfg (denote ss) = balance_csv cfg ss) /\
  (forall cfg tc, balance_text cfg tc (denote ss) = balance_text cfg tc ss).
Proof. exact reports_denote. Qed.
Print Assumptions C09_same_reports_partial.

Theorem C09_denote_idem : forall l ss, accepted l ss -> denote (denote ss) = denote ss.
Proof. exact denote_idem_accepted. Qed.
Print Assumptions C09_denote_idem.

(* ------------------------------------------------------------------ the defect, exactly *)

(* The pinned and the repaired print command write the same bytes for every journal in which no
   multi-balance assertion is followed by another assertion of the same day: the repair changes
   nothing else, and whatever holds of the repaired printer holds of the pinned one there. *)
Theorem C09_printers_agree : forall l ds b,
  load ds = COk b -> no_multi_then_more (b_days b) -> print_cmd l ds = print_cmd_pinned l ds.
Proof. exact print_cmd_fixed_same. Qed.
Print Assumptions C09_printers_agree.

(* print checks first: what was printed had been accepted *)
Theorem C09_printed_accepted : forall l ds text,
  (printed (print_cmd_pinned l) ds text -> accepted l ds) /\
  (printed (print_cmd l) ds text -> accepted l ds).
Proof. exact printed_accepted_both. Qed.
Print Assumptions C09_printed_accepted.
