(* C09  `knut print` emits a normal form that round-trips.
   Theorem statements only; each is closed by [exact <lemma>] and followed by Print Assumptions.
   Vocabulary: Spec/PrintSpec.v (accepted, printed, normal_form, same_report).
   Model: Model/JPrinter.v (printer.go, journal.Print), Model/ToModel.v (syntax tree -> model
   directives), Model/Parser.v, Model/Cli.v.  [print_cmd] is knut print as pinned, and
   [print_cmd_fixed] knut print after findings/C09-multi-assertion.patch. *)
From Coq Require Import ZArith List Bool.
From Knut Require Import Model.Str Model.Dec Model.Date Model.Account Model.Ledger Model.Journal
     Model.JPrinter Model.Cli Model.ToModel.
From Knut Require Import Spec.PrintSpec.
From Knut Require Import Proofs.PrintProofs.
Import ListNotations.
Open Scope Z_scope.

(* The pinned printer violates the property: there is an accepted journal (under either reading
   of Checker.balance) whose printed form is rejected by the parser.  The witness is the journal
   of findings/C09-multi-assertion.md: a multi-balance assertion followed by another assertion of
   the same day. *)
Theorem C09_multi_assertion_refuted :
  exists ds text, accepted true ds /\ accepted false ds /\ printed (print_cmd true) ds text /\
                  printed (print_cmd false) ds text /\ reparse text = MErr e_syntax.
Proof. exact multi_assertion_refuted. Qed.
Print Assumptions C09_multi_assertion_refuted.

(* The repaired printer on the same journal: the output is read back, accepted, and printing it
   again reproduces it byte for byte. *)
Theorem C09_multi_assertion_fixed :
  printed (print_cmd_fixed true) w_journal w_text_fixed /\
  normal_form_b (print_cmd_fixed true) w_text_fixed = true.
Proof. exact multi_assertion_fixed_ok. Qed.
Print Assumptions C09_multi_assertion_fixed.
