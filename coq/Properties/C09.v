(* C09  `knut print` emits a normal form that round-trips.
   Theorem statements only; each is closed by [exact <lemma>] and followed by Print Assumptions.
   Vocabulary: Spec/PrintSpec.v (accepted, printed, normal_form, same_report and their executable
   versions).  Model: Model/JPrinter.v (printer.go, journal.Print), Model/ToModel.v (syntax tree ->
   model directives, [reparse] = parser + ToModel), Model/Parser.v, Model/Cli.v.
   [print_cmd_pinned] is knut print as pinned; [print_cmd] is knut print after
   findings/C09-multi-assertion.patch (JPrinter.print_day).

   THE PROPERTY (for pr = print_cmd l; it is FALSE for pr = print_cmd_pinned l, see
   C09_multi_assertion_refuted), over the TEXT that knut print writes:

     C09_accepted     : input_lex ss -> printed pr ss text ->
                          exists ss', reparse text = MOk ss' /\ accepted l ss'            PROVED
     C09_idem         : ... /\ printed pr ss' text                                       PROVED
                        (both together: C09_normal_form : normal_form pr l text)
     C09_same_reports : ... /\ forall cfg, balance_csv cfg ss' ~ balance_csv cfg ss
                            /\ forall cfg tc, balance_text cfg tc ss' ~ balance_text cfg tc ss   PROVED
                        (all of it for one and the same ss': C09_roundtrip)
   [~] is "both commands fail, or the same bytes" (OrderCmd.ceq eq): the error of a failing balance
   run legitimately depends on the order of the directives (C05_error_depends_on_order).  C05's
   exclusion of conflicting price declarations is NOT needed: journal.Print keeps the order of a
   day's prices (C09_printed_same_reports).

   [input_lex ss] (Proofs/PrintLexInput.v) says what the parser guarantees of every journal it has
   read: years 0000..9999; account segments and commodities are non-empty runs of Unicode letters
   and digits; descriptions are valid UTF-8 without a double quote; a transaction has a booking,
   an assertion a balance; an @accrue annotation has such an account and a window within years
   0000..9999.  It is satisfiable (C09_input_lex_example: the journal of C09_example).

   HOW (each closed under the global context):
     (a) the printed text is read back as the printed sequence with re-read quantities
         (C09_reparse_printed): journal.Print's text is a woven text of the FORMAT printer
         (Model/SynRender.v) whose gaps are runs of newlines, every leaf is in its lexical class,
         and RoundTripFile.parse_woven (C08's context lemmas) reads it; ToModel is a function of the
         meaning.  Proofs/PrintSem.v, PrintWeave.v, PrintLex.v, PrintText.v.
     (b) decimal text is a normal form: to_string (of_string (to_string q)) = to_string q
         (C09_decimal_normal_form), and a function of the value (C09_decimal_string_of_value);
         model layer, builder, sort and printer commute with re-reading the quantities; the
         checker (C09_check_sees_values) and the whole balance pipeline -- ComputePrices,
         Valuate, Filter, CloseAccounts, Query.Into, the sort and the CSV and text renderers --
         see the VALUES of quantities only (C09_balance_sees_values): a generic simulation of
         Processor.Process under value-equal quantities; Mul/Sub/Cmp by values, Truncate and
         DivRound by the arithmetic of big.Int.Quo (C09_div_of_values).
         Proofs/DecNormalForm.v, CheckQuant.v, PrintRequant.v, QuantSim.v, QuantNum.v,
         QuantReport.v, QuantStages.v, QuantValue.v, QuantText.v, QuantPrint.v.
     (c) printing permutes the denoted directives (C09_printed_is_permutation; then C05 gives
         check invariance), the builder gives the printed days back (C09_builder_of_printed):
         the journal's days with each day's transactions sorted, so C05's stage lemmas give the
         same reports without its price exclusion (C09_printed_same_reports); transaction.Compare
         is a total preorder and the sort idempotent (C09_sort_idem).
         Proofs/PrintRegroup.v, TxnOrder.v, PrintNormal.v, PrintReportsDirect.v.
   NOT PROVED / weaker than one might wish:
     - for failing balance runs only "both fail" ([~]), not the same error.
   Kept from before: layer 0 (the pinned printer is refuted; the repaired one passes on the
   witness and on a worked example, vm_compute through the model's parser), layer 1 (per
   directive at the model level), the model-level statements on [denote], and the exact
   difference of the two printers. *)
From Coq Require Import ZArith List Bool.
From Knut Require Import Model.Bytes Model.Scanner Model.Parser.
From Knut Require Import Model.Str Model.Dec Model.Date Model.Account Model.Ledger Model.Journal
     Model.Report Model.JPrinter Model.Cli Model.ToModel.
From Knut Require Import Spec.TableSpec Spec.PrintSpec.
From Knut Require Import Proofs.PrintProofs.
From Coq Require Import Permutation.
From Knut Require Import Model.Check Proofs.OrderCmd Proofs.DecEqProofs Proofs.DecNormalForm Proofs.TxnOrder Proofs.CheckQuant Proofs.PrintRegroup
     Proofs.PrintRequant Proofs.PrintNormal Proofs.PrintLex Proofs.PrintText Proofs.PrintLexInput
     Proofs.QuantSim Proofs.QuantNum Proofs.QuantReport Proofs.QuantValue Proofs.QuantPrint Proofs.PrintReportsDirect.
Import ListNotations.
Open Scope Z_scope.

(* ------------------------------------------------------------------ the property, over the text *)

(* The text knut print writes is read back as a journal that knut check accepts ... *)
Theorem C09_accepted : forall l ss text,
  input_lex ss -> printed (print_cmd l) ss text ->
  exists ss', reparse text = MOk ss' /\ accepted l ss'.
Proof.
  intros l ss text HL Hp. destruct (print_normal_form l ss text (input_lex_ok ss HL) Hp) as (ss' & H1 & H2 & _).
  exists ss'. split; assumption.
Qed.
Print Assumptions C09_accepted.

(* ... and that knut print writes again byte for byte *)
Theorem C09_idem : forall l ss text,
  input_lex ss -> printed (print_cmd l) ss text ->
  exists ss', reparse text = MOk ss' /\ accepted l ss' /\ printed (print_cmd l) ss' text.
Proof. intros l ss text HL Hp. exact (print_normal_form l ss text (input_lex_ok ss HL) Hp). Qed.
Print Assumptions C09_idem.

Theorem C09_normal_form : forall l ss text,
  input_lex ss -> printed (print_cmd l) ss text -> normal_form (print_cmd l) l text.
Proof. intros l ss text HL Hp. exact (print_normal_form l ss text (input_lex_ok ss HL) Hp). Qed.
Print Assumptions C09_normal_form.

(* ... and whose balance reports are the journal's: the same CSV and text bytes, or both commands
   fail (the error of a failing run may differ, C05_error_depends_on_order), for every
   configuration (window, interval, --last, --diff, --close, valuation, mappings, filters, both
   checkers, thousands, rounding). *)
Theorem C09_same_reports : forall l ss text,
  input_lex ss -> printed (print_cmd l) ss text ->
  exists ss', reparse text = MOk ss' /\
    (forall cfg, ceq eq (balance_csv cfg ss') (balance_csv cfg ss)) /\
    (forall cfg tc, ceq eq (balance_text cfg tc ss') (balance_text cfg tc ss)).
Proof. intros l ss text HL Hp. exact (print_same_reports l ss text (input_lex_ok ss HL) Hp). Qed.
Print Assumptions C09_same_reports.

(* the three statements for one and the same re-read journal *)
Theorem C09_roundtrip : forall l ss text,
  input_lex ss -> printed (print_cmd l) ss text ->
  exists ss', reparse text = MOk ss' /\ accepted l ss' /\ printed (print_cmd l) ss' text /\
    (forall cfg, ceq eq (balance_csv cfg ss') (balance_csv cfg ss)) /\
    (forall cfg tc, ceq eq (balance_text cfg tc ss') (balance_text cfg tc ss)).
Proof. intros l ss text HL Hp. exact (print_roundtrip l ss text (input_lex_ok ss HL) Hp). Qed.
Print Assumptions C09_roundtrip.

(* the hypothesis is satisfiable: the journal of C09_example (Unicode account name, two-line
   description, accrual, targets) *)
Example C09_input_lex_example : input_lex x_journal.
Proof. exact x_journal_input_lex. Qed.

(* it implies the condition on the loaded journal that the proofs use, and C04/C05's condition on
   account names *)
Theorem C09_lex_ok_of_input : forall ss,
  input_lex ss -> sd_syntactic ss /\ forall ds, parse_directives ss = MOk ds -> Forall mdir_lex ds.
Proof. exact input_lex_ok. Qed.
Print Assumptions C09_lex_ok_of_input.

(* ------------------------------------------------------------------ (a) the text is read back *)

(* for every day list whose directives have printable leaves: parser + ToModel on journal.Print's
   text give the printed sequence (date order; per day prices, opens, sorted transactions,
   assertions, closes) with every quantity re-read from its decimal text *)
Theorem C09_reparse_printed : forall days,
  Forall mdir_lex (printed_model_dirs days) -> reparse (print_journal days) = MOk (map rq_sdir (printed_dirs days)).
Proof. exact reparse_print_journal. Qed.
Print Assumptions C09_reparse_printed.

(* ------------------------------------------------------------------ (b) decimal text *)

Theorem C09_decimal_normal_form : forall q x, of_string (to_string q) = Some x -> to_string x = to_string q.
Proof. exact to_string_normal_form. Qed.
Print Assumptions C09_decimal_normal_form.

(* re-reading always succeeds, keeps the value and the text *)
Theorem C09_reread : forall q,
  of_string (to_string q) = Some (reread q) /\ dec_eqv (reread q) q /\ to_string (reread q) = to_string q.
Proof. exact reread_spec. Qed.
Print Assumptions C09_reread.

(* every variant of the checker gives the same verdict on day lists that differ in the
   representation of quantities only *)
Theorem C09_check_sees_values : forall r D D', Forall2 day_q D D' ->
  ((exists x, run_stage (check_proc_current r) check_init D = COk x) <->
   (exists x, run_stage (check_proc_current r) check_init D' = COk x)).
Proof. exact check_days_q. Qed.
Print Assumptions C09_check_sees_values.

(* Decimal.String is a function of the value *)
Theorem C09_decimal_string_of_value : forall a b, dec_equal a b = true -> to_string a = to_string b.
Proof. exact to_string_eqv. Qed.
Print Assumptions C09_decimal_string_of_value.

(* DivRound of value-equal arguments is the same record (Prices.Insert's 1/p, --thousands) *)
Theorem C09_div_of_values : forall d d' d2 d2',
  dec_equal d d' = true -> dec_equal d2 d2' = true -> div d d2 = div d' d2'.
Proof. exact div_deqv. Qed.
Print Assumptions C09_div_of_values.

(* knut balance sees values only: two journals that load to the same period and to days that
   agree in everything but the representation of quantities, prices and assertion amounts
   ([day_v]) give the same CSV bytes -- or both fail -- for every configuration *)
Theorem C09_balance_sees_values : forall cfg X X' b b',
  load X = COk b -> load X' = COk b' ->
  Forall2 day_v (b_days b) (b_days b') -> b_min b = b_min b' -> b_max b = b_max b' ->
  ceq eq (balance_csv cfg X) (balance_csv cfg X').
Proof. exact balance_csv_v. Qed.
Print Assumptions C09_balance_sees_values.

(* ------------------------------------------------------------------ (c) order *)

Theorem C09_printed_is_permutation : forall ss ds,
  parse_directives ss = MOk ds -> Permutation (printed_dirs (b_days (builder_of ds))) (denote ss).
Proof. exact printed_dirs_perm. Qed.
Print Assumptions C09_printed_is_permutation.

(* Builder.Add over the printed sequence rebuilds exactly the printed days *)
Theorem C09_builder_of_printed : forall ds,
  builder_of (printed_model_dirs (b_days (builder_of ds))) =
  mkBuilder (sort_days (b_days (builder_of ds))) (b_min (builder_of ds)) (b_max (builder_of ds)).
Proof. exact builder_of_printed. Qed.
Print Assumptions C09_builder_of_printed.

(* the printed sequence has the journal's reports (no condition on the price declarations) *)
Theorem C09_printed_same_reports : forall ss b,
  sd_syntactic ss -> load ss = COk b ->
  (forall cfg, ceq eq (balance_csv cfg ss) (balance_csv cfg (printed_dirs (b_days b)))) /\
  (forall cfg tc, ceq eq (balance_text cfg tc ss) (balance_text cfg tc (printed_dirs (b_days b)))).
Proof. exact reports_printed_dirs_direct. Qed.
Print Assumptions C09_printed_same_reports.

Theorem C09_sort_idem : forall days, sort_days (sort_days days) = sort_days days.
Proof. exact sort_days_idem. Qed.
Print Assumptions C09_sort_idem.

(* ------------------------------------------------------------------ layer 0 *)

(* The pinned printer violates the property: there is a journal, accepted under either reading of
   Checker.balance, whose printed form the parser rejects.  The witness is the journal of
   findings/C09-multi-assertion.md: a multi-balance assertion followed by another assertion of the
   same day. *)
Theorem C09_multi_assertion_refuted :
  exists ds text, accepted true ds /\ accepted false ds /\ printed (print_cmd_pinned true) ds text /\
                  printed (print_cmd_pinned false) ds text /\ reparse text = MErr e_syntax.
Proof. exact multi_assertion_refuted. Qed.
Print Assumptions C09_multi_assertion_refuted.

(* The repaired printer on the same journal: the output is read back, accepted, and printing it
   again reproduces it byte for byte. *)
Theorem C09_multi_assertion_fixed :
  printed (print_cmd true) w_journal w_text_fixed /\
  normal_form_b (print_cmd true) w_text_fixed = true.
Proof. exact multi_assertion_fixed_ok. Qed.
Print Assumptions C09_multi_assertion_fixed.

(* Example (hypotheses are satisfiable; the whole loop runs inside Coq): a journal with a Unicode
   account name, a two-line description, an accrual, two performance targets and an empty target
   list, a negative amount, trailing zeros, a multi-balance assertion followed by another assertion,
   a close.  Accepted; the repaired printer's output is a normal form with the same monthly report;
   the pinned printer's output is not. *)
Theorem C09_example :
  accepted true x_journal /\ printed (print_cmd true) x_journal x_text /\
  normal_form_b (print_cmd true) x_text = true /\
  same_report_b x_cfg x_journal x_text = true /\
  normal_form_b (print_cmd_pinned true) (text_of (print_cmd_pinned true x_journal)) = false.
Proof. exact example_roundtrip. Qed.
Print Assumptions C09_example.

(* ------------------------------------------------------------------ layer 1 *)

(* Transactions.  [stxn_of_txn t] is what the printer writes for t, as a syntax-level transaction:
   date, description, one booking "Other Account Quantity Commodity" per second posting, the
   @performance targets, no @accrue.  Every transaction that transaction.Create returns -- with or
   without accrual expansion, negative and zero quantities included -- is reproduced exactly by
   creating a transaction from that. *)
Theorem C09_txn_denoted : forall s ts t,
  txn_create s = MOk ts -> In t ts -> txn_create (stxn_of_txn t) = MOk [t].
Proof. exact txn_print_denotes. Qed.
Print Assumptions C09_txn_denoted.

(* All directive kinds (opens, closes, prices, single- and multi-balance assertions, transactions) *)
Theorem C09_directive_denoted : forall s ds d,
  parse_directive s = MOk ds -> In d ds -> parse_directive (sdir_of_dir d) = MOk [d].
Proof. exact directive_print_denotes. Qed.
Print Assumptions C09_directive_denoted.

(* Leaves, through ToModel: a range whose bytes are what the printer wrote for a date / an account /
   a decimal is converted back to that date / account / a decimal of the same value. *)
Theorem C09_date_roundtrip : forall t r d,
  ext t r = format_date d -> 0 <= year_of d <= 9999 -> get_date t r = MOk d.
Proof. exact get_date_printed. Qed.
Print Assumptions C09_date_roundtrip.

Theorem C09_account_roundtrip : forall t a x,
  ext t (SynM.acc_range a) = acc_name x -> x <> [] -> Forall seg_ok x -> valid_account x = true ->
  get_account t a = MOk x.
Proof. exact get_account_printed. Qed.
Print Assumptions C09_account_roundtrip.

Theorem C09_decimal_roundtrip : forall t r q,
  ext t r = to_string q -> exists x, get_dec t r = MOk x /\ dec_eqv x q.
Proof. exact get_dec_printed. Qed.
Print Assumptions C09_decimal_roundtrip.

(* ------------------------------------------------------------------ layers 3 and 4, model level *)

(* [denote ss]: the syntax-level directives of the model directives of ss, in order.  (The printed
   text denotes a regrouping of this list by day and kind with quantities re-read from their decimal
   text: C09_reparse_printed, C09_printed_is_permutation above.) *)

(* the denoted journal is accepted if the journal is *)
Theorem C09_denote_accepted : forall l ss,
  accepted l ss -> accepted l (denote ss).
Proof. exact accepted_denote. Qed.
Print Assumptions C09_denote_accepted.

(* printing the denoted journal gives the same bytes (both printers) *)
Theorem C09_denote_printed : forall l ss text,
  (printed (print_cmd_pinned l) ss text -> printed (print_cmd_pinned l) (denote ss) text) /\
  (printed (print_cmd l) ss text -> printed (print_cmd l) (denote ss) text).
Proof. exact printed_denote. Qed.
Print Assumptions C09_denote_printed.

(* every balance report of the denoted journal is byte-identical *)
Theorem C09_denote_same_reports : forall l ss,
  accepted l ss ->
  (forall cfg, balance_csv cfg (denote ss) = balance_csv cfg ss) /\
  (forall cfg tc, balance_text cfg tc (denote ss) = balance_text cfg tc ss).
Proof. exact reports_denote. Qed.
Print Assumptions C09_denote_same_reports.

Theorem C09_denote_idem : forall l ss, accepted l ss -> denote (denote ss) = denote ss.
Proof. exact denote_idem_accepted. Qed.
Print Assumptions C09_denote_idem.

(* ------------------------------------------------------------------ the defect, exactly *)

(* The pinned and the repaired print command write the same bytes for every journal in which no
   multi-balance assertion is followed by another assertion of the same day: the repair changes
   nothing else, and whatever holds of the repaired printer holds of the pinned one there. *)
Theorem C09_printers_agree : forall l ds b,
  load ds = COk b -> no_multi_then_more (b_days b) -> print_cmd l ds = print_cmd_pinned l ds.
Proof. exact print_cmd_fixed_same. Qed.
Print Assumptions C09_printers_agree.

(* print checks first: what was printed had been accepted *)
Theorem C09_printed_accepted : forall l ds text,
  (printed (print_cmd_pinned l) ds text -> accepted l ds) /\
  (printed (print_cmd l) ds text -> accepted l ds).
Proof. exact printed_accepted_both. Qed.
Print Assumptions C09_printed_accepted.
