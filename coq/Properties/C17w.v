(* C17, second part: the text table of `knut portfolio weights`.
   (The property C17 speaks of the balance report -- Properties/C17.v.  `portfolio weights`
   renders its report through the same table package, with its own cell kind; this file says
   what is true of that rendering.  Nothing here is a violation of C17.)
   Theorem statements only; each is closed by [exact <lemma>] and followed by Print Assumptions.
   Vocabulary: Spec/TableSpec.v (rect_b, cell_indent_ok, cell_no_nl), Spec/WeightsTableSpec.v
   (pcell_fits_b, wtable_fits_b, wtable_wf, frow_ok, frow_fits, frow_unit), Spec/BeancountLex.v
   (date_lex_b: years 0..9999).
   Model: Model/F64.v (float64 value, n * 100, "%.pf"), Model/WeightsTable.v (percent cell,
   TextRenderer over such cells, weights.Renderer, the command).

   What the Go code does (lib/common/table/renderer.go): the width reserved for a percent cell
   of value n is that of Sprintf("%.2f%%", n); what is written is Fprintf("%*.*f%%", l-1,
   Round, n*100) inside a switch n < 0 / n > 0 / n == 0.  Hence
     - a NaN (the group row over a +Inf and a -Inf weight of a date whose total is zero) is
       written as nothing at all, not even padding:            C17_weights_nan_refuted
     - at --digits 6 "100.000000%" has 11 runes, the date column 10:  C17_weights_digits6_refuted
     - a negative --digits makes fmt write "%!(BADPREC)":      C17_weights_negative_digits_refuted
   and the table is rectangular exactly as far as every cell fills its column:
     C17_weights_table_rect, C17_weights_rect, C17_weights_rect_unit. *)
From Coq Require Import ZArith List Bool.
From Knut Require Import Model.Str Model.Dec Model.Table Model.Report Model.F64 Model.WeightsTable
     Spec.TableSpec Spec.WeightsTableSpec Spec.BeancountLex
     Proofs.WeightsTableProofs Proofs.F64Proofs.
Import ListNotations.
Open Scope Z_scope.

(* ------------------------------------------------------------------ one cell *)
(* a cell is rendered to exactly l runes when l is at least its minimal length and the cell
   fits: always for text / empty / separator cells; for a percent cell iff --digits is in 0..1e6 and
   the numeral of n * 100 with its percent sign has at most l runes; for a NaN iff l = 0 *)
Theorem C17_weights_cell_width : forall round c l,
  pcell_indent_ok c -> wmin_length round c <= l -> pcell_fits_b round c l = true ->
  rune_count (wrender_cell round c l) = l.
Proof. exact wrender_cell_width. Qed.
Print Assumptions C17_weights_cell_width.

(* ... and to another number of runes when it does not fit *)
Theorem C17_weights_cell_misfit : forall round n l,
  0 <= l -> pcell_fits_b round (WPct n) l = false -> rune_count (wrender_cell round (WPct n) l) <> l.
Proof. exact wrender_cell_misfit. Qed.
Print Assumptions C17_weights_cell_misfit.

(* ------------------------------------------------------------------ tables with percent cells *)
(* every full-row table over text / empty / separator / percent cells all of whose cells fit
   their column's final width is rendered rectangular, for every --digits *)
Theorem C17_weights_table_rect : forall round t,
  wtable_wf t -> wtable_fits_b round t = true -> rect_b (wt_width t) (wrender_text round t) = true.
Proof. exact wrender_text_rect. Qed.
Print Assumptions C17_weights_table_rect.

(* the final widths: one per column, at least the minimal length of every cell of the column *)
Theorem C17_weights_col_widths_ge : forall round t,
  wrows_full t ->
  length (w_final_widths round t) = wt_width t /\
  Forall (fun r => Forall2 (fun c w => wmin_length round c <= w) r (w_final_widths round t)) (wt_rows t).
Proof. exact w_col_widths_ge. Qed.
Print Assumptions C17_weights_col_widths_ge.

(* on a table without percent cells this renderer is the renderer of Model/Table.v, about
   which Properties/C17.v speaks *)
Theorem C17_weights_extends_table : forall round t,
  wrender_text round (wtable_of_table t) = render_text (mkTextCfg false round) t.
Proof. exact wrender_text_base. Qed.
Print Assumptions C17_weights_extends_table.

(* ------------------------------------------------------------------ the weights report *)
(* weights.Renderer builds full rows; with dates of the years 0..9999, non-negative indents
   and labels without line break the table is well formed *)
Theorem C17_weights_wf : forall dates rows,
  Forall (fun d => date_lex_b d = true) dates ->
  Forall (frow_ok (length dates)) rows ->
  wtable_wf (weights_wtable dates rows) /\ wt_width (weights_wtable dates rows) = S (length dates).
Proof. intros dates rows Hd Hr. split; [exact (weights_wtable_wf dates rows Hd Hr)|exact (weights_wtable_width dates rows)]. Qed.
Print Assumptions C17_weights_wf.

(* The report is rectangular whenever every weight is printed in at most ten runes (the width
   of a date): for every --digits, every list of dates, every list of rows. *)
Theorem C17_weights_rect : forall round dates rows,
  Forall (fun d => date_lex_b d = true) dates ->
  Forall (frow_ok (length dates)) rows ->
  Forall (frow_fits round 10) rows ->
  rect_b (S (length dates)) (weights_text round dates rows) = true.
Proof. exact weights_text_rect. Qed.
Print Assumptions C17_weights_rect.

(* "every weight is a number": the statement one would like -- rectangular for every report in
   which every weight is a number -- is false (C17_weights_digits6_refuted: the weight 1 at
   --digits 6).  What holds: every weight a float64 in [0, 1] (a portfolio without short
   positions) and --digits in 0..5.  "100.00000%" has ten runes. *)
Theorem C17_weights_rect_unit : forall round dates rows,
  0 <= round <= 5 ->
  Forall (fun d => date_lex_b d = true) dates ->
  Forall (frow_ok (length dates)) rows ->
  Forall frow_unit rows ->
  rect_b (S (length dates)) (weights_text round dates rows) = true.
Proof. exact weights_text_rect_unit. Qed.
Print Assumptions C17_weights_rect_unit.

(* the numeral of a weight in [0, 1]: at most p + 4 runes at p places *)
Theorem C17_weights_unit_len : forall round n,
  0 <= round <= 1000000 -> f64_in_unit n -> pct_len round n <= round + 5.
Proof. exact pct_len_unit. Qed.
Print Assumptions C17_weights_unit_len.

(* ------------------------------------------------------------------ where it is not rectangular *)
Definition d_2021_01_02 : Z := 737791.
Definition s_Other : str := [79;116;104;101;114].
Definition s_CHF : str := [67;72;70].
Definition s_USD : str := [85;83;68].
Definition f_one : f64 := FFin false 1 0.

(* 100 CHF in an asset account, 100 USD of debt at a price of 1 CHF: the total is zero, the
   weights are +Inf and -Inf, their group "Other" is NaN (findings/C17-weights-nan-cell.md) *)
Definition nan_rows : list frow :=
  [(0, s_Other, [Some FNaN]); (2, s_CHF, [Some (FInf false)]); (2, s_USD, [Some (FInf true)])].

Example C17_weights_nan_text :
  weights_text 0 [d_2021_01_02] nan_rows =
  (* +-----------+------------+
     | Commodity | 2021-01-02 |
     +-----------+------------+
     | Other     |  |                  <- the NaN cell: nothing, not even padding
     |   CHF     |      +Inf% |
     |   USD     |      -Inf% |
     +-----------+------------+        byte for byte what the binary prints *)
  [43;45;45;45;45;45;45;45;45;45;45;45;43;45;45;45;45;45;45;45;45;45;45;45;45;43;10;
   124;32;67;111;109;109;111;100;105;116;121;32;124;32;50;48;50;49;45;48;49;45;48;50;32;124;10;
   43;45;45;45;45;45;45;45;45;45;45;45;43;45;45;45;45;45;45;45;45;45;45;45;45;43;10;
   124;32;79;116;104;101;114;32;32;32;32;32;124;32;32;124;10;
   124;32;32;32;67;72;70;32;32;32;32;32;124;32;32;32;32;32;32;43;73;110;102;37;32;124;10;
   124;32;32;32;85;83;68;32;32;32;32;32;124;32;32;32;32;32;32;45;73;110;102;37;32;124;10;
   43;45;45;45;45;45;45;45;45;45;45;45;43;45;45;45;45;45;45;45;45;45;45;45;45;43;10;10].
Proof. vm_compute. reflexivity. Qed.

(* a zero-total date column gives a table that is not rectangular *)
Theorem C17_weights_nan_refuted : exists round dates rows,
  Forall (fun d => date_lex_b d = true) dates /\
  Forall (frow_ok (length dates)) rows /\
  rect_b (S (length dates)) (weights_text round dates rows) = false.
Proof.
  exists 0, [d_2021_01_02], nan_rows. split; [repeat constructor|]. split.
  - repeat constructor; try (vm_compute; discriminate);
      intros H; cbn in H; repeat destruct H as [H|H]; try discriminate H; exact H.
  - vm_compute. reflexivity.
Qed.
Print Assumptions C17_weights_nan_refuted.

(* every weight is a number -- the single weight 1 -- and the table is not rectangular:
   --digits 6 *)
Theorem C17_weights_digits6_refuted : exists dates rows,
  Forall (fun d => date_lex_b d = true) dates /\
  Forall (frow_ok (length dates)) rows /\
  Forall frow_unit rows /\
  rect_b (S (length dates)) (weights_text 6 dates rows) = false.
Proof.
  exists [d_2021_01_02], [(0, s_Other, [Some f_one]); (2, s_CHF, [Some f_one])].
  split; [repeat constructor|]. split; [|split].
  - repeat constructor; try (vm_compute; discriminate);
      intros H; cbn in H; repeat destruct H as [H|H]; try discriminate H; exact H.
  - repeat constructor; vm_compute; discriminate.
  - vm_compute. reflexivity.
Qed.
Print Assumptions C17_weights_digits6_refuted.

(* a negative --digits: "%!(BADPREC)" in front of every percentage *)
Theorem C17_weights_negative_digits_refuted : exists dates rows,
  Forall (fun d => date_lex_b d = true) dates /\
  Forall (frow_ok (length dates)) rows /\
  Forall frow_unit rows /\
  rect_b (S (length dates)) (weights_text (-1) dates rows) = false.
Proof.
  exists [d_2021_01_02], [(0, s_Other, [Some f_one]); (2, s_CHF, [Some f_one])].
  split; [repeat constructor|]. split; [|split].
  - repeat constructor; try (vm_compute; discriminate);
      intros H; cbn in H; repeat destruct H as [H|H]; try discriminate H; exact H.
  - repeat constructor; vm_compute; discriminate.
  - vm_compute. reflexivity.
Qed.
Print Assumptions C17_weights_negative_digits_refuted.

(* ------------------------------------------------------------------ the hypotheses are satisfiable *)
Definition ex_rows : list frow :=
  [(0, s_Other, [Some f_one; Some f_one]);
   (2, s_CHF, [Some (FFin false 1 (-3)); None]);                       (* 0.125: "12%" at 0 digits, ties to even *)
   (2, s_USD, [Some (FFin false 7 (-3)); Some f_one])].

Example C17_weights_example_hyps :
  Forall (fun d => date_lex_b d = true) [d_2021_01_02; d_2021_01_02 + 7] /\
  Forall (frow_ok 2) ex_rows /\ Forall frow_unit ex_rows /\ Forall (frow_fits 2 10) ex_rows.
Proof.
  split; [repeat constructor|]. split; [|split].
  - repeat constructor; try (vm_compute; discriminate);
      intros H; cbn in H; repeat destruct H as [H|H]; try discriminate H; exact H.
  - repeat constructor; vm_compute; discriminate.
  - repeat constructor.
Qed.

Example C17_weights_example_text :
  weights_text 0 [d_2021_01_02; d_2021_01_02 + 7] ex_rows =
  (* +-----------+------------+------------+
     | Commodity | 2021-01-02 | 2021-01-09 |
     +-----------+------------+------------+
     | Other     |       100% |       100% |
     |   CHF     |        12% |            |
     |   USD     |        88% |       100% |
     +-----------+------------+------------+ *)
  [43;45;45;45;45;45;45;45;45;45;45;45;43;45;45;45;45;45;45;45;45;45;45;45;45;43;45;45;45;45;45;45;45;45;45;45;45;45;43;10;
   124;32;67;111;109;109;111;100;105;116;121;32;124;32;50;48;50;49;45;48;49;45;48;50;32;124;32;50;48;50;49;45;48;49;45;48;57;32;124;10;
   43;45;45;45;45;45;45;45;45;45;45;45;43;45;45;45;45;45;45;45;45;45;45;45;45;43;45;45;45;45;45;45;45;45;45;45;45;45;43;10;
   124;32;79;116;104;101;114;32;32;32;32;32;124;32;32;32;32;32;32;32;49;48;48;37;32;124;32;32;32;32;32;32;32;49;48;48;37;32;124;10;
   124;32;32;32;67;72;70;32;32;32;32;32;124;32;32;32;32;32;32;32;32;49;50;37;32;124;32;32;32;32;32;32;32;32;32;32;32;32;124;10;
   124;32;32;32;85;83;68;32;32;32;32;32;124;32;32;32;32;32;32;32;32;56;56;37;32;124;32;32;32;32;32;32;32;49;48;48;37;32;124;10;
   43;45;45;45;45;45;45;45;45;45;45;45;43;45;45;45;45;45;45;45;45;45;45;45;45;43;45;45;45;45;45;45;45;45;45;45;45;45;43;10;10].
Proof. vm_compute. reflexivity. Qed.

Example C17_weights_example_rect :
  rect_b 3 (weights_text 2 [d_2021_01_02; d_2021_01_02 + 7] ex_rows) = true.
Proof. vm_compute. reflexivity. Qed.
