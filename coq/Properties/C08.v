(* C08  format preserves meaning and comments and is idempotent.
   Theorem statements only.  Model: Model/SynPrinter.v ([format_text letter digit t f] is
   syntax.FormatFile on the file f parsed from the bytes t; [format_cmd] is `knut format` on
   one file), Model/Parser.v.  Vocabulary: Spec/FormatSpec.v ([sem]: per directive the kind
   and the strings of date, accounts, quantities, commodities, description, annotations;
   [gaps]: the text before, between and after the directives).

   THE ROUND TRIP IS PROVED AT FULL STRENGTH for every byte list and every directive kind
   (C08_roundtrip), by the context-lemma method of DESIGN.md Appendix B.3
   (Proofs/RoundTrip*.v): every leaf of a parsed tree is in its lexical class (inversion),
   the formatter copies leaf bytes and gaps verbatim and puts a blank, a newline, ',' or ')'
   behind every token, and in front of such text every parser function succeeds, consumes
   exactly the printed text and yields ranges whose slices are the printed leaves
   (construction); parseFile's loop over a gap consumes exactly the gap.

   The statement as first written in DESIGN.md,

     forall letter digit t f out,
       parse_text letter digit t = ParseOk f -> format_text letter digit t f = FOk out ->
       exists f', parse_text letter digit out = ParseOk f' /\
                  sem out f' = sem t f /\ gaps out f' = gaps t f,

   quantifies over EVERY classification of letters and digits and is FALSE in that
   generality (C08_roundtrip_unrestricted_refuted: if the blank counts as a letter, the
   formatter's "X 1 Y" is one commodity).  The theorem therefore carries the hypothesis
   [class_ok letter digit]: tab, newline, CR, blank, ')' ',' '#' '*' '/' are neither letters nor
   digits and 'i' is alphanumeric.  It holds of Go's unicode.IsLetter / unicode.IsDigit
   (C08_class_ok_unicode), so for the real parser the round trip (C08_roundtrip_unicode) and
   idempotence (C08_idem_unicode) hold without any hypothesis.  The other statements hold for
   every classification.                                                                    *)
From Coq Require Import String ZArith List Bool.
From Knut Require Import Model.Bytes Model.Utf8 Model.UnicodeTables Model.Scanner Model.Parser
  Model.SynPrinter Spec.SyntaxSpec Proofs.ScannerProofs Proofs.ParserProofs Spec.FormatSpec Model.SynRender
  Proofs.FormatProofs Proofs.RoundTripLeaf Proofs.RoundTripFile Proofs.RoundTripTop.
Import ListNotations.
Open Scope Z_scope.

(* ---- the round trip ---- *)

(* parsing the formatted text yields the same meaning and the same gaps *)
Theorem C08_roundtrip : forall letter digit t f out,
  class_ok letter digit ->
  parse_text letter digit t = ParseOk f -> format_text letter digit t f = FOk out ->
  exists f', parse_text letter digit out = ParseOk f' /\
             sem out f' = sem t f /\ gaps out f' = gaps t f.
Proof. exact roundtrip. Qed.
Print Assumptions C08_roundtrip.

(* Go's classification (unicode.IsLetter, unicode.IsDigit) satisfies the hypothesis *)
Theorem C08_class_ok_unicode : class_ok is_letter is_digit.
Proof. exact unicode_class_ok. Qed.
Print Assumptions C08_class_ok_unicode.

Theorem C08_roundtrip_unicode : forall t f out,
  parse_text is_letter is_digit t = ParseOk f -> format_text is_letter is_digit t f = FOk out ->
  exists f', parse_text is_letter is_digit out = ParseOk f' /\
             sem out f' = sem t f /\ gaps out f' = gaps t f.
Proof. exact roundtrip_unicode. Qed.
Print Assumptions C08_roundtrip_unicode.

(* without the hypothesis on the classification the statement is false *)
Theorem C08_roundtrip_unrestricted_refuted :
  exists letter digit t f out,
    parse_text letter digit t = ParseOk f /\ format_text letter digit t f = FOk out /\
    ~ exists f', parse_text letter digit out = ParseOk f' /\ sem out f' = sem t f /\ gaps out f' = gaps t f.
Proof. exact roundtrip_unrestricted_refuted. Qed.
Print Assumptions C08_roundtrip_unrestricted_refuted.

(* idempotence: the formatted text parses, and formatting it again changes nothing *)
Theorem C08_idem : forall letter digit t f out,
  class_ok letter digit ->
  parse_text letter digit t = ParseOk f -> format_text letter digit t f = FOk out ->
  exists f', parse_text letter digit out = ParseOk f' /\ format_text letter digit out f' = FOk out.
Proof. exact idem. Qed.
Print Assumptions C08_idem.

Theorem C08_idem_unicode : forall t f out,
  parse_text is_letter is_digit t = ParseOk f -> format_text is_letter is_digit t f = FOk out ->
  exists f', parse_text is_letter is_digit out = ParseOk f' /\ format_text is_letter is_digit out f' = FOk out.
Proof. exact idem_unicode. Qed.
Print Assumptions C08_idem_unicode.

(* the command: `knut format` on a file it has rewritten rewrites it to the same bytes *)
Theorem C08_cmd_idem : forall letter digit t n,
  class_ok letter digit -> format_cmd letter digit t = Rewritten n -> format_cmd letter digit n = Rewritten n.
Proof. exact format_cmd_idem. Qed.
Print Assumptions C08_cmd_idem.

(* ---- around it ---- *)

(* A file that does not parse is left exactly as it was (the command does not write). *)
Theorem C08_unparseable : forall letter digit t e,
  parse_text letter digit t = ParseErr e ->
  format_cmd letter digit t = Untouched /\ file_after t (format_cmd letter digit t) = Some t.
Proof. exact format_cmd_unparseable. Qed.
Print Assumptions C08_unparseable.

(* The command neither panics (slice bounds in Format) nor fails on a parsed file: it either
   rewrites the file with the formatted text of its parse, or the file did not parse. *)
Theorem C08_cmd_total : forall letter digit t,
  match format_cmd letter digit t with
  | Rewritten n => exists f, parse_text letter digit t = ParseOk f /\ format_text letter digit t f = FOk n
  | Untouched => exists e, parse_text letter digit t = ParseErr e
  | CmdPanic | CmdOutOfFuel => False
  end.
Proof. exact format_cmd_total. Qed.
Print Assumptions C08_cmd_total.

Theorem C08_no_panic : forall letter digit t f,
  parse_text letter digit t = ParseOk f -> exists out, format_text letter digit t f = FOk out.
Proof. exact format_parsed. Qed.
Print Assumptions C08_no_panic.

(* All text between directives is kept byte for byte, and nothing else of the input text
   survives except through the meaning: the output is the gaps interleaved with directives
   rendered from their meaning alone, with the padding computed from the meaning alone. *)
Theorem C08_format_shape : forall letter digit t f out,
  format_text letter digit t f = FOk out ->
  render Utf8M.decode (sem t f) (gaps t f) = Some out.
Proof. exact format_text_render. Qed.
Print Assumptions C08_format_shape.

Theorem C08_format_determined : forall letter digit t1 f1 t2 f2 o1 o2,
  format_text letter digit t1 f1 = FOk o1 -> format_text letter digit t2 f2 = FOk o2 ->
  sem t1 f1 = sem t2 f2 -> gaps t1 f1 = gaps t2 f2 -> o1 = o2.
Proof. exact format_determined. Qed.
Print Assumptions C08_format_determined.

(* Idempotence is a consequence of the round trip: whenever the formatted text parses to the
   same meaning and gaps, formatting it again changes nothing (for every classification;
   C08_idem = this composed with C08_roundtrip). *)
Theorem C08_idem_of_roundtrip : forall letter digit t f o f',
  parse_text letter digit t = ParseOk f -> format_text letter digit t f = FOk o ->
  parse_text letter digit o = ParseOk f' -> sem o f' = sem t f -> gaps o f' = gaps t f ->
  format_text letter digit o f' = FOk o.
Proof. exact idem_of_roundtrip. Qed.
Print Assumptions C08_idem_of_roundtrip.

(* files that consist of comments, headings and blank lines only are left as they are
   (every classification) *)
Theorem C08_no_directives_unchanged : forall letter digit t f,
  parse_text letter digit t = ParseOk f -> f_directives f = [] ->
  format_text letter digit t f = FOk t.
Proof. exact format_no_directives. Qed.
Print Assumptions C08_no_directives_unchanged.

(* the round trip and idempotence for texts that are already in formatted form *)
Theorem C08_roundtrip_on_formatted : forall letter digit t f,
  parse_text letter digit t = ParseOk f -> format_text letter digit t f = FOk t ->
  exists f', parse_text letter digit t = ParseOk f' /\ sem t f' = sem t f /\ gaps t f' = gaps t f /\
             format_text letter digit t f' = FOk t.
Proof. exact roundtrip_on_formatted. Qed.
Print Assumptions C08_roundtrip_on_formatted.

(* ---- examples ---- *)

Definition ex_src : str := Eval vm_compute in
  runes_of_string "* heading
2020-01-01   open	A:B
@performance( X ,Y )
@accrue monthly 2020-01-01 2020-12-31 A:B
2020-01-02 ""d""
A:B Long:Account:Name   1.5 X
$m   A:B -2 Y
  
# note
2020-01-03 balance
A:B 1 X

"%string.

(* the full round trip and idempotence on an example with every layout feature *)
Example C08_example_roundtrip :
  exists f out f',
    parse_text is_letter is_digit ex_src = ParseOk f /\
    format_text is_letter is_digit ex_src f = FOk out /\ out <> ex_src /\
    parse_text is_letter is_digit out = ParseOk f' /\
    same_sem_gaps_b ex_src f out f' = true /\
    format_text is_letter is_digit out f' = FOk out.
Proof.
  do 3 eexists. split; [vm_compute; reflexivity|]. split; [vm_compute; reflexivity|].
  split; [discriminate|]. split; [vm_compute; reflexivity|]. split; vm_compute; reflexivity.
Qed.

Example C08_example_unparseable :
  format_cmd is_letter is_digit (runes_of_string "2020-01-01 open"%string) = Untouched.
Proof. vm_compute. reflexivity. Qed.
