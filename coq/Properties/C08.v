(* C08  format preserves meaning and comments and is idempotent.
   Theorem statements only.  Model: Model/SynPrinter.v ([format_text letter digit t f] is
   syntax.FormatFile on the file f parsed from the bytes t; [format_cmd] is `knut format` on
   one file), Model/Parser.v.  Vocabulary: Spec/FormatSpec.v ([sem]: per directive the kind
   and the strings of date, accounts, quantities, commodities, description, annotations;
   [gaps]: the text before, between and after the directives).
   All statements hold for every byte list and every letter/digit classification.

   FULL STATEMENT of the round trip (NOT proved in general; evaluated on every generated case
   by the check, with the Go parser on the Go formatter's output):

     C08_roundtrip : forall letter digit t f out,
       parse_text letter digit t = ParseOk f -> format_text letter digit t f = FOk out ->
       exists f', parse_text letter digit out = ParseOk f' /\
                  sem out f' = sem t f /\ gaps out f' = gaps t f.

   What is proved: everything around it (totality, shape, determinacy by meaning and gaps,
   idempotence GIVEN the round trip, the unparseable case), and the round trip for files
   without directives (C08_roundtrip_partial).                                              *)
From Coq Require Import String ZArith List Bool.
From Knut Require Import Model.Bytes Model.Utf8 Model.UnicodeTables Model.Scanner Model.Parser
  Model.SynPrinter Spec.SyntaxSpec Proofs.ScannerProofs Proofs.ParserProofs Spec.FormatSpec Model.SynRender
  Proofs.FormatProofs.
Import ListNotations.
Open Scope Z_scope.

(* A file that does not parse is left exactly as it was (the command does not write). *)
Theorem C08_unparseable : forall letter digit t e,
  parse_text letter digit t = ParseErr e ->
  format_cmd letter digit t = Untouched /\ file_after t (format_cmd letter digit t) = Some t.
Proof. exact format_cmd_unparseable. Qed.
Print Assumptions C08_unparseable.

(* The command neither panics (slice bounds in Format) nor fails on a parsed file: it either
   rewrites the file with the formatted text of its parse, or the file did not parse. *)
Theorem C08_cmd_total : forall letter digit t,
  match format_cmd letter digit t with
  | Rewritten n => exists f, parse_text letter digit t = ParseOk f /\ format_text letter digit t f = FOk n
  | Untouched => exists e, parse_text letter digit t = ParseErr e
  | CmdPanic | CmdOutOfFuel => False
  end.
Proof. exact format_cmd_total. Qed.
Print Assumptions C08_cmd_total.

Theorem C08_no_panic : forall letter digit t f,
  parse_text letter digit t = ParseOk f -> exists out, format_text letter digit t f = FOk out.
Proof. exact format_parsed. Qed.
Print Assumptions C08_no_panic.

(* All text between directives is kept byte for byte, and nothing else of the input text
   survives except through the meaning: the output is the gaps interleaved with directives
   rendered from their meaning alone, with the padding computed from the meaning alone. *)
Theorem C08_format_shape : forall letter digit t f out,
  format_text letter digit t f = FOk out ->
  render Utf8M.decode (sem t f) (gaps t f) = Some out.
Proof. exact format_text_render. Qed.
Print Assumptions C08_format_shape.

Theorem C08_format_determined : forall letter digit t1 f1 t2 f2 o1 o2,
  format_text letter digit t1 f1 = FOk o1 -> format_text letter digit t2 f2 = FOk o2 ->
  sem t1 f1 = sem t2 f2 -> gaps t1 f1 = gaps t2 f2 -> o1 = o2.
Proof. exact format_determined. Qed.
Print Assumptions C08_format_determined.

(* Idempotence is a consequence of the round trip: whenever the formatted text parses to the
   same meaning and gaps, formatting it again changes nothing.
   (C08_idem in full = this composed with C08_roundtrip.) *)
Theorem C08_idem_of_roundtrip : forall letter digit t f o f',
  parse_text letter digit t = ParseOk f -> format_text letter digit t f = FOk o ->
  parse_text letter digit o = ParseOk f' -> sem o f' = sem t f -> gaps o f' = gaps t f ->
  format_text letter digit o f' = FOk o.
Proof. exact idem_of_roundtrip. Qed.
Print Assumptions C08_idem_of_roundtrip.

(* the round trip for files that consist of comments, headings and blank lines only *)
Theorem C08_roundtrip_partial : forall letter digit t f,
  parse_text letter digit t = ParseOk f -> f_directives f = [] ->
  format_text letter digit t f = FOk t.
Proof. exact format_no_directives. Qed.
Print Assumptions C08_roundtrip_partial.

(* the round trip and idempotence for texts that are already in formatted form *)
Theorem C08_roundtrip_on_formatted : forall letter digit t f,
  parse_text letter digit t = ParseOk f -> format_text letter digit t f = FOk t ->
  exists f', parse_text letter digit t = ParseOk f' /\ sem t f' = sem t f /\ gaps t f' = gaps t f /\
             format_text letter digit t f' = FOk t.
Proof. exact roundtrip_on_formatted. Qed.
Print Assumptions C08_roundtrip_on_formatted.

(* ---- examples ---- *)

Definition ex_src : str := Eval vm_compute in
  runes_of_string "* heading
2020-01-01   open	A:B
@performance( X ,Y )
@accrue monthly 2020-01-01 2020-12-31 A:B
2020-01-02 ""d""
A:B Long:Account:Name   1.5 X
$m   A:B -2 Y
  
# note
2020-01-03 balance
A:B 1 X

"%string.

(* the full round trip and idempotence on an example with every layout feature *)
Example C08_example_roundtrip :
  exists f out f',
    parse_text is_letter is_digit ex_src = ParseOk f /\
    format_text is_letter is_digit ex_src f = FOk out /\ out <> ex_src /\
    parse_text is_letter is_digit out = ParseOk f' /\
    same_sem_gaps_b ex_src f out f' = true /\
    format_text is_letter is_digit out f' = FOk out.
Proof.
  do 3 eexists. split; [vm_compute; reflexivity|]. split; [vm_compute; reflexivity|].
  split; [discriminate|]. split; [vm_compute; reflexivity|]. split; vm_compute; reflexivity.
Qed.

Example C08_example_unparseable :
  format_cmd is_letter is_digit (runes_of_string "2020-01-01 open"%string) = Untouched.
Proof. vm_compute. reflexivity. Qed.
