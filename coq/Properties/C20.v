(* C20  Portfolio analytics agree with the valued balance.
   Theorem statements only.  Model: Model/Perf.v (ComputeValues, ComputeFlows, Performance,
   Perf), Model/Weights.v (Universe.Locate, Query.Execute, Report.Add, PropagateWeights,
   renderer), Model/CliPortfolio.v (the two commands; returns.go in the pinned and in the
   repaired wiring).  Vocabulary: Spec/PortfolioSpec.v.

   FLOAT ROUNDING IS NOT MODELLED.  Where the Go code computes in float64 the model computes
   in exact rationals (Q); a division by zero (Go: Inf/NaN) is [None].  All equations below
   are equalities of rationals (==).  The tie to the float64 code is the correspondence check
   within tolerances (weights 1e-6, returns 0.1 percentage points). *)
From Coq Require Import ZArith QArith List Bool.
From Knut Require Import Model.Str Model.Dec Model.Date Model.Account Model.Ledger Model.Journal
     Model.Cli Model.Perf Model.Weights Model.CliPortfolio Spec.PortfolioSpec
     Spec.PortfolioMapSpec Spec.WellformedSpec
     Proofs.PortfolioDays Proofs.PortfolioReturns Proofs.PortfolioWeights Proofs.PortfolioWitness
     Proofs.PortfolioProofs Proofs.PortfolioTree Proofs.PortfolioMapping Proofs.PortfolioMapWitness
     Proofs.PortfolioTable Proofs.PortfolioTableLaw
     Proofs.PortfolioValuesFull Proofs.PortfolioFlowsFull Proofs.PortfolioQuietDays Proofs.PortfolioFullWitness.
Import ListNotations.
Open Scope Q_scope.

(* ---------------------------------------------------------------- weights *)

(* The value per commodity that `portfolio weights` uses for a day IS the valued balance of the
   portfolio accounts: for every list of (valued) days with strictly ascending dates (those
   the commands build, C20_command_days_ascending) and every day d in it, the record
   ComputeValues emits for d carries as V1 a map whose entry for commodity c equals
     [portfolio_value]: the sum of the values (written by the valuate_proc stage, the same
       stage `balance -v` books from) of the bookings
       - of ALL days up to and including d, i.e. from the journal's first day: a later --from
         does not cut this window (unlike `balance`, whose Filter stage drops earlier days),
       - on asset/liability accounts passing the account filter,
       - in c, if c passes the commodity filter (0 otherwise);
     [portfolio_value_by_account]: the same taken account by account -- the sum over the A/L
       accounts passing the filter of their valued positions (the cells of `balance -v`) -- for
       every list [accs] that names every account booked on exactly once ([covers]).
   [names_respected]: the filter cannot tell apart two accounts of the same name ([covers]
   identifies accounts by name, as account.Registry does); it holds of the command's filters
   whenever the accounts are syntactically valid (C20_names_respected), and, for any accounts,
   when equally named accounts have the same type (C20_names_respected_by_type). *)
Theorem C20_weights_match_balance : forall cfg pre d post vs,
  asc (map d_date (pre ++ d :: post)) ->
  day_values cfg (pre ++ d :: post) = COk vs ->
  exists v0 v1, nth_error (fst vs) (length pre) = Some (d_date d, (v0, v1)) /\
    forall c,
      pcv_get v1 c == portfolio_value (ca_acc (pf_calc cfg)) (ca_com (pf_calc cfg)) (pre ++ d :: post) c (d_date d) /\
      forall accs, covers accs (pre ++ d :: post) (d_date d) ->
        names_respected (ca_acc (pf_calc cfg)) accs (postings_upto (pre ++ d :: post) (d_date d)) ->
        pcv_get v1 c ==
        portfolio_value_by_account (ca_acc (pf_calc cfg)) (ca_com (pf_calc cfg)) accs (pre ++ d :: post) c (d_date d).
Proof. exact weights_match_balance_full. Qed.
Print Assumptions C20_weights_match_balance.

(* the days both commands hand to ComputeValues have strictly ascending dates *)
Theorem C20_command_days_ascending : forall cfg ds b dates days,
  load ds = COk b -> valued_days cfg (b_days (builder_touch b dates)) = COk days -> asc (map d_date days).
Proof. exact command_days_asc. Qed.
Print Assumptions C20_command_days_ascending.

Theorem C20_names_respected : forall cfg accs ps,
  Forall (fun a => account_ok a = true) accs -> Forall (fun p => account_ok (p_acc p) = true) ps ->
  names_respected (ca_acc (pf_calc cfg)) accs ps.
Proof. exact names_respected_ok. Qed.
Print Assumptions C20_names_respected.

Theorem C20_names_respected_by_type : forall cfg accs ps,
  (forall p a, In p ps -> In a accs -> acc_eqb (p_acc p) a = true -> is_AL a = is_AL (p_acc p)) ->
  names_respected (ca_acc (pf_calc cfg)) accs ps.
Proof. exact names_respected_filter. Qed.
Print Assumptions C20_names_respected_by_type.

(* the same record as the fold the code performs: V1 is the map of the decimals accumulated with
   Amounts.Add (entries that become zero are deleted) over the bookings up to and including d *)
Theorem C20_weights_value_record : forall cfg pre d post vs,
  day_values cfg (pre ++ d :: post) = COk vs ->
  exists v0, nth_error (fst vs) (length pre) =
             Some (d_date d, (v0, vals_pcv (fold_left (values_step (pf_calc cfg)) (flat_map day_postings (pre ++ [d])) []))).
Proof. exact weights_value_record. Qed.
Print Assumptions C20_weights_value_record.

(* V0 of every day is V1 of the day processed before it (the first V0 is empty) *)
Theorem C20_values_chain : forall c days, records_chain [] (cv_out (cv_run c cv_init days)).
Proof. exact cv_init_chain. Qed.
Print Assumptions C20_values_chain.

(* the weight of a commodity is value / total when the total is not zero, and is undefined
   (Go: Inf or NaN) exactly when the total is zero; every entry of a day is dated with the
   day and booked on the path Universe.Locate / the -m mapping give *)
Theorem C20_weight_def : forall v total,
  (forall q, qdiv v total = Some q -> ~ total == 0 /\ q == v / total) /\ (qdiv v total = None <-> total == 0).
Proof. exact weight_def. Qed.
Print Assumptions C20_weight_def.

Theorem C20_weight_entries : forall u m date total v1 es,
  day_entries u m date total v1 = WOk es ->
  map (fun e => (entry_date e, let '(_, _, w) := e in w)) es = map (fun kv => (date, qdiv (snd kv) total)) v1 /\
  Forall2 (fun e kv => map_path m (locate u (fst kv)) = Some (entry_path e)) es v1.
Proof. exact day_entries_def. Qed.
Print Assumptions C20_weight_entries.

(* for every tree (every universe, every mapping): after PropagateWeights the weight of a
   group is its own bookings (collapsed members, if any) plus the weights of its children,
   and it is the sum of everything booked in its subtree.  [nweight] reads a weight map by
   summing the date's entries; on maps with ascending dates that is the cell the renderer
   looks up (C20_weight_cell); Report.Add / PropagateWeights keep the dates ascending on
   every node of the report (C20_report_dates_ascending). *)
Theorem C20_group_sum : forall s lf w ch d,
  tdefined (WNode s lf w ch) ->
  nweight (propagate (WNode s lf w ch)) d == wsum w d + qsum (map (fun c => nweight (propagate c) d) ch) /\
  nweight (propagate (WNode s lf w ch)) d == ttotal (WNode s lf w ch) d.
Proof. intros s lf w ch d H. split; [apply propagate_local; exact H|apply propagate_spec; exact H]. Qed.
Print Assumptions C20_group_sum.

Theorem C20_weight_cell : forall m d, wm_asc m ->
  wsum m d == match wm_get m d with Some w => oq w | None => 0 end.
Proof. exact wsum_get. Qed.
Print Assumptions C20_weight_cell.

Theorem C20_report_dates_ascending : forall es p x,
  wn_find p (propagate (report_of es)) = Some x -> wm_asc (wn_weights x).
Proof. exact report_cells_asc. Qed.
Print Assumptions C20_report_dates_ascending.

(* the rows of the top level carry every entry of the date *)
Theorem C20_top_level_carries_all : forall es d,
  defined_entries es -> Forall (fun e => entry_path e <> []) es ->
  qsum (map (fun c => nweight c d) (wn_children (propagate (report_of es)))) ==
  qsum (map (fun e => if (entry_date e =? d)%Z then entry_w e else 0) es).
Proof. exact top_level_sum. Qed.
Print Assumptions C20_top_level_carries_all.

(* the top level sums to 100% on every date whose total is not zero (no entry is hidden by a
   level-0 mapping: all paths are non-empty) *)
Theorem C20_top_100 : forall u m date v1 day_es before after,
  day_entries u m date (pcv_sum v1) v1 = WOk day_es -> ~ pcv_sum v1 == 0 ->
  defined_entries before -> defined_entries after ->
  Forall (fun e => entry_date e <> date) before -> Forall (fun e => entry_date e <> date) after ->
  Forall (fun e => entry_path e <> []) (before ++ day_es ++ after) ->
  qsum (map (fun c => nweight c date) (wn_children (propagate (report_of (before ++ day_es ++ after))))) == 1.
Proof. exact top_100. Qed.
Print Assumptions C20_top_100.

(* ---------------------------------------------------------------- weights: the mapping law (-m) *)

(* Vocabulary (Spec/PortfolioMapSpec.v): [wn_find p r] the node at path p; [node_weight r p d] the
   number the renderer reads there for date d (0 where there is no node); [map_entries m es0]
   the entries es0 with Model/Weights.map_path applied to every path; [pf_unmapped cfg] the
   same command without -m. *)

(* for every universe, mapping, period ends and list of value records: the query without -m
   does not panic, and the query with -m books the same entries, in the same order, with the
   same dates and weights, on the paths map_path gives (or panics where map_path does) *)
Theorem C20_mapped_entries : forall u m ends l,
  exists es0, query_entries u [] ends l = WOk es0 /\
    query_entries u m ends l = (match map_entries m es0 with Some es => WOk es | None => WPanic end).
Proof.
  intros u m ends l. destruct (query_entries_unmapped_ok u ends l) as [es0 H]. exists es0.
  split; [exact H|exact (query_entries_map u m ends l es0 H)].
Qed.
Print Assumptions C20_mapped_entries.

(* The mapping law on the nodes: for every configuration (universe, mapping, filters, window)
   and journal on which `portfolio weights` runs, every path p and date d: the weight the
   renderer reads at p in the report WITH the mapping is the sum of the weights of the entries
   of the run WITHOUT the mapping that map_path sends to p or below it, on d.
   [defined_entries]: no weight is a division by a zero total (Go: Inf/NaN); as in C20_group_sum,
   sums with undefined weights are not numbers.  (Per date -- only the entries of d defined -- the
   local form is Proofs/PortfolioPerDate.propagate_at / own_at_find_at, which the table theorem
   C20_mapping_law_table uses; the sum over the whole subtree is proved under defined_entries.) *)
Theorem C20_mapping_law : forall cfg ds es0 es p d,
  weights_entries (pf_unmapped cfg) ds = COk es0 -> weights_entries cfg ds = COk es ->
  defined_entries es0 ->
  node_weight (propagate (report_of es)) p d == mapped_weight (pc_mapping cfg) es0 p d.
Proof. exact mapping_law_nodes. Qed.
Print Assumptions C20_mapping_law.

(* hence: a node's weight = the entries the mapping folds into the node itself + the weights
   of its children (a node can be both: booked on, and a group) *)
Theorem C20_mapping_law_local : forall cfg ds es0 es p d x,
  weights_entries (pf_unmapped cfg) ds = COk es0 -> weights_entries cfg ds = COk es ->
  defined_entries es0 ->
  wn_find p (propagate (report_of es)) = Some x ->
  node_weight (propagate (report_of es)) p d ==
  folded_weight (pc_mapping cfg) es0 p d +
  qsum (map (fun c => node_weight (propagate (report_of es)) (p ++ [wn_seg c]) d) (wn_children x)).
Proof. exact mapping_law_local. Qed.
Print Assumptions C20_mapping_law_local.

(* The mapping law on the tables: the executable statement the check evaluates on the binary's two text
   tables (Spec/PortfolioSpec.mapping_law_b: every leaf row of the table WITHOUT -m has a row of the
   table WITH -m to be folded into; every row WITH -m = the leaf rows WITHOUT -m that map_path sends
   to the row's path + the row's member rows, in every column in which these are finite numbers; paths
   and members read off the indentation) holds, with tolerance 0, of the rows of the two tables of the
   model ([srows]: depth = indent / 2) -- for every configuration (universe, mapping, filters, window,
   sort order) and journal, zero totals included (an undefined weight makes the cell of its leaf row
   undefined, and the statement skips the column), provided
     [prefix_free es0]  in the run without -m no commodity's path is a proper prefix of another's
                        (a class is not named like a classified commodity's path): otherwise that
                        commodity is no leaf row of the table without -m and mapping_law_b is FALSE
                        of the correct tables, see C20_w4_needs_prefix_free;
     paths non-empty    the mapping hides no commodity altogether (level 0): otherwise the commodity
                        has no row to be folded into (leaves_placed_b). *)
Theorem C20_mapping_law_table : forall cfg ds es0 es t0 t,
  weights_entries (pf_unmapped cfg) ds = COk es0 -> weights_entries cfg ds = COk es ->
  prefix_free es0 -> Forall (fun e => entry_path e <> []) es ->
  weights_table (pf_unmapped cfg) ds = COk t0 -> weights_table cfg ds = COk t ->
  mapping_law_b 0 (length (fst t)) (pc_mapping cfg) (srows t0) (srows t) = true.
Proof. exact mapping_law_table. Qed.
Print Assumptions C20_mapping_law_table.

(* the same for entries: any two sort orders, any mapping under which map_entries succeeds *)
Theorem C20_mapping_law_rows : forall m es0 es a0 a,
  map_entries m es0 = Some es ->
  prefix_free es0 -> Forall (fun e => entry_path e <> []) es ->
  mapping_law_b 0 (length (report_dates es)) m (srows (render_weights a0 es0)) (srows (render_weights a es)) = true.
Proof. exact table_law. Qed.
Print Assumptions C20_mapping_law_rows.

(* where the command with -m runs, the command without -m runs *)
Theorem C20_unmapped_runs : forall cfg ds es,
  weights_entries cfg ds = COk es -> exists es0, weights_entries (pf_unmapped cfg) ds = COk es0.
Proof. exact weights_entries_unmapped_ok. Qed.
Print Assumptions C20_unmapped_runs.

(* ---------------------------------------------------------------- returns: one per period *)

(* repaired wiring: for every journal and configuration with a non-empty window, `portfolio
   returns` prints exactly one line per period of the partition, in order, dated with the
   period's end -- also when that day carries no directive *)
Theorem C20_every_period : forall cfg ds l,
  returns_fixed cfg ds = COk l ->
  (0 <= pc_last cfg)%Z ->
  exists b part,
    load ds = COk b /\ pf_partition cfg b = COk part /\
    (let w := clip (mkPeriod (pc_from cfg) (pc_to cfg)) (builder_period b) in (p_start w <= p_end w)%Z ->
     map fst l = end_dates part).
Proof. exact returns_every_period. Qed.
Print Assumptions C20_every_period.

(* pinned wiring (j.Build() evaluated before Perf registers the period ends): false *)
Theorem C20_every_period_refuted :
  exists cfg ds, (0 <= pc_last cfg)%Z /\ every_period_fails pinned cfg ds.
Proof. exact every_period_refuted. Qed.
Print Assumptions C20_every_period_refuted.

(* the line of a period end is the running product over the processed days of the window
   since the previous reported period end, minus one *)
Theorem C20_period_reported : forall part ends l p rest,
  Forall (fun x => partition_contains part (pf_date x) = true /\ mem ends (pf_date x) = false) l ->
  partition_contains part (pf_date p) = true -> mem ends (pf_date p) = true ->
  perf_loop part ends (Some 1) (l ++ p :: rest) = (pf_date p, reported part ends l p) :: perf_loop part ends (Some 1) rest.
Proof. exact period_reported. Qed.
Print Assumptions C20_period_reported.

(* ---------------------------------------------------------------- returns: the two laws *)

(* A period in which nothing but deposits and withdrawals touches the portfolio reports 0.
   For every journal and configuration on which the repaired `portfolio returns` runs: take the
   intermediate results of returnsRunner.execute (the partition, the valued days, the records
   of ComputeValues and ComputeFlows; all determined by cfg and ds) and any stretch l ++ [p] of
   consecutive Performance records.  If every transaction of the valued days of that stretch is
   untargeted (t_targets = None: no @performance annotation, and no value adjustment booked by
   Valuate, i.e. prices unchanged) then on every day of the stretch the change in value is what
   flowed in and out, V1 = V0 + inflow + outflow ([flows_explain]), and the return reported for
   the stretch is 0 -- or undefined, when on some day V0 + inflow = 0.  (C20_period_reported:
   [reported part ends l p] is what the command prints for the period end p when l are the
   processed days of the window since the previous period end.)
   For the pinned ComputeFlows, which ignores the commodity filter, this is false:
   C20_external_flows_zero_refuted. *)
Theorem C20_external_flows_zero : forall cfg ds out,
  returns_fixed cfg ds = COk out ->
  exists b part days vs fs,
    load ds = COk b /\ pf_partition cfg b = COk part /\
    valued_days cfg (b_days (builder_touch b (end_dates part))) = COk days /\
    day_values cfg days = COk vs /\ day_flows repaired cfg (snd vs) = COk fs /\
    out = perf_loop part (end_dates part) (Some 1) (join_perf (fst vs) fs) /\
    map pf_date (join_perf (fst vs) fs) = map d_date days /\
    forall l p, (exists pre rest, join_perf (fst vs) fs = pre ++ l ++ p :: rest) ->
      (forall x, In x days -> In (d_date x) (map pf_date (l ++ [p])) -> untargeted x) ->
      Forall flows_explain (l ++ [p]) /\ is_or_undef (reported part (end_dates part) l p) 0.
Proof. exact external_flows_zero_full. Qed.
Print Assumptions C20_external_flows_zero.

(* the same about the output: when the records before the stretch end with a processed period end (or
   lie before the window, [boundary]), the days of l are in the window and no period ends, and p is a
   period end, the command prints for p a return that is 0 or undefined *)
Theorem C20_external_flows_zero_line : forall cfg ds out,
  returns_fixed cfg ds = COk out ->
  exists part days perfs,
    map pf_date perfs = map d_date days /\ out = perf_loop part (end_dates part) (Some 1) perfs /\
    forall pre l p rest, perfs = pre ++ l ++ p :: rest ->
      boundary part (end_dates part) pre ->
      Forall (fun x => partition_contains part (pf_date x) = true /\ mem (end_dates part) (pf_date x) = false) l ->
      partition_contains part (pf_date p) = true -> mem (end_dates part) (pf_date p) = true ->
      (forall x, In x days -> In (d_date x) (map pf_date (l ++ [p])) -> untargeted x) ->
      exists r, In (pf_date p, r) out /\ is_or_undef r 0.
Proof. exact external_flows_zero_line. Qed.
Print Assumptions C20_external_flows_zero_line.

(* the same from the days of the journal as the builder makes them from the directives (before
   ComputePrices, Check and Valuate): a day that declares no price is valued at the prices of the day
   before, so Valuate books no value adjustment on it, and its transactions keep their targets
   (C20_quiet_days_valued).  Hence: if every day of the stretch is [quiet] in the journal -- no price
   directive, no transaction with a @performance annotation -- the printed return is 0 or undefined. *)
Theorem C20_external_flows_zero_source : forall cfg ds out,
  returns_fixed cfg ds = COk out ->
  exists b part perfs,
    load ds = COk b /\ pf_partition cfg b = COk part /\
    map pf_date perfs = map d_date (b_days (builder_touch b (end_dates part))) /\
    out = perf_loop part (end_dates part) (Some 1) perfs /\
    forall pre l p rest, perfs = pre ++ l ++ p :: rest ->
      boundary part (end_dates part) pre ->
      Forall (fun x => partition_contains part (pf_date x) = true /\ mem (end_dates part) (pf_date x) = false) l ->
      partition_contains part (pf_date p) = true -> mem (end_dates part) (pf_date p) = true ->
      (forall x, In x (b_days (builder_touch b (end_dates part))) -> In (d_date x) (map pf_date (l ++ [p])) -> quiet x) ->
      exists r, In (pf_date p, r) out /\ is_or_undef r 0.
Proof. exact external_flows_zero_source. Qed.
Print Assumptions C20_external_flows_zero_source.

Theorem C20_quiet_days_valued : forall cfg days days',
  valued_days cfg days = COk days' ->
  Forall2 (fun d d' => d_date d' = d_date d /\
                       (d_prices d = [] -> map t_targets (d_txns d') = map t_targets (d_txns d)) /\
                       (quiet d -> untargeted d')) days days'.
Proof. exact quiet_days_valued. Qed.
Print Assumptions C20_quiet_days_valued.

(* the law of one period by itself: if on every processed day of the period the change in value
   is accounted for by what flowed in and out, the reported return is 0 or undefined *)
Theorem C20_flows_explain_zero : forall part ends l p,
  Forall (fun x => p_v1 x == p_v0 x + p_inflow x + p_outflow x) (l ++ [p]) ->
  is_or_undef (reported part ends l p) 0.
Proof. exact external_flows_zero. Qed.
Print Assumptions C20_flows_explain_zero.

Theorem C20_external_flows_zero_refuted :
  exists cfg ds s e r,
    no_price_in ds s e = true /\ only_external_in ds s e = true /\
    second_return (returns_gen (mkFixes true false) cfg ds) = Some r /\ ~ r == 0.
Proof. exact external_flows_zero_refuted. Qed.
Print Assumptions C20_external_flows_zero_refuted.

(* A period without flows (and without a zero start value on any of its days): the reported
   return is end value over start value minus one; the daily ratios V1/V0 telescope because
   each day starts with the value the previous processed day ended with. *)
Theorem C20_no_flow_ratio : forall part ends l p v,
  chained v (l ++ [p]) -> ~ v == 0 ->
  Forall (fun x => p_inflow x == 0 /\ p_outflow x == 0 /\ ~ p_v0 x == 0) (l ++ [p]) ->
  exists q, reported part ends l p = Some q /\ q == p_v1 p / v - 1.
Proof. exact no_flow_ratio. Qed.
Print Assumptions C20_no_flow_ratio.

(* the chain hypothesis holds of the records the commands build *)
Theorem C20_records_chained : forall prev vs fs, records_chain prev vs -> chained (pcv_sum prev) (join_perf vs fs).
Proof. exact chained_join. Qed.
Print Assumptions C20_records_chained.

(* ---------------------------------------------------------------- examples *)

(* W1 (PortfolioWitness): two monthly periods, the first ends on a day without directive *)
Example C20_w1_periods : w1_ends = [jan 31; feb 10] /\ w1_pinned_dates = [feb 10] /\ w1_fixed_dates = [jan 31; feb 10].
Proof. split; [exact w1_ends_eq|split; [exact w1_pinned_eq|exact w1_fixed_eq]]. Qed.

(* W2: February has unchanged prices and one external deposit; --commodity AAPL *)
Example C20_w2_returns :
  second_return (returns_gen (mkFixes true false) w2_cfg w2_journal) = Some (-1 # 2) /\
  second_return (returns_fixed w2_cfg w2_journal) = Some 0.
Proof. split; [exact w2_pinned_filter|exact w2_repaired]. Qed.

(* W3 (PortfolioMapWitness): universe Equity:US (AAPL), Equity:CH (NESN), Cash (CHF); `-m 1,^Equity:US`
   folds AAPL into the row Equity, which keeps its member CH.  The node Equity is a leaf and a
   group at once; the plain group law fails on the table, the mapping law holds; the hypotheses
   of the mapping theorems hold of this run. *)
Example C20_w3_partial_fold :
  weights_entries w3_cfg w3_journal = COk w3_entries /\ weights_entries (pf_unmapped w3_cfg) w3_journal = COk w3_entries0 /\
  defined_entries w3_entries0 /\
  match wn_find [s_Equity] (propagate (report_of w3_entries)) with
  | Some n => wn_leaf n = true /\ map wn_seg (wn_children n) = [s_CH]
  | None => False
  end /\
  node_weight (propagate (report_of w3_entries)) [s_Equity] (jan 31) == 1 # 2 /\
  folded_weight (pc_mapping w3_cfg) w3_entries0 [s_Equity] (jan 31) == 1 # 4 /\
  node_weight (propagate (report_of w3_entries)) [s_Equity; s_CH] (jan 31) == 1 # 4 /\
  groups_ok_b 0 2 (srows w3_table) = false /\
  mapping_law_b 0 2 (pc_mapping w3_cfg) (srows w3_table0) (srows w3_table) = true.
Proof.
  destruct w3_runs as [H1 [H2 _]]. destruct w3_node_law as [H3 [H4 [H5 _]]]. destruct w3_laws as [H6 H7].
  split; [exact H1|]. split; [exact H2|]. split; [exact w3_defined|]. split; [exact w3_leaf_and_group|].
  split; [exact H3|]. split; [exact H4|]. split; [exact H5|]. split; [exact H6|exact H7].
Qed.

(* the hypotheses of C20_mapping_law_table hold of W3, and its conclusion is what vm_compute finds *)
Example C20_w3_table_law :
  defined_entries w3_entries0 /\ prefix_free w3_entries0 /\ Forall (fun e => entry_path e <> []) w3_entries /\
  mapping_law_b 0 (length (fst w3_table)) (pc_mapping w3_cfg) (srows w3_table0) (srows w3_table) = true.
Proof.
  destruct w3_runs as [H1 [H2 [H3 H4]]].
  split; [exact w3_defined|]. split; [exact w3_prefix_free|]. split; [exact w3_nonempty|].
  exact (C20_mapping_law_table w3_cfg w3_journal w3_entries0 w3_entries w3_table0 w3_table
           H2 H1 w3_prefix_free w3_nonempty H4 H3).
Qed.

(* W4: universe Equity (AAPL), Equity:AAPL (NESN), Cash (CHF), `-m 1,^Cash`.  Every hypothesis of the table
   theorem but prefix_free holds ([Equity; AAPL] is a proper prefix of [Equity; AAPL; NESN]) and
   mapping_law_b is false of the model's tables: the executable statement presupposes prefix_free. *)
Example C20_w4_needs_prefix_free :
  weights_entries (pf_unmapped w4_cfg) w3_journal = COk w4_entries0 /\ weights_entries w4_cfg w3_journal = COk w4_entries /\
  weights_table (pf_unmapped w4_cfg) w3_journal = COk w4_table0 /\ weights_table w4_cfg w3_journal = COk w4_table /\
  defined_entries w4_entries0 /\ Forall (fun e => entry_path e <> []) w4_entries /\
  ~ prefix_free w4_entries0 /\
  mapping_law_b 0 (length (fst w4_table)) (pc_mapping w4_cfg) (srows w4_table0) (srows w4_table) = false.
Proof.
  destruct w4_runs as [H1 [H2 [H3 H4]]]. destruct w4_hyps as [H5 H6]. destruct w4_not_prefix_free as [H7 H8].
  split; [exact H1|]. split; [exact H2|]. split; [exact H3|]. split; [exact H4|]. split; [exact H5|]. split; [exact H6|].
  split; [|exact w4_law_fails].
  intros Hpf. specialize (Hpf _ _ H7 H8). vm_compute in Hpf. discriminate Hpf.
Qed.

(* W5 (PortfolioFullWitness): the journal of W2 without filters, `returns --months --to 2023-02-28 -v CHF`.
   February is a deposit-only period with unchanged prices: the hypotheses of C20_external_flows_zero
   hold of the records of 02-10 and 02-28 ([w5_l], [w5_p]; [w5_days] etc. are the intermediate results
   the theorem names), the deposit of 500 CHF is the inflow of the 10th, and the period reports 0. *)
Example C20_w5_deposit_period :
  (exists b, load w2_journal = COk b /\ pf_partition w5_cfg b = COk w5_part /\
     valued_days w5_cfg (b_days (builder_touch b (end_dates w5_part))) = COk w5_days /\
     day_values w5_cfg w5_days = COk w5_vs /\ day_flows repaired w5_cfg (snd w5_vs) = COk w5_fs) /\
  w5_perfs = join_perf (fst w5_vs) w5_fs /\ (exists pre rest, w5_perfs = pre ++ w5_l ++ w5_p :: rest) /\
  map pf_date (w5_l ++ [w5_p]) = [feb 10; feb 28] /\
  (forall x, In x w5_days -> In (d_date x) (map pf_date (w5_l ++ [w5_p])) -> untargeted x) /\
  (exists b, load w2_journal = COk b /\ pf_partition w5_cfg b = COk w5_part /\
             w5_src_days = b_days (builder_touch b (end_dates w5_part))) /\
  (forall x, In x w5_src_days -> In (d_date x) (map pf_date (w5_l ++ [w5_p])) -> quiet x) /\
  boundary w5_part (end_dates w5_part) (firstn 3 w5_perfs) /\
  Forall (fun x => partition_contains w5_part (pf_date x) = true /\ mem (end_dates w5_part) (pf_date x) = false) w5_l /\
  partition_contains w5_part (pf_date w5_p) = true /\ mem (end_dates w5_part) (pf_date w5_p) = true /\
  match w5_l with
  | [q] => p_v0 q == 1500 # 1 /\ p_inflow q == 500 # 1 /\ p_outflow q == 0 /\ p_v1 q == 2000 # 1
  | _ => False
  end /\
  reported w5_part (end_dates w5_part) w5_l w5_p = Some 0 /\
  second_return (returns_fixed w5_cfg w2_journal) = Some 0.
Proof.
  destruct w5_split as [Hs Hd].
  split; [exact w5_runs|]. split; [reflexivity|]. split; [exists (firstn 3 w5_perfs), []; exact Hs|]. split; [exact Hd|].
  split; [rewrite Hd; exact w5_february_untargeted|]. split; [exact w5_src|]. split; [rewrite Hd; exact w5_february_quiet|].
  split; [exact w5_boundary|].
  destruct w5_stretch as [Hl [Hc Hm]]. split; [exact Hl|]. split; [exact Hc|]. split; [exact Hm|]. split; [exact w5_deposit|]. split; [exact w5_reported|exact w5_returns].
Qed.

(* W5, `weights`: the hypotheses of C20_weights_match_balance hold of the valued days split at 2023-02-10
   with the accounts [Assets:Bank; Assets:Broker; Equity:Opening]; the values are 1500 CHF and AAPL worth 500 CHF *)
Example C20_w5_weights_values :
  w5_days = w5_pre ++ w5_d :: w5_post /\ d_date w5_d = feb 10 /\
  asc (map d_date (w5_pre ++ w5_d :: w5_post)) /\
  (exists vs, day_values w5_cfg (w5_pre ++ w5_d :: w5_post) = COk vs) /\
  covers w5_accs (w5_pre ++ w5_d :: w5_post) (d_date w5_d) /\
  names_respected (ca_acc (pf_calc w5_cfg)) w5_accs (postings_upto (w5_pre ++ w5_d :: w5_post) (d_date w5_d)) /\
  portfolio_value (ca_acc (pf_calc w5_cfg)) (ca_com (pf_calc w5_cfg)) (w5_pre ++ w5_d :: w5_post) CHF (d_date w5_d) == 1500 # 1 /\
  portfolio_value_by_account (ca_acc (pf_calc w5_cfg)) (ca_com (pf_calc w5_cfg)) w5_accs (w5_pre ++ w5_d :: w5_post) AAPL (d_date w5_d) == 500 # 1.
Proof.
  destruct w5_days_split as [H1 [H2 _]]. destruct w5_values as [H3 H4]. destruct w5_runs as [b [_ [_ [_ [H5 _]]]]].
  split; [exact H1|]. split; [exact H2|]. split; [exact w5_asc|]. split; [exists w5_vs; rewrite <- H1; exact H5|].
  split; [exact w5_covers|]. split; [exact w5_names_respected|]. split; [exact H3|exact H4].
Qed.
