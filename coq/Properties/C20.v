(* C20 placeholder; statements follow *)
From Coq Require Import ZArith QArith List Bool.
From Knut Require Import Model.Perf Model.Weights Model.CliPortfolio Spec.PortfolioSpec.
