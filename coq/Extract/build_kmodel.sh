#!/bin/sh
# builds /verif/build/kmodel from the extracted model and the drivers
set -e
cd "$(dirname "$0")"
OUT=${1:-../../build}
mkdir -p "$OUT/kmodel_obj"
./gen_extract.sh
coqc -Q .. Knut Extract.v >/dev/null
cp kmodel_core.ml kmodel_core.mli drv/*.ml "$OUT/kmodel_obj/"
cd "$OUT/kmodel_obj"
DRV="drv_c11.ml drv_journal.ml $(ls drv_*.ml | grep -v -e drv_util.ml -e drv_c11.ml -e drv_journal.ml | sort | tr "\n" " ")"
ocamlfind ocamlopt -w -a -package str -linkpkg kmodel_core.mli kmodel_core.ml drv_util.ml $DRV kmodel_main.ml -o ../kmodel
