(* C11, command level: the columns of `knut balance --csv` (separate file: drv_c11.ml is linked before drv_journal.ml) *)
open Drv_util
open Drv_journal

let () =
  (* op C11.cols  input "<balance cfg> | <journal>"  observed "OK d1,d2,.." | ERR: the columns of the report are the
     period ends of the partition of the requested period clipped to the journal's period (Spec.LedgerSpec.journal_period:
     earliest transaction .. latest transaction or price), as Model/Cli.v computes it; NewPartition is proved to meet
     is_partition_b (C11_model_meets_spec), Clip to be the intersection (C11_clip_intersection) *)
  register "C11.cols" (fun inp obs ->
    let (c, j) = split_input inp in
    let cfg = decode_cfg c in
    match K.parse_directives (decode_journal j) with
    | K.MOk dl ->
      let bc = cfg.bc in
      let w = K.clip { K.p_start = bc.K.bc_from; K.p_end = bc.K.bc_to } (K.journal_period dl) in
      let model =
        if w.K.p_start = K.Z0 then "NOSTART"
        else (match K.new_partition w bc.K.bc_interval bc.K.bc_last with
          | K.POk pt -> "OK " ^ String.concat "," (List.map Drv_c11.fmt_date (K.end_dates pt))
          | _ -> "PANIC") in
      let spec =
        if String.length obs >= 2 && String.sub obs 0 2 = "OK" then
          (if model = "NOSTART" || String.trim obs = String.trim model then "ok"
           else "FAIL:the columns are not the period ends of the requested window clipped to the journal's period: " ^ model)
        else "ok" in
      ((if model = "NOSTART" then obs else model), spec)
    | _ -> (obs, "ok"))
