(* C04.write: `knut check --write FILE`.
   input: "cls=.. mut=.. feats=.. | <journal encoding>"
   observed: "OK <escaped stdout>" | "ERR" | "ERR+OUT <stdout>" | PANIC.. | HANG
   model: the same line from Model/CheckWrite.v check_write_cmd.
   spec verdict on the binary's output (Spec/CheckWriteSpec.v, Spec/WellformedSpec.v):
   - the command fails exactly on the ill-formed journals, and then stdout is empty;
   - the printed text parses (the model's parser) to balance assertions only;
   - the journal extended by them is accepted by the model's checker (check_cmd_fixed);
   - write_spec_b: one assertion per day with a live position, dates ascending, lines strictly ordered by
     (account, commodity), every line a live position with the running quantity of that day's end, every live
     position asserted. *)
open Drv_util
open Drv_journal

let render (r : K.z list K.cresult) : string =
  match r with
  | K.COk t -> "OK " ^ esc (string_of_str t)
  | K.CErr _ -> "ERR"
  | K.CPanic m -> "PANIC " ^ string_of_str m

let show_line (dt : K.z) (b : K.balance) : string =
  Drv_c11.fmt_date dt ^ " " ^ string_of_str (K.acc_name b.K.bal_acc) ^ " " ^ string_of_str (K.to_string b.K.bal_qty)
  ^ " " ^ string_of_str b.K.bal_com

let spec_write (sds : K.sdirective list) (ds : K.directive list) (obs : string) : string =
  if not (K.syntactic_b ds) then "FAIL:generator: account outside the syntactic class" else
  let wf = K.wellformed_b ds in
  match prefix_strip "OK " obs, obs with
  | None, "OK" | Some "", _ ->
    (* empty stdout *)
    if not wf then "FAIL:check --write succeeded on an ill-formed journal"
    else if K.write_spec_b ds [] then "ok"
    else (match K.first_missing ds [] with
        | Some ((dt, a), c) -> "FAIL:nothing printed, but " ^ string_of_str (K.acc_name a) ^ " " ^ string_of_str c
                               ^ " is a live position at the end of " ^ Drv_c11.fmt_date dt
        | None -> "FAIL:nothing printed")
  | Some text, _ ->
    if not wf then "FAIL:check --write succeeded on an ill-formed journal" else
    (match K.ToModelM.reparse (str_of_string (unesc text)) with
     | K.MErr _ | K.MPanic _ -> "FAIL:the printed text does not parse"
     | K.MOk sds' ->
       match K.assertions_only sds' with
       | None -> "FAIL:the printed text contains a directive that is not a balance assertion"
       | Some w ->
         (match K.check_cmd_fixed (sds @ sds') with
          | K.CErr (k, d) -> "FAIL:the journal extended by the printed assertions is rejected: " ^ string_of_str k ^ " "
                             ^ string_of_str d
          | K.CPanic m -> "FAIL:the journal extended by the printed assertions: PANIC " ^ string_of_str m
          | K.COk _ ->
            if K.write_spec_b ds w then "ok"
            else if not (K.ws_dates_b w) then "FAIL:the printed assertions are not in strictly ascending date order"
            else if not (K.ws_days_b ds w) then "FAIL:an assertion without lines, or on a date the journal does not have"
            else if not (K.ws_sorted_b w) then "FAIL:the lines of an assertion are not strictly ordered by account and commodity"
            else if not (K.ws_sound_b ds w) then
              (match K.first_bad_line ds w with
               | Some (dt, b) ->
                 let q = K.quantity (K.events_upto ds dt) b.K.bal_acc b.K.bal_com in
                 "FAIL:asserted " ^ show_line dt b ^ " but the running quantity at that day's end is "
                 ^ string_of_str (K.to_string q) ^ " (or the position is not live)"
               | None -> "FAIL:spec inconsistent")
            else (match K.first_missing ds w with
                | Some ((dt, a), c) -> "FAIL:the live position " ^ string_of_str (K.acc_name a) ^ " " ^ string_of_str c
                                       ^ " is not asserted at the end of " ^ Drv_c11.fmt_date dt
                | None -> "FAIL:spec inconsistent")))
  | None, _ ->
    if obs = "ERR" then (if wf then "FAIL:check --write failed on a well-formed journal" else "ok")
    else if String.length obs >= 7 && String.sub obs 0 7 = "ERR+OUT" then "FAIL:the command failed and printed something"
    else "FAIL:" ^ (if String.length obs > 60 then String.sub obs 0 60 else obs)

let () =
  register "C04.write" (fun inp obs ->
    let (_, j) = split_input inp in
    let sds = decode_journal j in
    let model = render (K.check_write_cmd sds) in
    match K.parse_directives sds with
    | K.MOk ds -> (model, spec_write sds ds obs)
    | _ -> (model, "FAIL:generator produced a journal the model layer rejects"))
