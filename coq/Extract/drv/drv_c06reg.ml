(* C06.reg: `knut register --color=false` against Model/Register.v register_text.
   input    "<runs> <lseed> # <path>,<path>,... # <file of directive 0>,... # <cfg> | journal"
            (cfg: harness/c06reg.go RegCfg.Enc).  The directives are tagged with (path of their file, position) and
            handed to the model in source order (Source.sort_src), the order in which Build() of the current code leaves
            them for every arrival order (Properties/C06.v C06_arrival, C06_command_is_source_order).
   observed "<runs=same | diff ...> | <OK stdout | ERR | PANIC ...>"
   model    "OK <stdout>" | "ERR" | "PANIC" -- for a panic only the class is compared (the observer's text
            after PANIC is the Go runtime's message, the model's is the name of the panic site)
   verdict  ok when all runs of the binary agreed, FAIL:<first difference> otherwise.  This driver parses
            nothing of knut's output. *)
open Drv_util
open Drv_journal

let decode_reg_cfg (s : string) : K.register_cfg * K.text_cfg =
  let kv = Hashtbl.create 16 in
  List.iter (fun t -> match String.index_opt t '=' with
    | Some i -> Hashtbl.replace kv (String.sub t 0 i) (String.sub t (i + 1) (String.length t - i - 1))
    | None -> ()) (fields s);
  let g k = try Hashtbl.find kv k with Not_found -> "-" in
  let b k = g k = "1" in
  let rxs k = List.map rx_of (list_dec (g k)) in
  ({ K.rg_from = date_of (g "from"); K.rg_to = date_of (g "to");
     K.rg_interval = Drv_c11.interval_of_string (g "iv");
     K.rg_last = z_of_int (try int_of_string (g "last") with _ -> 0);
     K.rg_valuation = (if g "val" = "-" then None else Some (str_of_string (g "val")));
     K.rg_show_commodities = b "c"; K.rg_show_descriptions = b "d"; K.rg_show_source = b "a"; K.rg_alpha = b "s";
     K.rg_mapping = List.map rule_of (list_dec (g "map"));
     K.rg_remap = rxs "remap"; K.rg_sources = rxs "src"; K.rg_dests = rxs "dst"; K.rg_commodities = rxs "com";
     K.rg_lenient = true },
   { K.tc_thousands = b "k"; K.tc_round = z_of_int (try int_of_string (g "digits") with _ -> 0) })

let first_part obs =
  match split_str " | " obs with x :: _ -> x | [] -> ""

let () =
  register "C06.reg" (fun inp obs ->
    let (head, j) = split_input inp in
    let (paths, file_of, cfg_s) = match split_str " # " head with
      | [_; p; f; c] -> (Array.of_list (String.split_on_char ',' p),
                         (if p = "-" then [||] else Array.of_list (List.map int_of_string (String.split_on_char ',' f))), c)
      | _ -> failwith "C06.reg: input" in
    let (cfg, tc) = decode_reg_cfg cfg_s in
    let tagged = List.concat (List.mapi (fun i part ->
      match decode_directive part with
      | Some d ->
        let path = if Array.length paths = 1 && paths.(0) = "-" then "-" else paths.(file_of.(i)) in
        [({ K.s_path = str_of_string path; K.s_start = z_of_int i }, d)]
      | None -> []) (split_str " ; " j)) in
    let model = match K.register_text cfg tc (K.sort_src tagged) with
      | K.COk out -> "OK " ^ esc (string_of_str out)
      | K.CErr (_, _) -> "ERR"
      | K.CPanic _ -> "PANIC" in
    let spec = if first_part obs = "runs=same" then "ok" else "FAIL:" ^ first_part obs in
    (model, spec))
