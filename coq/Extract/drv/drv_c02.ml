(* C02: every cell of the unvalued balance report equals the independent ledger computation.
   The spec verdict compares the binary's CSV with Spec.LedgerSpec.ledger_csv in three steps:
   the header; the SET of rows in both directions (a ledger row that the report does not have, a
   report row that no ledger row explains; rows are named with the full account path that
   Spec.BalanceTableSpec.ledger_row_paths gives); then every line and cell of every row. *)
open Drv_util
open Drv_journal

let rows_to_string (rows : K.z list list list) : string =
  String.concat "\n" (List.map (fun r -> String.concat "," (List.map string_of_str r)) rows)

(* a block = the lines of one row: the first line carries the name, the others have an empty first field *)
let blocks (lines : string list list) : (string * string list list) list =
  let rec go acc cur = function
    | [] -> List.rev (match cur with None -> acc | Some (n, ls) -> (n, List.rev ls) :: acc)
    | l :: rest ->
      let name = match l with x :: _ -> x | [] -> "" in
      if name <> "" || cur = None then
        go (match cur with None -> acc | Some (n, ls) -> (n, List.rev ls) :: acc) (Some (name, [l])) rest
      else (match cur with Some (n, ls) -> go acc (Some (n, l :: ls)) rest | None -> go acc None rest) in
  go [] None lines

let path_string (a : K.z list list) : string = String.concat ":" (List.map string_of_str a)

(* both directions of the row set; [exp] carries the ledger's display names (full path for account rows) *)
let rec diff_rows (prev : string) (exp : (string * string) list) (got : string list) : string option =
  match exp, got with
  | [], [] -> None
  | (_, full) :: _, [] -> Some (Printf.sprintf "rows: ledger row `%s` is missing from the report (report ends after `%s`)" full prev)
  | [], g :: _ -> Some (Printf.sprintf "rows: report row `%s` (after `%s`) is not explained by any ledger row" g prev)
  | (n, full) :: exp', g :: got' ->
    if n = g then diff_rows full exp' got'
    else if List.exists (fun (n', _) -> n' = g) exp' then
      Some (Printf.sprintf "rows: ledger row `%s` is missing from the report (report has `%s` after `%s`)" full g prev)
    else Some (Printf.sprintf "rows: report row `%s` (after `%s`) is not explained by any ledger row (ledger has `%s` there)" g prev full)

let rec diff_cells (header : string list) (full : string) (el : string list list) (gl : string list list) : string option =
  match el, gl with
  | [], [] -> None
  | e :: _, [] -> Some (Printf.sprintf "cell row `%s`: ledger line `%s` missing from the report" full (String.concat "," e))
  | [], g :: _ -> Some (Printf.sprintf "cell row `%s`: report line `%s` not in the ledger computation" full (String.concat "," g))
  | e :: el', g :: gl' ->
    if e = g then diff_cells header full el' gl'
    else begin
      let com = match e with _ :: c :: _ -> c | _ -> "" in
      let rec first i a b = match a, b with
        | x :: a', y :: b' ->
          if x = y then first (i + 1) a' b'
          else Printf.sprintf "column %s: ledger `%s` report `%s`" (try List.nth header i with _ -> string_of_int i) x y
        | x :: _, [] -> Printf.sprintf "column %d: ledger `%s` report <missing>" i x
        | [], y :: _ -> Printf.sprintf "column %d: ledger <missing> report `%s`" i y
        | [], [] -> "?" in
      Some (Printf.sprintf "cell row `%s` commodity `%s` %s" full com (first 0 e g))
    end

let () =
  register "C02.bal" (fun inp obs ->
    let (c, j) = split_input inp in
    let cfg = decode_cfg c in
    let model = run_balance inp in
    let spec =
      match Drv_c01.observed_ok obs with
      | None -> if obs = "ERR" then "ok" else "FAIL:" ^ (if String.length obs > 60 then String.sub obs 0 60 else obs)
      | Some csv ->
        (match K.parse_directives (decode_journal j) with
         | K.MOk ds ->
           (match K.ledger_csv cfg.bc ds, K.ledger_row_paths cfg.bc ds with
            | Some rows, Some (al_paths, eie_paths) ->
              let exp_lines = List.map (List.map string_of_str) rows in
              let got_lines = List.filter_map (fun l -> if l = "" then None else Some (String.split_on_char ',' l))
                                (String.split_on_char '\n' csv) in
              (match exp_lines, got_lines with
               | eh :: erest, gh :: grest ->
                 if eh <> gh then Printf.sprintf "FAIL:header: ledger `%s` report `%s`" (String.concat "," eh) (String.concat "," gh)
                 else begin
                   let eb = blocks erest and gb = blocks grest in
                   (* the ledger's blocks in order: A/L rows, Total (A+L), E/I/E rows, Total (E+I+E), Delta *)
                   let fulls = List.map path_string al_paths @ ["Total (A+L)"] @ List.map path_string eie_paths @ ["Total (E+I+E)"; "Delta"] in
                   if List.length fulls <> List.length eb then "FAIL:ledger_csv and ledger_row_paths disagree on the number of rows"
                   else begin
                     let exp_named = List.map2 (fun (n, _) full -> (n, full)) eb fulls in
                     match diff_rows "Account" exp_named (List.map fst gb) with
                     | Some m -> "FAIL:" ^ m
                     | None ->
                       let rec cells ebs gbs fs = match ebs, gbs, fs with
                         | (_, el) :: ebs', (_, gl) :: gbs', f :: fs' ->
                           (match diff_cells eh f el gl with Some m -> Some m | None -> cells ebs' gbs' fs')
                         | _, _, _ -> None in
                       (match cells eb gb fulls with
                        | Some m -> "FAIL:" ^ m
                        | None ->
                          (* belt and braces: the whole text once more *)
                          if rows_to_string rows = String.concat "\n" (List.filter (fun l -> l <> "") (String.split_on_char '\n' csv))
                          then "ok" else "FAIL:cell CSV differs from ledger_csv")
                   end
                 end
               | _, _ -> "FAIL:header missing")
            | _, _ -> "FAIL:ledger computation undefined but a report was printed")
         | _ -> "FAIL:journal rejected by the model's directive conversion but a report was printed")
    in
    (model, spec))
