(* C02: every cell of the unvalued balance report equals the independent ledger computation *)
open Drv_util
open Drv_journal

let rows_to_string (rows : K.z list list list) : string =
  String.concat "\n" (List.map (fun r -> String.concat "," (List.map string_of_str r)) rows)

let () =
  register "C02.bal" (fun inp obs ->
    let (c, j) = split_input inp in
    let cfg = decode_cfg c in
    let model = run_balance inp in
    let spec =
      match Drv_c01.observed_ok obs with
      | None -> if obs = "ERR" then "ok" else "FAIL:" ^ (if String.length obs > 60 then String.sub obs 0 60 else obs)
      | Some csv ->
        (match K.parse_directives (decode_journal j) with
         | K.MOk ds ->
           (match K.ledger_csv cfg.bc ds with
            | Some rows ->
              let expected = rows_to_string rows in
              let got = String.concat "\n" (List.filter (fun l -> l <> "") (String.split_on_char '\n' csv)) in
              if expected = got then "ok"
              else begin
                (* first differing line, for the replay file *)
                let el = String.split_on_char '\n' expected and gl = String.split_on_char '\n' got in
                let rec first i a b = match a, b with
                  | x :: a', y :: b' -> if x = y then first (i + 1) a' b' else Printf.sprintf "line %d: ledger `%s` report `%s`" i x y
                  | x :: _, [] -> Printf.sprintf "line %d: ledger `%s` report <missing>" i x
                  | [], y :: _ -> Printf.sprintf "line %d: ledger <missing> report `%s`" i y
                  | [], [] -> "?" in
                "FAIL:cell " ^ first 1 el gl
              end
            | None -> "FAIL:ledger computation undefined but a report was printed")
         | _ -> "FAIL:journal rejected by the model's directive conversion but a report was printed")
    in
    (model, spec))
