(* C11: calendar, NewPartition, Align *)
open Drv_util

let parse_date (s : string) : K.z =
  (* yyyy-mm-dd, through the model's own parse_ymd / of_civil *)
  Scanf.sscanf s "%d-%d-%d" (fun y m d ->
    match K.parse_ymd (z_of_int y) (z_of_int m) (z_of_int d) with
    | Some z -> z
    | None -> failwith ("bad date " ^ s))

let fmt_date (z : K.z) : string =
  let ((y, m), d) = K.civil z in
  Printf.sprintf "%04d-%02d-%02d" (int_of_z y) (int_of_z m) (int_of_z d)

let interval_of_string = function
  | "once" -> K.Once | "daily" -> K.Daily | "weekly" -> K.Weekly | "monthly" -> K.Monthly
  | "quarterly" -> K.Quarterly | "yearly" -> K.Yearly | s -> failwith ("interval " ^ s)

let all_intervals = [K.Once; K.Daily; K.Weekly; K.Monthly; K.Quarterly; K.Yearly]

let fmt_periods ps =
  String.concat "," (List.map (fun p -> fmt_date p.K.p_start ^ ".." ^ fmt_date p.K.p_end) ps)

let parse_periods s =
  List.map (fun t ->
    match Str.split (Str.regexp_string "..") t with
    | [a; b] -> { K.p_start = parse_date a; K.p_end = parse_date b }
    | _ -> failwith ("period " ^ t)) (split_on ',' s)

let () =
  (* input: "<s> <e> <iv> <last>"  observed: "a..b,c..d" | "PANIC" *)
  register "C11.part" (fun inp obs ->
    Scanf.sscanf inp "%s %s %s %d" (fun s e iv last ->
      let s = parse_date s and e = parse_date e and iv = interval_of_string iv in
      let model =
        match K.new_partition { K.p_start = s; K.p_end = e } iv (z_of_int last) with
        | K.POk pt -> fmt_periods pt.K.periods
        | K.PPanic -> "PANIC"
        | K.POutOfFuel -> "OUTOFFUEL" in
      let spec =
        if obs = "PANIC" then (if s = K.Z0 then "ok" else "FAIL:panic")
        else if K.is_partition_b s e iv (z_of_int last) (parse_periods obs) then "ok" else "FAIL:is_partition_b" in
      (model, spec)));
  (* input: "<s1> <e1> <s2> <e2> <iv> <last>" ("-" = the zero time)  observed: "<cs>..<ce> | <periods>|PANIC|NOSTART" *)
  register "C11.clip" (fun inp obs ->
    Scanf.sscanf inp "%s %s %s %s %s %d" (fun s1 e1 s2 e2 iv last ->
      let z s = if s = "-" then K.Z0 else parse_date s in
      let w = { K.p_start = z s1; K.p_end = z e1 } and j = { K.p_start = z s2; K.p_end = z e2 } in
      let part = Hashtbl.find ops "C11.part" in
      let c = K.clip w j in
      let pstr p = fmt_date p.K.p_start ^ ".." ^ fmt_date p.K.p_end in
      let head = pstr c in
      match Str.bounded_split_delim (Str.regexp_string " | ") obs 2 with
      | [ohead; orest] ->
        let (mrest, vrest) =
          if c.K.p_start = K.Z0 then ("NOSTART", if orest = "NOSTART" then "ok" else "FAIL:no-start-date-not-reported")
          else part (Printf.sprintf "%s %s %s %d" (fmt_date c.K.p_start) (fmt_date c.K.p_end) iv last) orest in
        (* the partition is judged against the INTERSECTION computed by the spec, not against the clipped period
           the implementation printed *)
        let oc = (match parse_periods ohead with [p] -> Some p | _ -> None) in
        let vclip = (match oc with
          | Some p -> if K.clip_ok_b w j p then "ok" else "FAIL:clipped window " ^ ohead ^ " is not the intersection of the requested period and the journal's period"
          | None -> "FAIL:unreadable") in
        (head ^ " | " ^ mrest, if vclip <> "ok" then vclip else vrest)
      | _ -> (head, "FAIL:unreadable")));
  (* input: "<s> <e> <iv> <last1,last2,..>"  observed: the results of the calls in that order, joined by " / ":
     each call is judged on its own (the model is a function: no call depends on an earlier one) *)
  register "C11.seq" (fun inp obs ->
    Scanf.sscanf inp "%s %s %s %s" (fun s e iv lasts ->
      let part = Hashtbl.find ops "C11.part" in
      let ls = split_on ',' lasts in
      let os = Str.split_delim (Str.regexp_string " / ") obs in
      let os = if List.length os = List.length ls then os else List.map (fun _ -> "MISSING") ls in
      let rs = List.map2 (fun l o -> part (Printf.sprintf "%s %s %s %s" s e iv l) o) ls os in
      let model = String.concat " / " (List.map fst rs) in
      let bad = List.filter (fun (_, v) -> v <> "ok") rs in
      (model, match bad with [] -> "ok" | (_, v) :: _ -> v ^ " (call " ^ string_of_int (List.length rs - List.length bad + 1) ^ "+ of the history)")));
  (* input: "<s> <e> <iv> <last> <d1,d2,...>" observed: "r1,r2,..." r = date | "-" *)
  register "C11.align" (fun inp obs ->
    Scanf.sscanf inp "%s %s %s %d %s" (fun s e iv last ds ->
      let s = parse_date s and e = parse_date e and iv = interval_of_string iv in
      let ds = List.map parse_date (split_on ',' ds) in
      match K.new_partition { K.p_start = s; K.p_end = e } iv (z_of_int last) with
      | K.POk pt ->
        let f r = match r with Some z -> fmt_date z | None -> "-" in
        let model = String.concat "," (List.map (fun d -> f (K.align pt d)) ds) in
        let spec = String.concat "," (List.map (fun d -> f (K.column_expected s e iv pt.K.periods d)) ds) in
        (model, if spec = obs then "ok" else "FAIL:align_spec=" ^ spec)
      | _ -> ("PANIC", "ok")));
  (* input: "<date> <years> <months> <days>"
     observed: "<AddDate> <weekday> <startof x6> <endof x6>" *)
  register "C11.cal" (fun inp _obs ->
    Scanf.sscanf inp "%s %d %d %d" (fun d y m dd ->
      let d = parse_date d in
      let parts =
        [fmt_date (K.add_date d (z_of_int y) (z_of_int m) (z_of_int dd));
         string_of_int (int_of_z (K.weekday d))]
        @ List.map (fun iv -> fmt_date (K.start_of d iv)) all_intervals
        @ List.map (fun iv -> fmt_date (K.end_of d iv)) all_intervals in
      (String.concat " " parts, "ok")))
