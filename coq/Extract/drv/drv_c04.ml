(* C04: check accepts exactly the well-formed journals.
   input: "cls=.. mut=.. feats=.. | <journal encoding>"
   C04.check observed: "OK" | "ERR <escaped diagnostic>" | PANIC.. | HANG
   C04.bal / C04.print observed: exit class "OK" | "ERR" | ... *)
open Drv_util
open Drv_journal

let contains (hay : string) (needle : string) : bool =
  let n = String.length needle and h = String.length hay in
  let rec go i = i + n <= h && (String.sub hay i n = needle || go (i + 1)) in
  n = 0 || go 0

let first_line (s : string) : string =
  match String.index_opt s '\n' with Some i -> String.sub s 0 i | None -> s

let rest_lines (s : string) : string =
  match String.index_opt s '\n' with Some i -> String.sub s (i + 1) (String.length s - i - 1) | None -> ""

(* which of the two known defects of Checker.balance explains a rejection by the pinned code *)
let pinned_explains (sds : K.sdirective list) : string =
  match K.check_cmd true sds, K.check_cmd false sds with
  | K.COk _, K.COk _ -> "pinned model accepts"
  | K.COk _, _ -> "zero assertion on a position without bookings"
  | _, _ -> "assertion on an account that is not an asset or liability account"

(* the directive (date) of the canonical sequence that contains the event number [n] *)
(* for an ill-formed journal: does one of the two known defects make the pinned code stop at an
   earlier directive than the first offender?  (annotation of the failure text only) *)
let earlier_stop (sds : K.sdirective list) : string =
  let err r = match r with K.CErr (k, d) -> Some (string_of_str k, string_of_str d) | _ -> None in
  let fixed = err (K.check_cmd_fixed sds) and lenient = err (K.check_cmd true sds) and pinned = err (K.check_cmd false sds) in
  if pinned = fixed then ""
  else if lenient = fixed then " [the pinned model stops earlier: zero assertion on a position without bookings]"
  else " [the pinned model stops earlier: assertion on an account that is not an asset or liability account]"

let rec directive_of_event (ds : K.directive list) (n : int) : K.directive option =
  match ds with
  | [] -> None
  | d :: rest ->
    let k = List.length (K.events_of d) in
    if n < k then Some d else directive_of_event rest (n - k)

let model_and_wf (inp : string) =
  let (_, j) = split_input inp in
  let sds = decode_journal j in
  let model = match K.check_cmd_fixed sds with
    | K.COk _ -> "OK"
    | K.CErr (k, d) -> "ERR " ^ string_of_str k ^ " " ^ string_of_str d
    | K.CPanic m -> "PANIC " ^ string_of_str m in
  (sds, model, K.parse_directives sds)

let spec_check (sds : K.sdirective list) (ds : K.directive list) (obs : string) : string =
  if not (K.syntactic_b ds) then "FAIL:generator: account outside the syntactic class" else
  let wf = K.wellformed_b ds in
  if obs = "OK" then begin
    if wf then "ok" else
      match K.offender ds with
      | Some (pre, e) ->
        "FAIL:accepted an ill-formed journal (event " ^ string_of_int (List.length pre) ^ " of the canonical sequence, account "
        ^ string_of_str (K.acc_name (K.ev_acc e)) ^ ")"
      | None -> "FAIL:accepted an ill-formed journal"
  end else match prefix_strip "ERR " obs with
    | None -> "FAIL:" ^ (if String.length obs > 60 then String.sub obs 0 60 else obs)
    | Some diag ->
      let diag = unesc diag in
      if wf then "FAIL:rejected a well-formed journal (" ^ pinned_explains sds ^ "): " ^ first_line diag
      else match K.offender ds with
        | None -> "FAIL:spec inconsistent"
        | Some (pre, e) ->
          let acc = string_of_str (K.acc_name (K.ev_acc e)) in
          let quoted = rest_lines diag in
          (match directive_of_event (K.canonical ds) (List.length pre) with
           | None -> "FAIL:spec inconsistent (no directive)"
           | Some d ->
             let date = Drv_c11.fmt_date (K.ddate d) in
             if not (contains quoted acc) then
               "FAIL:the diagnostic does not quote a directive with the offending account " ^ acc ^ earlier_stop sds
             else if not (contains quoted date) then
               "FAIL:the diagnostic does not quote the offending directive of " ^ date ^ earlier_stop sds
             else "ok")

let () =
  register "C04.check" (fun inp obs ->
    match model_and_wf inp with
    | (sds, model, K.MOk ds) -> (model, spec_check sds ds obs)
    | (_, model, _) -> (model, "FAIL:generator produced a journal the model layer rejects"));
  let report_op name =
    register name (fun inp obs ->
      match model_and_wf inp with
      | (_, model, K.MOk ds) ->
        let m = if model = "OK" then "OK" else if String.length model >= 3 && String.sub model 0 3 = "ERR" then "ERR" else model in
        let wf = K.wellformed_b ds in
        let spec =
          if obs = "OK" then (if wf then "ok" else "FAIL:the report command proceeded on an ill-formed journal")
          else if obs = "ERR" then (if wf then "FAIL:the report command failed on a well-formed journal" else "ok")
          else "FAIL:" ^ obs in
        (m, spec)
      | (_, model, _) -> (model, "FAIL:generator produced a journal the model layer rejects")) in
  report_op "C04.bal";
  report_op "C04.print"
