(* C03: valued A/L cells are mark-to-market within the truncation allowance; a missing price fails *)
open Drv_util
open Drv_journal

let last_seg (a : K.z list list) : string =
  match List.rev a with [] -> "" | s :: _ -> string_of_str s

let () =
  register "C03.bal" (fun inp obs ->
    let (c, j) = split_input inp in
    let cfg = decode_cfg c in
    let model = run_balance inp in
    let spec =
      match K.parse_directives (decode_journal j) with
      | K.MOk dl ->
        let v = (match cfg.bc.K.bc_valuation with Some v -> v | None -> failwith "C03 needs a valuation") in
        let missing = K.missing_price_b dl v in
        (match Drv_c01.observed_ok obs with
         | None ->
           if obs = "ERR" then begin
             (* the command may fail only for a reason: a needed price is missing (C03), or the
                journal is not accepted (C04: wellformed, proved equivalent to check_cmd_fixed),
                or the window cannot be built (the model's own error) *)
             if missing then "ok"
             else match K.check_cmd_fixed (decode_journal j) with
               | K.COk _ ->
                 if String.length model >= 3 && String.sub model 0 3 = "OK " then
                   "FAIL:the command failed although the journal is accepted and every needed price exists on its day"
                 else "ok"
               | _ -> "ok"
           end
           else "FAIL:" ^ (if String.length obs > 60 then String.sub obs 0 60 else obs)
         | Some csv ->
           if missing then "FAIL:a booking needs a price that does not exist on its day, but a report was printed"
           else begin
             let rows = List.filter (fun l -> l <> "") (String.split_on_char '\n' csv) in
             let rows = List.map (String.split_on_char ',') rows in
             (* A/L section: rows before "Total (A+L)" *)
             let rec take = function
               | [] -> [] | (n :: _) :: _ when n = "Total (A+L)" -> [] | r :: rest -> r :: take rest in
             let al_rows = take (match rows with _ :: t -> t | [] -> []) in
             let verdict = ref "ok" in
             List.iter (fun a ->
               if !verdict = "ok" then begin
                 let seg = last_seg a in
                 match List.filter (fun r -> match r with n :: _ -> n = seg | [] -> false) al_rows with
                 | [_ :: cells] ->
                   (match K.mtm_row cfg.bc dl a with
                    | Some exps ->
                      (try List.iter2 (fun cell (eo, n) ->
                         match eo with
                         | Some e ->
                           if cell <> "" then begin
                             let o = dec_of cell in
                             if not (K.within_bound o e n) && !verdict = "ok" then
                               verdict := Printf.sprintf "FAIL:value of %s shown %s, mark-to-market %s (allowance %d e-8)"
                                            (string_of_str (K.acc_name a)) cell (string_of_str (K.to_string e)) (int_of_z n)
                           end
                         | None -> ()) cells exps
                       with Invalid_argument _ -> verdict := "FAIL:column count")
                    | None -> ())
                 | _ -> ()    (* account without a row of its own, or ambiguous name: not checked *)
               end) (K.al_accounts dl);
             !verdict
           end)
      | _ -> if obs = "ERR" then "ok" else "FAIL:journal rejected by the model's directive conversion"
    in
    (model, spec))
