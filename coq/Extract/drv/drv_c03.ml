(* C03: valued A/L rows are mark-to-market within the truncation allowance; a missing price fails.
   Every row of the asset/liability section on which an asset/liability account of the journal lands
   (itself without --mapping/--remap; the row remap and the first matching mapping rule send it to
   otherwise) is compared with Spec.ValuationWhereSpec.mtm_row_where_mapped: the sum over the accounts
   that land on the row and pass --account (Spec.MarkToMarketMappedSpec.sources_of) of
   mtm_expected_where (the mark-to-market change of the held commodities that pass --commodity, at
   the prices of the whole journal), within the sum of step_bound_where
   (C03_windowed_mapped_where, C03_model_meets_spec_where_mapped: every configuration; without
   filters this is mtm_row_mapped of C03_model_meets_spec_mapped, and for a row with the single
   source itself mtm_row of C03_model_meets_spec).  A printed row on which no account that passes
   --account lands must be empty (C03_filtered_out_row_zero).  An
   expectation that is undefined although a report was printed is a failure
   (C03_expected_defined).  An empty cell is the value 0; a row that is not printed is 0 in every
   column.

   The driver's own part (trusted): finding the printed line of a row.  The CSV shows only the last
   segment of every account, in tree order.  The full paths are rebuilt from the order and the set
   of possible rows (prefixes of the rows the journal's A/L accounts land on); if that is ambiguous
   for some line of the case, rows are found by their last segment and skipped unless it is unique.
   The counts are appended to the model output after " ##C03 " (checks/c03.py strips and sums them). *)
open Drv_util
open Drv_journal

let last_seg (a : K.z list list) : string =
  match List.rev a with [] -> "" | s :: _ -> string_of_str s

let path_of (a : K.z list list) : string list = List.map string_of_str a

let rec take k l = if k <= 0 then [] else match l with [] -> [] | x :: r -> x :: take (k - 1) r

(* full paths of the printed rows, from their names in tree order (siblings ascending) and the set of
   possible rows; None if some name has no or several possible places *)
let reconstruct (cands : (string list, unit) Hashtbl.t) (names : string list) : string list list option =
  let rec go cur acc = function
    | [] -> Some (List.rev acc)
    | n :: rest ->
      let len = List.length cur in
      let opts = ref [] in
      for k = len downto 0 do
        let path = take k cur @ [n] in
        let order_ok = k = len || compare n (List.nth cur k) > 0 in
        if order_ok && Hashtbl.mem cands path then opts := path :: !opts
      done;
      (match !opts with [p] -> go p (p :: acc) rest | _ -> None) in
  go [] [] names

type stats = { mutable plain : int; mutable mapped : int; mutable absent : int; mutable ambiguous : int;
               mutable nosrc : int; mutable nonal : int; mutable undefined : int; mutable bypath : int;
               mutable filt : int; mutable zero : int }

let () =
  register "C03.bal" (fun inp obs ->
    let (c, j) = split_input inp in
    let cfg = decode_cfg c in
    let model = run_balance inp in
    let st = { plain = 0; mapped = 0; absent = 0; ambiguous = 0; nosrc = 0; nonal = 0; undefined = 0; bypath = 0; filt = 0; zero = 0 } in
    let spec =
      match K.parse_directives (decode_journal j) with
      | K.MOk dl ->
        let v = (match cfg.bc.K.bc_valuation with Some v -> v | None -> failwith "C03 needs a valuation") in
        let missing = K.missing_price_b dl v in
        (match Drv_c01.observed_ok obs with
         | None ->
           if obs = "ERR" then begin
             (* the command may fail only for a reason: a needed price is missing (C03), or the
                journal is not accepted (C04: wellformed, proved equivalent to check_cmd_fixed),
                or the window cannot be built (the model's own error) *)
             if missing then "ok"
             else match K.check_cmd_fixed (decode_journal j) with
               | K.COk _ ->
                 if String.length model >= 3 && String.sub model 0 3 = "OK " then
                   "FAIL:the command failed although the journal is accepted and every needed price exists on its day"
                 else "ok"
               | _ -> "ok"
           end
           else "FAIL:" ^ (if String.length obs > 60 then String.sub obs 0 60 else obs)
         | Some csv ->
           if missing then "FAIL:a booking needs a price that does not exist on its day, but a report was printed"
           else begin
             let rows = List.filter (fun l -> l <> "") (String.split_on_char '\n' csv) in
             let rows = List.map (String.split_on_char ',') rows in
             let ncols = (match rows with h :: _ -> List.length h - 1 | [] -> 0) in
             (* A/L section: rows before "Total (A+L)" *)
             let rec take_al = function
               | [] -> [] | (n :: _) :: _ when n = "Total (A+L)" -> [] | r :: rest -> r :: take_al rest in
             let al_rows = take_al (match rows with _ :: t -> t | [] -> []) in
             (* the rows the journal's A/L accounts land on, each once, in journal order *)
             let targets = List.fold_left (fun acc a ->
                 match K.target_of cfg.bc a with
                 | Some b -> if List.exists (fun x -> K.acc_eqb x b) acc then acc else acc @ [b]
                 | None -> acc) [] (K.al_accounts dl) in
             let cands = Hashtbl.create 64 in
             List.iter (fun b -> let p = path_of b in
                         for k = 1 to List.length p do Hashtbl.replace cands (take k p) () done) targets;
             let names = List.map (fun r -> match r with n :: _ -> n | [] -> "") al_rows in
             let paths = reconstruct cands names in
             if paths <> None then st.bypath <- 1;
             let verdict = ref "ok" in
             let fail s = if !verdict = "ok" then verdict := s in
             (* the theorems (C03_model_meets_spec, C03_windowed_mapped) and the property speak of a window that is not
                empty: with --from after --to (or no overlap with the journal's period) there is no column to judge *)
             let window_empty =
               (let c = K.clip { K.p_start = cfg.bc.K.bc_from; K.p_end = cfg.bc.K.bc_to } (K.journal_period dl) in
                K.Z.ltb c.K.p_end c.K.p_start) in
             (* --account / --commodity: the filters are the Where predicate of the report's query, so a row shows, of
                the accounts that land on it and pass --account (sources_of), the commodities that pass --commodity;
                prices and quantities are those of the whole journal.  mtm_row_where_mapped is that expectation
                (C03_model_meets_spec_where_mapped: no hypothesis on the filters; without filters it is mtm_row_mapped,
                C03_where_mapped_unfiltered) *)
             let filtered = cfg.bc.K.bc_accounts <> [] || cfg.bc.K.bc_commodities <> [] in
             List.iter (fun b ->
               if !verdict = "ok" && not window_empty then begin
                 match K.mtm_row_where_mapped cfg.bc dl b with
                 | None -> fail "FAIL:a report was printed but the window of the specification does not exist"
                 | Some (srcs, exps) ->
                   if srcs = [] then begin
                     st.nosrc <- st.nosrc + 1;
                     (* no account that passes --account lands on b: the row, if it is printed at all (it may be an inner
                        node of the tree), is empty in every column (C03_filtered_out_row_zero) *)
                     if K.is_AL b then
                       (match paths with
                        | Some ps ->
                          let pb = path_of b in
                          (match List.filter (fun (p, _) -> p = pb) (List.combine ps al_rows) with
                           | (_, _ :: cells) :: _ ->
                             st.zero <- st.zero + 1;
                             List.iter (fun cell ->
                               if cell <> "" && not (K.within_bound (dec_of cell) (dec_of "0") (z_of_int 0)) then
                                 fail (Printf.sprintf "FAIL:row %s shows %s although no account that passes --account lands on it"
                                         (String.concat ":" pb) cell)) cells
                           | _ -> ())
                        | None -> ())
                   end
                   else if not (K.is_AL b) || List.exists (fun a -> not (K.is_AL a)) srcs then st.nonal <- st.nonal + 1
                   else begin
                     let is_mapped = not (match srcs with [a] -> K.acc_eqb a b | _ -> false) in
                     (* the printed cells of row b *)
                     let cells =
                       match paths with
                       | Some ps ->
                         let pb = path_of b in
                         (match List.filter (fun (p, _) -> p = pb) (List.combine ps al_rows) with
                          | (_, _ :: cells) :: _ -> Some cells
                          | _ -> st.absent <- st.absent + 1; Some (List.init ncols (fun _ -> "")))
                       | None ->
                         let seg = last_seg b in
                         (match List.filter (fun r -> match r with n :: _ -> n = seg | [] -> false) al_rows with
                          | [_ :: cells] -> Some cells
                          | _ -> st.ambiguous <- st.ambiguous + 1; None) in
                     match cells with
                     | None -> ()
                     | Some cells ->
                       if is_mapped then st.mapped <- st.mapped + 1 else st.plain <- st.plain + 1;
                       if filtered then st.filt <- st.filt + 1;
                       let name = String.concat ":" (path_of b) in
                       let what = if is_mapped
                         then Printf.sprintf "row %s (= %s)" name (String.concat " + " (List.map (fun a -> string_of_str (K.acc_name a)) srcs))
                         else name in
                       (try List.iter2 (fun cell (eo, n) ->
                          match eo with
                          | Some e ->
                            let o = dec_of (if cell = "" then "0" else cell) in
                            if not (K.within_bound o e n) then
                              fail (Printf.sprintf "FAIL:value of %s shown %s, mark-to-market %s (allowance %d e-8)"
                                      what (if cell = "" then "<empty>" else cell) (string_of_str (K.to_string e)) (int_of_z n))
                          | None ->
                            st.undefined <- st.undefined + 1;
                            fail (Printf.sprintf "FAIL:a report was printed but the mark-to-market value of %s is undefined: a held commodity has no price on a column date" what))
                          cells exps
                        with Invalid_argument _ -> fail "FAIL:column count")
                   end
               end) targets;
             !verdict
           end)
      | _ -> if obs = "ERR" then "ok" else "FAIL:journal rejected by the model's directive conversion"
    in
    let suffix = Printf.sprintf " ##C03 plain=%d mapped=%d absent=%d ambiguous=%d nosrc=%d nonal=%d undefined=%d bypath=%d filtered=%d zero=%d"
                   st.plain st.mapped st.absent st.ambiguous st.nosrc st.nonal st.undefined st.bypath st.filt st.zero in
    (model ^ suffix, spec))
