(* C09: print emits a normal form that round-trips.
   op C09.print    input "<cfg1> ## <cfg2> | <journal>"
        observed   "OK <P1> | reprint=.. | check=.. | bal=.."  (the binary on its own output) or ERR
        model      the same line computed by the model: P1 = print_cmd_pinned J, then reparse P1 (the
                   model's parser + ToModel), print / check / balance on the re-read directives
        spec       the observed flags say same/ok/same AND Spec.PrintSpec.normal_form_b on the
                   OBSERVED P1 (re-read by the model: accepted, printing it reproduces it)
   op C09.tomodel  input journal encoding, observed = hex of the journal text the harness writes
        model      observed if reparse text = the structured journal, else a description of the
                   first difference
   op C09.model    input hex text, observed = per syntax directive the rendering of what
                   model.ParseDirective returned; model = parse_text + ToModel.model_directive

   Two printers are modelled: K.print_cmd_pinned (journal.Print as pinned) and K.print_cmd
   (findings/C09-multi-assertion.patch).  KMODEL_C09=pinned|fixed selects one; the default
   "auto" takes the repaired printer when the observed P1 is its output and not the pinned
   printer's, the pinned one otherwise. *)
open Drv_util
open Drv_journal

let variant = (try Sys.getenv "KMODEL_C09" with Not_found -> "auto")

let hex_val c =
  match c with
  | '0' .. '9' -> Char.code c - 48
  | 'a' .. 'f' -> Char.code c - 87
  | 'A' .. 'F' -> Char.code c - 55
  | _ -> failwith "hex"

let byte_tab : K.z array = Array.init 256 z_of_int

let text_of_hex (s : string) : K.z list =
  let n = String.length s / 2 in
  let rec go i acc =
    if i < 0 then acc
    else go (i - 1) (byte_tab.(16 * hex_val s.[2 * i] + hex_val s.[2 * i + 1]) :: acc) in
  go (n - 1) []

let hex_of (s : string) : string =
  if s = "" then "-" else
  String.concat "" (List.init (String.length s) (fun i -> Printf.sprintf "%02x" (Char.code s.[i])))

let render_posting (p : K.posting) : string =
  Printf.sprintf "%s %s %s %s"
    (string_of_str (K.acc_name p.K.p_acc)) (string_of_str (K.acc_name p.K.p_other))
    (string_of_str p.K.p_com) (string_of_str (K.to_string p.K.p_qty))

let render_txn (t : K.txn) : string =
  let targets = match t.K.t_targets with
    | None -> "-"
    | Some cs -> "=" ^ String.concat "," (List.map string_of_str cs) in
  Printf.sprintf "%s|%s|%s|%s" (Drv_c11.fmt_date t.K.t_date) (hex_of (string_of_str t.K.t_desc)) targets
    (String.concat "," (List.map render_posting t.K.t_postings))

let first_diff (a : string) (b : string) : int =
  let n = min (String.length a) (String.length b) in
  let rec go i = if i < n && a.[i] = b.[i] then go (i + 1) else i in
  go 0

(* split "OK <P1> | reprint=.. | check=.. | bal=.." from the right *)
let split_observed (obs : string) : (string * string * string * string) option =
  match prefix_strip "OK " obs with
  | None -> None
  | Some rest ->
    let parts = split_str " | " rest in
    let n = List.length parts in
    if n < 4 then None else
    let rec take k l = if k = 0 then [] else match l with x :: t -> x :: take (k - 1) t | [] -> [] in
    let rec drop k l = if k = 0 then l else match l with _ :: t -> drop (k - 1) t | [] -> [] in
    let p1 = String.concat " | " (take (n - 3) parts) in
    (match drop (n - 3) parts with
     | [a; b; c] -> Some (unesc p1, a, b, c)
     | _ -> None)

let flags (pr : K.sdirective list -> K.z list K.cresult) (cfgs : cfg list) (ds : K.sdirective list) (text : K.z list) : string =
  let rp = K.ToModelM.reparse text in
  let reprint = match rp with
    | K.MOk ds' ->
      (match pr ds' with
       | K.COk t2 -> if t2 = text then "same" else Printf.sprintf "diff@%d" (first_diff (string_of_str text) (string_of_str t2))
       | K.CErr _ -> "ERR" | K.CPanic _ -> "PANIC")
    | K.MErr _ -> "ERR" | K.MPanic _ -> "PANIC" in
  let check = match rp with
    | K.MOk ds' ->
      (match K.check_cmd true ds' with K.COk _ -> "ok" | K.CErr _ -> "ERR" | K.CPanic _ -> "PANIC")
    | K.MErr _ -> "ERR" | K.MPanic _ -> "PANIC" in
  let bal =
    let rec go k = function
      | [] -> "same"
      | c :: rest ->
        let a = render_result (K.balance_csv c.bc ds) in
        let b = match rp with
          | K.MOk ds' -> render_result (K.balance_csv c.bc ds')
          | K.MErr _ -> "ERR" | K.MPanic _ -> "PANIC" in
        if a = b then go (k + 1) rest else Printf.sprintf "diff@%d" k in
    go 0 cfgs in
  " | reprint=" ^ reprint ^ " | check=" ^ check ^ " | bal=" ^ bal

let () =
  register "C09.print" (fun inp obs ->
    let (c, j) = split_input inp in
    let cfgs = List.map (fun s -> decode_cfg s) (split_str " ## " c) in
    let ds = decode_journal j in
    let pinned = K.print_cmd_pinned true and fixed = K.print_cmd true in
    let so = split_observed obs in
    let pr = match variant with
      | "pinned" -> pinned
      | "fixed" -> fixed
      | _ ->
        (match so, pinned ds, fixed ds with
         | Some (p1, _, _, _), K.COk a, K.COk b when string_of_str a <> p1 && string_of_str b = p1 -> fixed
         | _ -> pinned) in
    let model = match pr ds with
      | K.COk text -> "OK " ^ esc (string_of_str text) ^ flags pr cfgs ds text
      | K.CErr _ -> "ERR"
      | K.CPanic m -> "PANIC " ^ string_of_str m in
    let spec = match so with
      | None -> if obs = "ERR" then "ok" (* the journal is not accepted: outside C09 *) else "FAIL:print did not run: " ^ (if String.length obs > 60 then String.sub obs 0 60 else obs)
      | Some (p1, a, b, c) ->
        let bad = List.filter (fun (x, want) -> x <> want) [(a, "reprint=same"); (b, "check=ok"); (c, "bal=same")] in
        if bad <> [] then "FAIL:the binary on its own print output: " ^ String.concat " " (List.map fst bad)
        else if not (K.normal_form_b pr (str_of_string p1)) then "FAIL:normal_form_b (model re-reading the observed output)"
        else if not (List.for_all (fun cf -> K.same_report_b cf.bc ds (str_of_string p1)) cfgs) then "FAIL:same_report_b"
        else "ok" in
    (model, spec));

  register "C09.tomodel" (fun inp obs ->
    let ds = decode_journal inp in
    let text = text_of_hex obs in
    let model = match K.ToModelM.reparse text with
      | K.MOk ds' ->
        if ds' = ds then obs
        else
          let rec go k a b = match a, b with
            | x :: a', y :: b' -> if x = y then go (k + 1) a' b' else Printf.sprintf "MISMATCH at directive %d" k
            | [], [] -> "MISMATCH?"
            | _ -> Printf.sprintf "MISMATCH in length at %d" k in
          go 0 ds' ds
      | K.MErr m -> "ERR " ^ string_of_str m
      | K.MPanic m -> "PANIC " ^ string_of_str m in
    (model, "ok"));

  let render_directive (d : K.directive) : string =
    match d with
    | K.DPrice (dt, c, p, t) ->
      Printf.sprintf "P %s %s %s %s" (Drv_c11.fmt_date dt) (string_of_str c) (string_of_str (K.to_string p)) (string_of_str t)
    | K.DOpen (dt, a) -> Printf.sprintf "O %s %s" (Drv_c11.fmt_date dt) (string_of_str (K.acc_name a))
    | K.DClose (dt, a) -> Printf.sprintf "C %s %s" (Drv_c11.fmt_date dt) (string_of_str (K.acc_name a))
    | K.DAssert (dt, bs) ->
      Printf.sprintf "A %s %s" (Drv_c11.fmt_date dt)
        (String.concat "," (List.map (fun b ->
          Printf.sprintf "%s %s %s" (string_of_str (K.acc_name b.K.bal_acc)) (string_of_str (K.to_string b.K.bal_qty))
            (string_of_str b.K.bal_com)) bs))
    | K.DTxn t -> "T " ^ render_txn t in
  register "C09.model" (fun inp _obs ->
    let text = text_of_hex inp in
    let model = match K.SynM.parse_text K.UnicodeM.is_letter K.UnicodeM.is_digit text with
      | K.SynM.ParseErr _ -> "SYNTAX"
      | K.SynM.ParseFuel -> "OUTOFFUEL"
      | K.SynM.ParseOk f ->
        String.concat " " (List.map (fun d ->
          match K.ToModelM.model_directive text d with
          | K.MOk ds -> "[" ^ String.concat ";" (List.map render_directive ds) ^ "]"
          | K.MErr m -> "ERR:" ^ string_of_str m
          | K.MPanic m ->
            (* ToModel goes through the expansion of Model/Ledger.v as pinned, which panics on an accrual period
               that is empty (div0) or starts at the zero date (zerotime); since fix f4c5740 transaction.expand
               reports both as syntax errors (class "decimal" in the observer's classification), which is what
               Model/CliSafe.txn_create_safe returns (C14_repaired_agrees) *)
            let m = string_of_str m in
            if m = "div0" || m = "zerotime" then "ERR:decimal" else "PANIC") f.K.SynM.f_directives) in
    (model, "ok"))
