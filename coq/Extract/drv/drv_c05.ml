(* C05 / C06: metamorphic runs of the binary (variants, repetitions).  The implementation's own
   outputs are compared with each other in the observer; the model contributes the predicted
   class and, for single-file inputs, is compared byte-for-byte elsewhere (C01, C02, core.print). *)
open Drv_util
open Drv_journal

let contains s sub =
  try ignore (Str.search_forward (Str.regexp_string sub) s 0); true with Not_found -> false

let last_part obs =
  match List.rev (split_str " | " obs) with x :: _ -> x | [] -> ""

let () =
  (* input "<cfg> & <cfg> & <cfg> # seed kp ks | journal"; model: the check verdict of the journal *)
  register "C05.variants" (fun inp obs ->
    let (_, j) = split_input inp in
    let cls = (match K.check_cmd_fixed (decode_journal j) with K.COk _ -> "OK" | K.CErr _ -> "ERR" | K.CPanic _ -> "PANIC") in
    let model = "check=" ^ cls in
    let spec = if last_part obs = "variants=same" then "ok" else "FAIL:" ^ last_part obs in
    (model, spec));
  List.iter (fun op -> register op (fun _inp obs ->
    let spec = if last_part obs = "runs=same" then "ok" else "FAIL:" ^ last_part obs in
    ("-", spec))) ["C06.repeat"; "C06.import"; "C06.cmd"]
