(* C18: syscall traces of `knut format` / `knut infer --inplace` judged by the extracted safe_trace
   (Model/AtomicFS.v; Properties/C18.v C18_safe), fault-injection outcomes compared with the extracted
   protocol.  cmd=infer with two files: the first is the training file, which the command only reads
   (a path of no job in C18_interleaving_any_dir): it must end old, no operation may touch it, and it
   has no part in the exit status. *)
open Drv_util

let rec n_of_int (n : int) : K.n = if n = 0 then K.N0 else K.Npos (pos_of_int n)

let bytes_of_string (s : string) : K.n list =
  List.init (String.length s) (fun i -> n_of_int (Char.code s.[i]))

let unhex (h : string) : string =
  String.init (String.length h / 2) (fun i -> Char.chr (int_of_string ("0x" ^ String.sub h (2 * i) 2)))

(* the escaping of harness/vutil.go *)
let unesc (s : string) : string =
  let b = Buffer.create (String.length s) in
  let i = ref 0 in
  let n = String.length s in
  while !i < n do
    (if s.[!i] = '\\' && !i + 1 < n then begin
       incr i;
       Buffer.add_char b (match s.[!i] with
         | 'n' -> '\n' | 't' -> '\t' | 'r' -> '\r' | 'p' -> '|' | 's' -> ';' | c -> c)
     end else Buffer.add_char b s.[!i]);
    incr i
  done;
  Buffer.contents b

let kv_fields (sep : char) (s : string) : (string * string) list =
  List.filter_map (fun f ->
    match String.index_opt f '=' with
    | Some i -> Some (String.sub f 0 i, String.sub f (i + 1) (String.length f - i - 1))
    | None -> None) (String.split_on_char sep s)
let get kv k = try List.assoc k kv with Not_found -> ""

let rec pairs = function a :: b :: r -> (unesc a, unesc b) :: pairs r | _ -> []

let nat = nat_of_int

(* "C1" "W1:hex" "F1" "X1" "M1" "R1>0" "U1" "T0" "WT:hex" "O" *)
let parse_op (s : string) : K.op =
  let num t = nat (int_of_string t) in
  if s = "O" then K.Other
  else if String.length s >= 3 && String.sub s 0 3 = "WT:" then
    K.WriteTgt (bytes_of_string (unhex (String.sub s 3 (String.length s - 3))))
  else
    let rest = String.sub s 1 (String.length s - 1) in
    match s.[0] with
    | 'C' -> K.Create (num rest)
    | 'W' -> (match String.split_on_char ':' rest with
              | [p; h] -> K.Write (num p, bytes_of_string (unhex h))
              | _ -> failwith ("op " ^ s))
    | 'F' -> K.Fsync (num rest)
    | 'X' -> K.Close (num rest)
    | 'M' -> K.Chmod (num rest)
    | 'U' -> K.Unlink (num rest)
    | 'T' -> K.OpenTrunc (num rest)
    | 'R' -> (match String.split_on_char '>' rest with
              | [p; q] -> K.Rename (num p, num q)
              | _ -> failwith ("op " ^ s))
    | _ -> failwith ("op " ^ s)

let class_name (c : K.nat) = match int_of_nat c with 0 -> "old" | 1 -> "new" | _ -> "other"

(* the expected new contents: hex, or "#<length>" for the multi-megabyte cases (big=): only the length is used there *)
let new_of (nw : string) : string =
  if String.length nw > 0 && nw.[0] = '#' then String.make (int_of_string (String.sub nw 1 (String.length nw - 1))) 'x'
  else unhex nw

let judge (inp : string) (obs : string) : string * string =
  let ikv = kv_fields ';' inp in
  let mode = get ikv "mode" in
  let limit = (try int_of_string (get ikv "limit") with _ -> 0) in
  let files = pairs (String.split_on_char '|' (get ikv "files")) in
  let readonly name =
    get ikv "cmd" = "infer" && List.length files >= 2 && name = fst (List.hd files) in
  let sep = (try Str.search_forward (Str.regexp_string " ## ") obs 0 with Not_found -> String.length obs) in
  let head = String.sub obs 0 sep in
  let det = if sep + 4 <= String.length obs then String.sub obs (sep + 4) (String.length obs - sep - 4) else "" in
  let okv = kv_fields ' ' head in
  let exit_ = get okv "exit" and left = get okv "left" in
  let finals = List.filter_map (fun f ->
    match String.split_on_char ':' f with [n; c] -> Some (n, c) | _ -> None) (split_on ',' (get okv "finals")) in
  let details = List.filter_map (fun d ->
    match String.split_on_char '^' d with
    | [n; p; nw; ops] -> Some (n, (p = "1", new_of nw, split_on ',' ops))
    | [n; p; nw] -> Some (n, (p = "1", new_of nw, []))
    | _ -> None) (String.split_on_char '|' det) in
  let fails = ref [] in
  let fail s = fails := s :: !fails in
  let tgt = nat 0 and tmp = nat 1 in
  (* expected final class per file from the extracted protocol *)
  let expected = List.map (fun (name, old) ->
    let (parses, nw, _) = (try List.assoc name details with Not_found -> (false, "", [])) in
    if not parses then (name, "old")
    else if get ikv "big" <> "" then
      (* a journal of several megabytes: the extracted protocol is not evaluated on 5 * 10^6 list cells; the expected
         class is what C18_protocol proves of it -- new iff no fault, old otherwise *)
      (name, if mode = "rlimit" && String.length nw > limit then "old" else "new")
    else
      let oldb = bytes_of_string old and newb = bytes_of_string nw in
      let flt =
        if mode = "rodir" || String.length name >= 250 then K.FailCreate
        else if mode = "rlimit" && String.length nw > limit then K.FailWrite (nat limit)
        else K.NoFault in
      let tr = K.atomic_write tmp tgt newb true [] flt in
      if not (K.safe_trace tgt oldb newb tr) then fail ("model-protocol-unsafe:" ^ name);
      (name, class_name (K.target_class tgt oldb newb tr))) files in
  let all_fit = List.for_all (fun (name, _) ->
    let (parses, nw, _) = (try List.assoc name details with Not_found -> (false, "", [])) in
    readonly name ||
    (parses && mode <> "rodir" && String.length name < 250 && not (mode = "rlimit" && String.length nw > limit))) files in
  let model = Printf.sprintf "exit=%s left=0 finals=%s" (if all_fit then "0" else "1")
      (String.concat "," (List.map (fun (n, c) -> n ^ ":" ^ c) expected)) in
  (* the property on the implementation's behaviour *)
  List.iter (fun (name, old) ->
    let (parses, nw, ops) = (try List.assoc name details with Not_found -> (false, "", [])) in
    let final = (try List.assoc name finals with Not_found -> "missing") in
    if final <> "old" && final <> "new" then fail (Printf.sprintf "%s:%s" name final);
    if readonly name && final <> "old" then fail (name ^ ":training-file-changed")
    else if not parses && final <> "old" then fail (name ^ ":unparseable-file-changed");
    if mode = "strace" then begin
      if readonly name then (if ops <> [] then fail (name ^ ":ops-on-training-file"))
      else if not parses then (if ops <> [] then fail (name ^ ":ops-on-unparseable-file"))
      else begin
        let oldb = bytes_of_string old and newb = bytes_of_string nw in
        let tr = List.map parse_op ops in
        if not (K.safe_trace tgt oldb newb tr) then fail (name ^ ":safe_trace");
        if not (K.renamed_to tgt tr) then fail (name ^ ":no-rename");
        if class_name (K.target_class tgt oldb newb tr) <> final then fail (name ^ ":trace-final-mismatch")
      end
    end) files;
  (* left-over temporary files are compared with the model (left=0: C18_protocol proves the protocol removes its
     temp file) but are no verdict: the property speaks of the contents of the journal files only *)
  if exit_ = "HANG" then fail "hang";
  (model, if !fails = [] then "ok" else "FAIL:" ^ String.concat "," (List.rev !fails))

let () =
  register "C18.trace" judge;
  register "C18.fault" judge
