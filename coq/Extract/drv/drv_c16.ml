(* C16: knut transcode -v V emits a balanced, self-consistent beancount ledger.
   model output = the bytes of Model.CliTranscode.transcode_cmd; spec verdict = the extracted
   Spec.BeancountSpec.c16_verdict (reader + balanced/chronological/open-close checks +
   completeness against the journal) with the mark-to-market clause of Spec.BeancountMtmSpec (no value
   adjustment lost or doubled: account totals = market value) evaluated on the BINARY's stdout. *)
open Drv_util
open Drv_journal

let valuation_of (cfg : string) : K.z list option =
  let c = String.trim cfg in
  match prefix_strip "val=" c with
  | Some "-" | Some "" | None -> None
  | Some v -> Some (str_of_string v)

let () =
  register "C16.transcode" (fun inp obs ->
    let (c, j) = split_input inp in
    let v = valuation_of c in
    let ds = decode_journal j in
    let model = render_result (K.transcode_cmd true v ds) in
    (* the reader applied to the model's own text must give back the model's items; otherwise
       the theorems (about items) and the spec verdict (about text) would talk past each other.
       That is a theorem (Properties/C16.v C16_model_text_roundtrip) under the lexical side
       conditions journal_lex_b / commodity_lex_b, which are evaluated here on every case; only a
       case outside them (none is generated) is still tested with roundtrip_b. *)
    let lex_ok = match v with
      | Some vc -> K.commodity_lex_b vc &&
          (match K.parse_directives ds with K.MOk dl -> K.journal_lex_b dl | _ -> true)
      | None -> true in
    let roundtrip_ok = lex_ok || (match v with
      | Some vc -> (match K.transcode_days true vc ds with
          | K.COk days -> K.roundtrip_b vc days
          | _ -> true)
      | None -> true) in
    let spec =
      if not roundtrip_ok then "FAIL:reader-roundtrip reading the model's text does not give back the model's entries"
      else match prefix_strip "OK " obs with
        | Some s ->
          (match v with
           | Some vc -> string_of_str (K.c16_verdict_mtm ds vc (str_of_string (unesc s)))
           | None -> string_of_str (K.c16_verdict ds (str_of_string (unesc s))))
        | None ->
          if obs = "ERR" then "ok"                       (* journal or prices rejected: outside C16 *)
          else if v = None && prefix_strip "PANIC" obs <> None then "ok"   (* no -v: C14's finding, see findings/ *)
          else "FAIL:" ^ (if String.length obs > 60 then String.sub obs 0 60 else obs) in
    (model, spec))
