(* C10: transaction.Create with an @accrue annotation (accrual expansion) *)
open Drv_util
open Drv_journal

let hex_of (s : string) : string =
  if s = "" then "-" else
  String.concat "" (List.init (String.length s) (fun i -> Printf.sprintf "%02x" (Char.code s.[i])))

let render_posting (p : K.posting) : string =
  Printf.sprintf "%s %s %s %s"
    (string_of_str (K.acc_name p.K.p_acc)) (string_of_str (K.acc_name p.K.p_other))
    (string_of_str p.K.p_com) (string_of_str (K.to_string p.K.p_qty))

let render_txn (t : K.txn) : string =
  let targets = match t.K.t_targets with
    | None -> "-"
    | Some cs -> "=" ^ String.concat "," (List.map string_of_str cs) in
  Printf.sprintf "%s|%s|%s|%s" (Drv_c11.fmt_date t.K.t_date) (hex_of (string_of_str t.K.t_desc)) targets
    (String.concat "," (List.map render_posting t.K.t_postings))

let render_txns ts = String.concat ";" (List.map render_txn ts)

let parse_posting (s : string) : K.posting =
  match fields s with
  | [a; o; c; q] -> { K.p_acc = acc_of a; K.p_other = acc_of o; K.p_com = str_of_string c;
                      K.p_qty = dec_of q; K.p_val = K.dec_nil }
  | _ -> failwith ("posting " ^ s)

let parse_txn (s : string) : K.txn =
  match String.split_on_char '|' s with
  | [d; desc; targets; ps] ->
    let tg = if targets = "-" then None
      else Some (List.map str_of_string (split_on ',' (String.sub targets 1 (String.length targets - 1)))) in
    { K.t_date = Drv_c11.parse_date d; K.t_desc = str_of_string (unhex desc);
      K.t_postings = List.map parse_posting (split_on ',' ps); K.t_targets = tg }
  | _ -> failwith ("txn " ^ s)

let parse_txns (s : string) : K.txn list = List.map parse_txn (split_on ';' s)

let clause = function
  | 1 -> "a generated transaction does not balance"
  | 2 -> "an account's total differs from what the source transaction booked (conservation)"
  | 3 -> "the accrual account does not net to zero"
  | 4 -> "dates/descriptions/number of parts differ from the periods of the window"
  | 5 -> "performance targets not copied"
  | n -> "clause " ^ string_of_int n

(* KMODEL_C10=pinned compares against the model of the pinned code (transaction.go with
   IsAL()); the default is the repaired expansion the theorems are about *)
let use_pinned = (try Sys.getenv "KMODEL_C10" = "pinned" with Not_found -> false)

let () =
  register "C10.create" (fun inp obs ->
    match decode_directive inp with
    | Some (K.STxn s) ->
      let ends = match s.K.st_accrual with
        | Some ac ->
          (match K.new_partition { K.p_start = ac.K.ac_start; K.p_end = ac.K.ac_end } ac.K.ac_interval K.Z0 with
           | K.POk part -> K.end_dates part
           | _ -> [])
        | None -> [] in
      let in_hypothesis = match s.K.st_accrual with
        | Some ac -> ac.K.ac_start <> K.Z0 && K.Z.leb ac.K.ac_start ac.K.ac_end
        | None -> true in
      let verdict ts = match s.K.st_accrual with
        | Some ac -> int_of_z (K.accrual_verdict s ac ends ts)
        | None -> 0 in
      let model =
        match K.txn_create_gen (if use_pinned then K.rebook_pinned else K.rebook_fixed) s with
        | K.MOk ts ->
          let v = if use_pinned then 0 else verdict ts in
          render_txns ts ^ (if v = 0 then "" else "!model-fails-spec-clause-" ^ string_of_int v)
        | K.MErr _ -> "ERR"
        | K.MPanic _ -> "PANIC" in
      let spec =
        if obs = "ERR" then "ok"                (* nothing was generated; rejection is not C10's subject *)
        else if obs = "PANIC" then (if in_hypothesis then "FAIL:panic on a non-empty window" else "ok")
        else if obs = "BADINPUT" then "FAIL:harness could not build the input"
        else match (try Some (parse_txns obs) with Failure _ -> None) with
          | None -> "FAIL:unparseable observation"
          | Some ts -> (match verdict ts with 0 -> "ok" | n -> "FAIL:" ^ clause n) in
      (model, spec)
    | _ -> ("BADINPUT", "FAIL:not a transaction"))
