(* C13 (group B): importers revolut2, revolut, wise, swissquote, interactivebrokers.
   input  = "<flags> | <hex file> | <items>"   (see harness/c13b.go)
   model  = the importer model run on the items (the records Go's reader delivered)
            (csv-records: for the importers with a plain csv reader the items are also derived from the statement's
             bytes <hex file> with the extracted reader model Model/Csv.v, Model/CsvImp.v, and must be the same)
   spec   = evaluated on the binary's output by the observer (it needs `knut print`), which
            appends " | print=... | rows=..." to the observation; here that is turned into
            the verdict (as in drv_c13a.ml).  The statement-level specification
            (Spec/ImpSpecIB.v, Spec/ImpStmtB.v; theorems C13_<importer>_stdout) is evaluated as
            well: a statement the generator calls well-formed must satisfy ibs_wf resp.
            <importer>_statement_wf, and the binary's stdout must be <importer>_statement_output
            of the records. *)
open Drv_util
open Drv_journal
open Drv_c13a

(* the account flags each command requires (cobra rejects a missing one before run()) and, in
   resolution order, the flags handed to the model *)
let flag_order = function
  | "revolut2" -> ["acct"; "fee"]
  | "revolut" -> ["acct"]
  | "wise" -> ["acct"; "fee"; "trading"]
  | "swissquote" -> ["acct"; "div"; "int"; "tax"; "fee"; "trading"]
  | "interactivebrokers" -> ["acct"; "int"; "div"; "tax"; "fee"; "trading"]
  | imp -> failwith ("unknown importer " ^ imp)

let required = function
  | "wise" -> ["acct"; "fee"]
  | imp -> flag_order imp

(* wise, IN with conversion: false = the code as it stands; set to true (or run with
   C13_WISE_REPAIRED=1) once findings/C13-wise-incoming-conversion.patch or an equivalent fix is applied *)
let wise_repaired = true  (* the code since the fix of findings/C13-wise-incoming-conversion.md; false = as pinned *)

let run_b (imp : string) (inp : string) (obs : string) : string * string =
  let (fl, hex, items) = split3 inp in
  let flags = flag_assoc fl in
  let get k = try List.assoc k flags with Not_found -> "-" in
  let kind = get "kind" in
  let flag k = opt_flag (get k) in
  let model =
    if List.exists (fun k -> flag k = None) (required imp) then "ERR"
    else
      let a k = str_of_string (match flag k with Some s -> s | None -> "") in
      let its = decode_items items in
      render (match imp with
        | "revolut2" -> K.run_revolut2 (a "acct") (a "fee") its
        | "revolut" -> K.run_revolut (a "acct") its
        | "swissquote" -> K.run_swissquote (a "acct") (a "div") (a "int") (a "tax") (a "fee") (a "trading") its
        | "interactivebrokers" ->
          K.run_interactivebrokers (a "acct") (a "int") (a "div") (a "tax") (a "fee") (a "trading") its
        | "wise" -> K.run_wise wise_repaired (a "acct") (a "fee") (a "trading") its
        | _ -> failwith ("unknown importer " ^ imp)) in
  let (base, pr, rows) = split_observed obs in
  let cls = match String.index_opt base ' ' with Some i -> String.sub base 0 i | None -> base in
  (* the executable statement-level specification (Spec/ImpSpecIB.v, Spec/ImpStmtB.v) on the binary's stdout *)
  let statement_spec () =
    let acc k = match K.account_flag (str_of_string (match flag k with Some s -> s | None -> "")) with
      | K.AAcc x -> Some x | _ -> None in
    let recs = records_of (decode_items items) in
    let undecoded = "FAIL:" ^ imp ^ "_statement_wf: account flags or records of a well-formed case do not decode" in
    match imp, recs with
    | "interactivebrokers", Some rs ->
      (match acc "acct", acc "div", acc "int", acc "tax", acc "fee", acc "trading" with
       | Some a, Some d, Some i, Some w, Some f, Some t ->
         (match K.ibs_statement_output a d i w f t rs with
          | None -> "FAIL:ibs_wf: the statement is outside the hypothesis of C13_interactivebrokers_faithful"
          | Some out ->
            if "OK " ^ esc (string_of_str out) = base then "ok"
            else "FAIL:ibs_statement_output: stdout is not the journal of the statement's items")
       | _ -> "FAIL:ibs_wf: account flags or records of a well-formed case do not decode")
    | "revolut2", Some rs ->
      (match acc "acct", acc "fee" with
       | Some a, Some f -> statement_verdict imp base (K.r2_statement_output a f rs)
       | _ -> undecoded)
    | "revolut", Some rs ->
      (match acc "acct" with
       | Some a -> statement_verdict imp base (K.rv_statement_output a rs)
       | _ -> undecoded)
    | "wise", Some rs ->
      (match acc "acct", acc "fee", acc "trading" with
       | Some a, Some f, Some t -> statement_verdict imp base (K.ws_statement_output wise_repaired a f t rs)
       | _ -> undecoded)
    | "swissquote", Some rs ->
      (match acc "acct", acc "div", acc "int", acc "tax", acc "fee", acc "trading" with
       | Some a, Some d, Some i, Some w, Some f, Some t -> statement_verdict imp base (K.sqs_statement_output a d i w f t rs)
       | _ -> undecoded)
    | _ -> undecoded in
  let spec =
    if kind = "wf" then
      if cls <> "OK" then "FAIL:well-formed statement not imported: " ^ clip 60 base
      else
        (* the statement-level verdict is evaluated whatever the observer's verdicts say (a known finding of the
           row reader, e.g. cumulus' payment rows, must not hide a wrong journal) *)
        let st = statement_spec () in
        let also = if st = "ok" then "" else "; " ^ String.sub st 5 (String.length st - 5) in
        if pr <> "ok" && rows <> "ok" then "FAIL:print=" ^ pr ^ "; rows=" ^ rows ^ also
        else if pr <> "ok" then "FAIL:print=" ^ pr ^ also
        else if rows <> "ok" then "FAIL:rows=" ^ rows ^ also
        else st
    else "ok" (* a damaged statement or flag: outside C13; model and binary are still compared *) in
  (* the records the importer model starts from are the records the csv model (Model/Csv.v, Model/CsvImp.v) reads from
     the statement's bytes: all five importers, every kind of case *)
  let spec = match csv_records_verdict imp hex items with "" -> spec | v -> v in
  let model_line = if model = "PANIC" && cls = "PANIC" then base else model in
  (model_line ^ " | print=" ^ pr ^ " | rows=" ^ rows, spec)

(* op C13.revolut2files: `knut import revolut2 A B`: input = the case of statement A ++ " ## " ++ hex of B ++ " | " ++
   items of B; the model imports each file on its own (Model/Imp/Revolut2Files.v, C13_revolut2_files); the verdict
   demands the binary's journal to be that one: nothing of one statement may appear for another *)
let run_files (inp : string) (obs : string) : string * string =
  match split_str " ## " inp with
  | [first; second] ->
    let (fl, hex1, items1) = split3 first in
    let (hex2, items2) = (match split_str " | " second with [h; it] -> (h, it) | _ -> ("-", "")) in
    let flags = flag_assoc fl in
    let get k = try List.assoc k flags with Not_found -> "-" in
    let flag k = opt_flag (get k) in
    let a k = str_of_string (match flag k with Some s -> s | None -> "") in
    let model = render (K.run_revolut2_files (a "acct") (a "fee") [decode_items items1; decode_items items2]) in
    let (base, pr, _) = split_observed obs in
    let cls = match String.index_opt base ' ' with Some i -> String.sub base 0 i | None -> base in
    let spec =
      if cls <> "OK" then "FAIL:well-formed statements not imported: " ^ clip 60 base
      (* (no print verdict: two generated statements assert independent running balances of one account) *)
      else if base <> model then "FAIL:the journal of two statements is not the journal of the first followed by the journal of the second"
      else "ok" in
    let spec = match csv_records_verdict "revolut2" hex1 items1, csv_records_verdict "revolut2" hex2 items2 with
      | "", "" -> spec | "", v | v, _ -> v in
    (model ^ " | print=" ^ pr ^ " | rows=na", spec)
  | _ -> failwith "C13.revolut2files input"

let () =
  register "C13.revolut2files" run_files;
  List.iter (fun imp -> register ("C13." ^ imp) (run_b imp))
    ["revolut2"; "revolut"; "wise"; "swissquote"; "interactivebrokers"]
