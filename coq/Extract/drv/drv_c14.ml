(* C14: commands fail cleanly.  input: "<cmd> # <flagspec> # <tree>" (harness/c14.go),
   observed: "class=OK|ERR|PANIC|HANG|OOM|EXIT<n> stdout_empty=0|1 stderr_nonempty=0|1 [sig=...]".
   spec verdict: Spec.FailSpec.clean_run_b on the observation.
   model output: the class predicted by the repaired model (Model/CliSafe.v, Model/CliSafeMore.v
   on Model/Loader.v) when the case lies inside the modelled space (flagspec "pred", "bal ...",
   "tc ...", "pfw ...", "pfwt ...", "pfr ..."), "-" otherwise. *)
open Drv_util
open Drv_journal

let report_cmds = ["balance"; "print"; "transcode"; "infer"; "check"]

let kv_of (obs : string) : (string * string) list =
  List.filter_map (fun t -> match String.index_opt t '=' with
    | Some i -> Some (String.sub t 0 i, String.sub t (i + 1) (String.length t - i - 1))
    | None -> None) (fields obs)

let class_of (s : string) : K.run_class =
  match s with
  | "OK" -> K.ClOK | "ERR" -> K.ClERR | "PANIC" -> K.ClPANIC | "HANG" -> K.ClHANG | "OOM" -> K.ClOOM
  | _ -> K.ClEXIT

let decode_items (body : string) : K.LoaderM.item list =
  List.filter_map (fun it ->
    let it = String.trim it in
    if it = "" then None
    else match prefix_strip "I " it with
      | Some h -> Some (K.LoaderM.IInc (str_of_string (unhex (String.trim h))))
      | None -> (match decode_directive it with Some d -> Some (K.LoaderM.IDir d) | None -> None))
    (split_str " ; " body)

(* the tree as the model's file system; raw files (F) in a predicted case are unparseable by
   the generator's contract, U and D cannot be read *)
let decode_tree (tree : string) : (K.z list list * K.LoaderM.fcontent) list * K.z list list =
  let entries = List.filter_map (fun e ->
    match String.split_on_char ':' e with
    | [k; p; c] ->
      let path = K.LoaderM.path_of_string (str_of_string (unhex p)) in
      let content = if k = "J" then K.LoaderM.FOk (decode_items (unhex c)) else K.LoaderM.FBad in
      Some (path, content)
    | _ -> None) (fields tree) in
  let root = match entries with (p, _) :: _ -> p | [] -> K.LoaderM.path_of_string (str_of_string "missing.knut") in
  (entries, root)

(* PfCfg.Enc() of harness/c20.go (the decoder of drv_c20.ml is linked after this file) *)
let decode_pf (s : string) : K.pf_cfg =
  let kv = kv_of s in
  let g k = try List.assoc k kv with Not_found -> "-" in
  let universe =
    let u = g "uni" in
    if u = "-" || u = "" then None else
    Some (List.filter_map (fun cl ->
      match String.rindex_opt cl '=' with
      | Some i -> Some (str_of_string (String.sub cl 0 i),
                        List.map str_of_string (String.split_on_char ',' (String.sub cl (i + 1) (String.length cl - i - 1))))
      | None -> None) (String.split_on_char ';' u)) in
  { K.pc_from = date_of (g "from"); K.pc_to = date_of (g "to");
    K.pc_interval = Drv_c11.interval_of_string (g "iv");
    K.pc_last = z_of_int (try int_of_string (g "last") with _ -> 0);
    K.pc_valuation = (if g "val" = "-" then None else Some (str_of_string (g "val")));
    K.pc_accounts = List.map rx_of (list_dec (g "acc"));
    K.pc_commodities = List.map rx_of (list_dec (g "com"));
    K.pc_mapping = List.map rule_of (list_dec (g "map"));
    K.pc_alpha = (g "alpha" = "1");
    K.pc_universe = universe;
    K.pc_lenient = true }

(* the tree of a flag-family case ("flg ..."): its raw files are read with the model's parser
   (ToModel.reparse: syntax.ParseFile and the conversion to model directives).  [exact] is false
   when a file parses but holds an include directive (not followed here) or fails in the
   conversion only: format and infer work on the syntax tree, for them such a file is good *)
let decode_tree_parsed (tree : string) : (K.z list list * K.LoaderM.fcontent) list * bool =
  let exact = ref true in
  let entries = List.filter_map (fun e ->
    match String.split_on_char ':' e with
    | [k; p; c] ->
      let path = K.LoaderM.path_of_string (str_of_string (unhex p)) in
      let content =
        if k = "J" then K.LoaderM.FOk (decode_items (unhex c))
        else if k = "F" then
          (match K.ToModelM.reparse (str_of_string (unhex c)) with
           | K.MOk ds ->
             if List.exists (fun d -> d = K.SInclude) ds then exact := false;
             K.LoaderM.FOk (List.map (fun d -> K.LoaderM.IDir d) ds)
           | K.MErr k -> if string_of_str k <> "syntax" then exact := false; K.LoaderM.FBad
           | K.MPanic _ -> exact := false; K.LoaderM.FBad)
        else K.LoaderM.FBad in
      Some (path, content)
    | _ -> None) (fields tree) in
  (entries, !exact)

let command_of = function
  | "check" -> Some K.FlagsM.CmdCheck | "balance" -> Some K.FlagsM.CmdBalance | "print" -> Some K.FlagsM.CmdPrint
  | "format" -> Some K.FlagsM.CmdFormat | "infer" -> Some K.FlagsM.CmdInfer | "transcode" -> Some K.FlagsM.CmdTranscode
  | "weights" -> Some K.FlagsM.CmdWeights | "returns" -> Some K.FlagsM.CmdReturns | _ -> None

(* date.Today() as the default of --to: any day after the last day of the generated journals gives the
   same report (the window is clipped to the journal's period); the model is given 9999-12-31 *)
let today_z = Drv_c11.parse_date "9999-12-31"

let string_of_pred = function K.CliSafeM.PredOK -> "OK" | K.CliSafeM.PredERR -> "ERR" | K.CliSafeM.PredPANIC -> "PANIC"

let () =
  register "C14.run" (fun inp obs ->
    let (cmd, flags, tree) =
      match split_str " # " inp with
      | [a; b; c] -> (a, b, c)
      | [a; b] -> (a, b, "")
      | a :: b :: rest -> (a, b, String.concat " # " rest)
      | [a] -> (a, "", "")
      | [] -> ("", "", "") in
    let kv = kv_of obs in
    let g k = try List.assoc k kv with Not_found -> "" in
    let cls = g "class" in
    let report = List.mem cmd report_cmds in
    let has p = (match prefix_strip p flags with Some _ -> true | None -> false) in
    let predicted = (flags = "pred") || has "bal " || has "tc " || has "pfw " || has "pfwt " || has "pfr " in
    (* "an error in any included file fails the whole command": when the whole tree is
       structured (no raw file whose parseability is unknown) the loader's verdict on the tree
       is known, and a command that follows includes must not succeed if it is an error *)
    let has_raw = List.exists (fun e -> String.length e > 1 && e.[0] = 'F' && e.[1] = ':') (fields tree) in
    let include_failure =
      if cls = "OK" && cmd <> "format" && tree <> "" && (predicted || not has_raw) then
        (let (fs, root) = decode_tree tree in
         match K.CliSafeM.load_error fs root with Some k -> Some (string_of_str k) | None -> None)
      else None in
    let spec =
      if include_failure <> None then
        "FAIL:" ^ cmd ^ " OK although the include graph fails to load (" ^
        (match include_failure with Some k -> k | None -> "") ^ ")"
      else if K.clean_run_b report (class_of cls) (g "stdout_empty" = "1") (g "stderr_nonempty" = "1") then "ok"
      else "FAIL:" ^ cmd ^ " " ^ cls ^
           (if g "sig" <> "" then " " ^ g "sig" else "") ^
           (if cls = "ERR" then (if g "stderr_nonempty" <> "1" then " without a diagnostic on stderr" else " with output on stdout") else "") in
    let model =
      if has "flg" then begin
        (* the flag family: Model/Flags.v decides "usage error or not", Model/CliFlags.v runs the command *)
        match command_of cmd with
        | None -> "-"
        | Some c ->
          let (fs, exact) = decode_tree_parsed tree in
          let root = (match fields tree with
            | e :: _ -> (match String.split_on_char ':' e with [_; p; _] -> unhex p | _ -> "missing.knut")
            | [] -> "missing.knut") in
          let argv = List.map (fun h -> str_of_string (unhex h)) (fields (String.sub flags 3 (String.length flags - 3)))
                     @ [str_of_string root] in
          (match K.CliFlagsM.run_argv c today_z argv fs with
           | K.CliFlagsM.ORejected _ -> "ERR"
           | K.CliFlagsM.OHelp -> "OK"
           | K.CliFlagsM.ONone -> "-"
           | K.CliFlagsM.ORun p ->
             if (not exact) && (cmd = "format" || cmd = "infer" || p = K.CliSafeM.PredOK) then "-" else string_of_pred p)
      end
      else if not predicted then "-"
      else begin
        let (fs, root) = decode_tree tree in
        (* repaired prediction; "|pinned" is appended where the unpatched code is predicted to
           end differently without panicking (a negative -m level that never applies) *)
        let both r p =
          let r = string_of_pred r and p = string_of_pred p in
          if r = p || p = "PANIC" then r else r ^ "|" ^ p in
        match cmd with
        | "check" -> both (K.CliSafeM.check_fs true fs root) (K.CliSafeM.check_fs_pinned true fs root)
        | "print" -> both (K.CliSafeM.print_fs true fs root) (K.CliSafeM.print_fs_pinned true fs root)
        | "balance" ->
          (match prefix_strip "bal " flags with
           | Some c -> let bc = (decode_cfg c).bc in both (K.CliSafeM.balance_fs bc fs root) (K.CliSafeM.balance_fs_pinned bc fs root)
           | None -> "-")
        | "transcode" ->
          (match prefix_strip "tc " flags with
           | Some c ->
             let v = (match prefix_strip "val=" (String.trim c) with
               | Some "-" | Some "" | None -> None
               | Some v -> Some (str_of_string v)) in
             both (K.CliSafeMoreM.transcode_fs true v fs root) (K.CliSafeMoreM.transcode_fs_pinned true v fs root)
           | None -> "-")
        | "weights" ->
          (match (match prefix_strip "pfw " flags with Some c -> Some c | None -> prefix_strip "pfwt " flags) with
           | Some c -> let pc = decode_pf c in both (K.CliSafeMoreM.weights_fs pc fs root) (K.CliSafeMoreM.weights_fs_pinned pc fs root)
           | None -> "-")
        | "returns" ->
          (match prefix_strip "pfr " flags with
           | Some c -> let pc = decode_pf c in both (K.CliSafeMoreM.returns_fs pc fs root) (K.CliSafeMoreM.returns_fs_pinned pc fs root)
           | None -> "-")
        | _ -> "-"
      end in
    (model, spec))
