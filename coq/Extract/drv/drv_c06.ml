(* C06.order: `knut print` on a journal spread over an include tree, run several times under
   schedule perturbation, against Model/Source.v: the directives tagged with (path of their
   file, position), handed to the model in REVERSED order, built with build_sorted (Build with
   the source sort), printed.  Theorem C06_arrival_files says the model's result is the same
   for every arrival order; this op checks that it is the binary's.
   input  "<runs> <lseed> # <path>,<path>,... # <file of directive 0>,<file of directive 1>,... | journal"
   observed "<runs=same | diff ...> | <OK stdout | ERR | PANIC ...>" *)
open Drv_util
open Drv_journal

let first_part obs =
  match split_str " | " obs with x :: _ -> x | [] -> ""

let () =
  register "C06.order" (fun inp obs ->
    let (head, j) = split_input inp in
    match split_str " # " head with
    | [_; paths; file_of] ->
      let paths = Array.of_list (String.split_on_char ',' paths) in
      let file_of = Array.of_list (List.map int_of_string (String.split_on_char ',' file_of)) in
      let parts = split_str " ; " j in
      let tagged = List.concat (List.mapi (fun i part ->
        match decode_directive part with
        | Some d -> [({ K.s_path = str_of_string paths.(file_of.(i)); K.s_start = z_of_int i }, d)]
        | None -> []) parts) in
      let model = render_result (K.print_tagged true (List.rev tagged)) in
      let spec = if first_part obs = "runs=same" then "ok" else "FAIL:" ^ first_part obs in
      (model, spec)
    | _ -> failwith "C06.order: input")
