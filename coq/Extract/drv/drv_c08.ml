(* C08: format preserves meaning and comments and is idempotent.
   op C08.format  input: hex text
       observed: UNPARSEABLE | OK <hex out> ; <tree of input> ; <tree of out | REPARSE-ERR> ; <same | hex>
       model   : UNPARSEABLE | OK <hex out>           (checks/c08.py compares with the first field)
       spec    : on the GO trees: same_sem_gaps_b input tree1 out tree2, and format twice = once
   op C08.cmd     input: hex text
       observed: <OK|ERR|...> <hex of the file after `knut format`> files=<n>
       model   : OK <hex> (rewritten) | ERR <hex of the input> (untouched)
       spec    : exit ERR => file unchanged; one directory entry *)
open Drv_util

let text_of_hex = Drv_c07.text_of_hex

let hex_of_text (t : K.z list) : string =
  let b = Buffer.create 256 in
  List.iter (fun z -> Buffer.add_string b (Printf.sprintf "%02x" (int_of_z z))) t;
  Buffer.contents b

let split_fields (s : string) : string list = Str.split_delim (Str.regexp_string " ; ") s

let letter = K.UnicodeM.is_letter
let digit = K.UnicodeM.is_digit

let () =
  register "C08.format" (fun inp obs ->
    let text = text_of_hex inp in
    let model =
      match K.SynM.parse_text letter digit text with
      | K.SynM.ParseOk f ->
        (match K.SynPrintM.format_text letter digit text f with
         | K.SynPrintM.FOk out -> "OK " ^ hex_of_text out
         | K.SynPrintM.FErr -> "FORMAT-ERR"
         | K.SynPrintM.FPanic -> "PANIC")
      | K.SynM.ParseErr _ -> "UNPARSEABLE"
      | K.SynM.ParseFuel -> "OUTOFFUEL" in
    let spec =
      if obs = "UNPARSEABLE" then "ok"
      else if not (Drv_c07.starts_with "OK " obs) then "FAIL:" ^ (if String.length obs > 40 then String.sub obs 0 40 else obs)
      else
        match split_fields (String.sub obs 3 (String.length obs - 3)) with
        | [hexout; t1; t2; again] ->
          if t2 = "REPARSE-ERR" then "FAIL:formatted-text-does-not-parse"
          else begin
            let out = text_of_hex hexout in
            match (try Some (Drv_c07.rd_file (Drv_c07.parse_sx t1), Drv_c07.rd_file (Drv_c07.parse_sx t2)) with _ -> None) with
            | None -> "FAIL:unreadable-tree"
            | Some (f1, f2) ->
              if not (K.FmtSpecM.list_eqb K.FmtSpecM.sem_directive_eqb (K.FmtSpecM.sem text f1) (K.FmtSpecM.sem out f2))
              then "FAIL:sem-changed"
              else if not (K.FmtSpecM.list_eqb K.BytesM.str_eqb (K.FmtSpecM.gaps text f1) (K.FmtSpecM.gaps out f2))
              then "FAIL:gaps-changed"
              else if not (K.FmtSpecM.same_sem_gaps_b text f1 out f2) then "FAIL:same_sem_gaps_b"
              else if again <> "same" then "FAIL:not-idempotent"
              else "ok"
          end
        | _ -> "FAIL:unreadable-observation" in
    (model, spec));
  register "C08.cmd" (fun inp obs ->
    let text = text_of_hex inp in
    let r = K.SynPrintM.format_cmd letter digit text in
    let model =
      match r with
      | K.SynPrintM.Rewritten n -> "OK " ^ hex_of_text n
      | K.SynPrintM.Untouched -> "ERR " ^ inp
      | K.SynPrintM.CmdPanic -> "PANIC"
      | K.SynPrintM.CmdOutOfFuel -> "OUTOFFUEL" in
    let spec =
      match String.split_on_char ' ' obs with
      | [cls; after; files] ->
        if cls <> "OK" && cls <> "ERR" then "FAIL:" ^ cls
        else if cls = "ERR" && after <> inp then "FAIL:unparseable-file-was-modified"
        else if files <> "files=1" then "FAIL:stray-files:" ^ files
        else "ok"
      | _ -> "FAIL:" ^ (if String.length obs > 40 then String.sub obs 0 40 else obs) in
    (model, spec));
  (* op C08.multi  input "<procs> | hex,hex,..."  observed "<c1>/<c2> | hex,.. | hex,.."
     model: every file independently: format_cmd, and format_cmd of its result (the second run)
     spec : after run 2 = after run 1 for every file (idempotence of the command); an unparseable file is untouched *)
  register "C08.multi" (fun inp obs ->
    match Str.bounded_split_delim (Str.regexp_string " | ") inp 2 with
    | [_; hs] ->
      let ins = String.split_on_char ',' hs in
      let once (h : string) : string * bool =
        match K.SynPrintM.format_cmd letter digit (text_of_hex h) with
        | K.SynPrintM.Rewritten n -> (hex_of_text n, true)
        | K.SynPrintM.Untouched -> (h, false)
        | _ -> ("PANIC", false) in
      let r1 = List.map once ins in
      let all_ok = List.for_all snd r1 in
      let r2 = List.map (fun (h, _) -> fst (once h)) r1 in
      let cls = if all_ok then "OK" else "ERR" in
      let model = Printf.sprintf "%s/%s | %s | %s" cls cls (String.concat "," (List.map fst r1)) (String.concat "," r2) in
      let spec =
        (match Str.split_delim (Str.regexp_string " | ") obs with
         | [c; a1; a2] ->
           let l1 = String.split_on_char ',' a1 and l2 = String.split_on_char ',' a2 in
           if List.length l1 <> List.length ins || List.length l2 <> List.length ins then "FAIL:file count"
           else if not (List.for_all (fun x -> x = "OK" || x = "ERR") (String.split_on_char '/' c)) then "FAIL:" ^ c
           else begin
             let bad = ref [] in
             List.iteri (fun i h ->
               let x1 = List.nth l1 i and x2 = List.nth l2 i in
               let (_, parses) = List.nth r1 i in
               if not parses && (x1 <> h || x2 <> h) then bad := Printf.sprintf "j%02d:unparseable-file-was-modified" i :: !bad
               else if x1 <> x2 then bad := Printf.sprintf "j%02d:second-format-changed-the-file" i :: !bad) ins;
             if !bad = [] then "ok" else "FAIL:" ^ String.concat "," (List.rev !bad)
           end
         | _ -> "FAIL:unreadable") in
      (model, spec)
    | _ -> failwith "C08.multi input")
