(* C13 (extension): Go's encoding/csv reader against Model/Csv.v.
   op C13.csv  input = "comma= comment= fpr= lazy= trim= kind= exp=<items|-> | <hex of the text>"  (harness/c13csv.go)
   model  = csv_read_all of the settings on the bytes, rendered like the observer: "OK <items>" | "ERR:<class> <items>"
   spec   = on Go's result: every record returned has the number of fields FieldsPerRecord demands
            (C13_csv_field_count); where the generator wrote records with the canonical writer under the side
            conditions of C13_csv_roundtrip (exp <> "-"), the extracted csv_write of those records is the text and Go
            read exactly those records.
   (csv_records_verdict, which derives an importer's reader items from the statement's bytes, is in drv_c13a.ml: the
   drivers are linked in alphabetical order.) *)
open Drv_util
open Drv_journal
open Drv_c13a

let enc_items (rs : K.z list list list) : string =
  if rs = [] then "-"
  else String.concat ";" (List.map (fun r ->
    "r" ^ String.concat "," (List.map (fun f ->
      let s = string_of_str f in
      String.concat "" (List.init (String.length s) (fun i -> Printf.sprintf "%02x" (Char.code s.[i])))) r)) rs)

let err_name = function
  | K.ErrBareQuote -> "bare-quote" | K.ErrQuote -> "quote" | K.ErrFieldCount -> "field-count"
  | K.ErrInvalidDelim -> "invalid-delim"

let render_csv (r : K.csv_result) : string =
  match r with
  | K.CsvRecords rs -> "OK " ^ enc_items rs
  | K.CsvError (b, e) -> "ERR:" ^ err_name e ^ " " ^ enc_items b
  | K.CsvOutOfFuel -> "OUT-OF-FUEL"

let records_of_items (s : string) : K.z list list list =
  List.filter_map (function K.CRec r -> Some r | K.CBad -> None) (decode_items s)

let run_csv (inp : string) (obs : string) : string * string =
  let (fl, hex) = match split_str " | " inp with [a; b] -> (a, b) | _ -> failwith "C13.csv input" in
  let flags = flag_assoc fl in
  let get k = try List.assoc k flags with Not_found -> "-" in
  let zi k = z_of_string (get k) in
  let cfg = { K.cc_comma = zi "comma"; K.cc_comment = zi "comment"; K.cc_fpr = zi "fpr";
              K.cc_lazy = (get "lazy" = "1"); K.cc_trim = (get "trim" = "1") } in
  let text = if hex = "-" then "" else unhex_plain hex in
  let model = render_csv (K.csv_read_all cfg (str_of_string text)) in
  (* Go's records *)
  let obs_items = match String.index_opt obs ' ' with
    | Some i -> String.sub obs (i + 1) (String.length obs - i - 1) | None -> "-" in
  let recs = records_of_items obs_items in
  let fpr = int_of_string (get "fpr") in
  let count_ok =
    List.for_all (fun r -> List.length r >= 1) recs &&
    (if fpr > 0 then List.for_all (fun r -> List.length r = fpr) recs
     else if fpr = 0 then (match recs with [] -> true | r0 :: _ -> List.for_all (fun r -> List.length r = List.length r0) recs)
     else true) in
  let exp = get "exp" in
  let spec =
    if not count_ok then "FAIL:field-count: a record Go returned has not the number of fields FieldsPerRecord demands"
    else if exp = "-" then "ok"
    else
      let want = records_of_items exp in
      if string_of_str (K.csv_write cfg.K.cc_comma want) <> text then "FAIL:writer: the text is not csv_write of the records"
      else if obs <> "OK " ^ exp then "FAIL:roundtrip: Go did not read back the records the canonical writer wrote"
      else "ok" in
  (model, spec)

let () = register "C13.csv" run_csv
