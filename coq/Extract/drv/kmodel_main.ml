(* kmodel: reads "id \t op \t input \t observed" lines on stdin,
   writes "id \t model-output \t spec-verdict" lines on stdout *)
let () =
  try
    while true do
      let line = input_line stdin in
      match String.split_on_char '\t' line with
      | id :: op :: rest ->
        let inp = (match rest with i :: _ -> i | [] -> "") in
        let obs = (match rest with _ :: o :: _ -> o | _ -> "") in
        (match Hashtbl.find_opt Drv_util.ops op with
         | None -> Printf.printf "%s\tNOOP:%s\tNOOP\n" id op
         | Some f ->
           (match (try f inp obs with e -> ("EXN:" ^ Printexc.to_string e, "EXN")) with
            | (m, s) -> Printf.printf "%s\t%s\t%s\n" id m s))
      | _ -> ()
    done
  with End_of_file -> ()
