(* C19: hook traces of real runs are judged by the extracted trace_ok / trace_complete
   (Model/Pipe.v; Properties/C19.v trace_ok_sound, trace_ok_complete), plus census and exit class.
   Include-graph cases (input fields graph=, perfile=): the expected class and census come from running the
   extracted transition system of journal.FromPath with ancestor chains (Model/PipeFromPathCycle.v kdrain /
   kdrain_last: two canonical schedulers, which must agree) on the graph, and from the extracted enumeration
   of simple paths (Spec/IncludeGraph.v); Properties/C19.v C19_frompath_cycle_terminates / _cycle_is_error /
   _diamond_loads_twice say that every other schedule gives the same class and census. *)
open Drv_util

let kv_fields (sep : char) (s : string) : (string * string) list =
  List.filter_map (fun f ->
    match String.index_opt f '=' with
    | Some i -> Some (String.sub f 0 i, String.sub f (i + 1) (String.length f - i - 1))
    | None -> None) (String.split_on_char sep s)

let get kv k = try List.assoc k kv with Not_found -> ""

(* events "stage:ph:item" -> per Seq instance (stage / 1000) a list of (idx, ph, item) in order *)
let parse_trace (s : string) : (int * (int * char * string) list) list =
  let evs = List.filter_map (fun t ->
    match String.split_on_char ':' t with
    | [st; ph; item] when ph <> "" -> Some (int_of_string st, ph.[0], item)
    | _ -> None) (split_on ',' s) in
  let insts = List.sort_uniq compare (List.map (fun (st, _, _) -> st / 1000) evs) in
  List.map (fun i ->
    (i, List.filter_map (fun (st, ph, it) -> if st / 1000 = i then Some (st mod 1000, ph, it) else None) evs))
    insts

(* "0>1.2,1>3,2>3,3>" -> include lists per file number *)
let parse_graph (s : string) : int list array =
  let items = List.filter_map (fun t ->
    match String.index_opt t '>' with
    | Some i ->
        let f = int_of_string (String.sub t 0 i) in
        let r = String.sub t (i + 1) (String.length t - i - 1) in
        Some (f, List.map int_of_string (split_on '.' r))
    | None -> None) (split_on ',' s) in
  let n = List.fold_left (fun a (f, _) -> max a (f + 1)) 0 items in
  let g = Array.make n [] in
  List.iter (fun (f, l) -> g.(f) <- l) items; g

(* (expected failure?, expected number of Builder.Add calls, sanity failures of the model side) *)
let graph_model (graph : string) (perfile : string) : bool * int * string list =
  let g = parse_graph graph in
  let n = Array.length g in
  let per = Array.of_list (List.map int_of_string (split_on '.' perfile)) in
  let inc (f : K.nat) : K.nat list =
    let i = int_of_nat f in if i < n then List.map nat_of_int g.(i) else [] in
  let none (_ : K.nat) = false in
  let univ = List.init n nat_of_int in
  let root = nat_of_int 0 in
  let visits = K.all_visits inc univ root in
  let simple = K.simple_paths inc univ root and closings = K.cycle_closings inc univ root in
  let fuel = nat_of_int (6 * List.length visits + 3) in
  let census files = List.fold_left (fun a f -> let i = int_of_nat f in a + (if i < Array.length per then per.(i) else 0)) 0 files in
  let out st = match K.koutcome_of st with
    | K.KOk files -> `Ok (census files)
    | K.KErr (K.KWCycle _) -> `Cycle
    | K.KErr _ -> `Other
    | K.KRunning -> `Running in
  let o1 = out (K.kdrain inc none none none false fuel (K.kinit root)) in
  let o2 = out (K.kdrain_last inc none none none false fuel (K.kinit root)) in
  let spec_census = census (List.map snd simple) in
  let probs = ref [] in
  if o1 <> o2 then probs := "model-schedulers-disagree" :: !probs;
  (match o1 with
   | `Ok a -> if closings <> [] then probs := "model-ok-with-cycle" :: !probs;
              if a <> spec_census then probs := Printf.sprintf "model-census=%d/simple-paths=%d" a spec_census :: !probs
   | `Cycle -> if closings = [] then probs := "model-cycle-without-closing" :: !probs
   | `Other -> probs := "model-other-error" :: !probs
   | `Running -> probs := "model-not-finished" :: !probs);
  ((match o1 with `Ok _ -> false | _ -> true), (match o1 with `Ok a -> a | _ -> -1), !probs)

let index_of x l =
  let rec go i = function [] -> -1 | y :: r -> if y = x then i else go (i + 1) r in go 0 l

let () =
  register "C19.trace" (fun inp obs ->
    let ikv = kv_fields ';' inp in
    let kind = get ikv "kind" and cmd = get ikv "cmd" in
    let ndir = int_of_string (get ikv "ndir") and ndays = int_of_string (get ikv "ndays") in
    let tr_at = (try Str.search_forward (Str.regexp_string " trace=") obs 0 with Not_found -> String.length obs) in
    let head = String.sub obs 0 tr_at in
    let trace = if tr_at + 7 <= String.length obs then String.sub obs (tr_at + 7) (String.length obs - tr_at - 7) else "" in
    let okv = kv_fields ' ' head in
    let exit_ = get okv "exit" and out = get okv "out" and hooks = get okv "hooks" in
    let adds = (try int_of_string (get okv "adds") with _ -> -1) in
    let printed = get okv "printed" in
    let fails = ref [] in
    let fail s = fails := s :: !fails in
    let graph = get ikv "graph" in
    (* expected class and census: from the generator's fields, or - for include graphs - from the extracted model *)
    let expect_fail, expect_adds =
      if graph = "" then (kind <> "ok", ndir)
      else begin
        let (f, a, probs) = graph_model graph (get ikv "perfile") in
        List.iter fail probs;
        if f <> (kind <> "ok") then fail "graph-class(model/generator)";
        if not f && a <> ndir then fail (Printf.sprintf "graph-census(model=%d/generator=%d)" a ndir);
        (f, a)
      end in
    let model =
      if not expect_fail
      then Printf.sprintf "exit=0 out=%s adds=%d printed=%s" (if cmd = "check" then "empty" else "nonempty") expect_adds
             (if cmd = "print" then string_of_int expect_adds else "-")
      else "exit=1 out=empty" in
    if hooks <> "1" then fail "no-hooks(knut built without hooks/0001-verif-hooks.patch)";
    if exit_ = "HANG" then fail "hang";
    if kind <> "ok" && exit_ = "0" then fail "success-despite-failing-stage";
    if kind <> "ok" && out <> "empty" then fail "stdout-not-empty-on-error";
    if exit_ <> "0" && exit_ <> "1" && exit_ <> "HANG" then fail ("abnormal-exit-" ^ exit_);
    let insts = parse_trace trace in
    List.iter (fun (inst, evs) ->
      let n = List.fold_left (fun a (i, _, _) -> max a i) 0 evs in
      let dates = List.sort_uniq compare (List.map (fun (_, _, d) -> d) evs) in
      let m = List.length dates in
      let kevs = List.map (fun (i, ph, d) ->
        { K.ev_stage = nat_of_int i;
          K.ev_ph = (if ph = 'b' then K.EvBegin else K.EvEnd);
          K.ev_item = nat_of_int (index_of d dates) }) evs in
      if not (K.trace_ok (nat_of_int n) kevs) then fail (Printf.sprintf "trace_ok(seq %d)" inst);
      if exit_ = "0" then begin
        if not (K.trace_complete (nat_of_int n) (nat_of_int m) kevs) then
          fail (Printf.sprintf "trace_complete(seq %d)" inst);
        if m < ndays || ((cmd = "print" || cmd = "check") && m <> ndays) then
          fail (Printf.sprintf "days(seq %d)=%d/%d" inst m ndays)
      end) insts;
    if hooks = "1" && exit_ = "0" then begin
      if insts = [] then fail "no-seq-events";
      if adds <> ndir then fail (Printf.sprintf "census-adds=%d/%d" adds ndir);
      if cmd = "print" && printed <> string_of_int ndir then fail (Printf.sprintf "census-printed=%s/%d" printed ndir)
    end;
    (model, if !fails = [] then "ok" else "FAIL:" ^ String.concat "," (List.rev !fails)));
  register "C19.race" (fun inp obs ->
    let ikv = kv_fields ';' inp in
    let kind = get ikv "kind" in
    let okv = kv_fields ' ' obs in
    let race = get okv "race" and exit_ = get okv "exit" in
    let model = Printf.sprintf "race=0 exit=%s" (if kind = "ok" then "0" else "1") in
    let spec =
      if race = "1" then "FAIL:data-race"
      else if exit_ = "HANG" then "FAIL:hang"
      else if race = "-" then "FAIL:no-race-binary"
      else "ok" in
    (model, spec))
