(* C19: hook traces of real runs are judged by the extracted trace_ok / trace_complete
   (Model/Pipe.v; Properties/C19.v trace_ok_sound, trace_ok_complete), plus census and exit class *)
open Drv_util

let kv_fields (sep : char) (s : string) : (string * string) list =
  List.filter_map (fun f ->
    match String.index_opt f '=' with
    | Some i -> Some (String.sub f 0 i, String.sub f (i + 1) (String.length f - i - 1))
    | None -> None) (String.split_on_char sep s)

let get kv k = try List.assoc k kv with Not_found -> ""

(* events "stage:ph:item" -> per Seq instance (stage / 1000) a list of (idx, ph, item) in order *)
let parse_trace (s : string) : (int * (int * char * string) list) list =
  let evs = List.filter_map (fun t ->
    match String.split_on_char ':' t with
    | [st; ph; item] when ph <> "" -> Some (int_of_string st, ph.[0], item)
    | _ -> None) (split_on ',' s) in
  let insts = List.sort_uniq compare (List.map (fun (st, _, _) -> st / 1000) evs) in
  List.map (fun i ->
    (i, List.filter_map (fun (st, ph, it) -> if st / 1000 = i then Some (st mod 1000, ph, it) else None) evs))
    insts

let index_of x l =
  let rec go i = function [] -> -1 | y :: r -> if y = x then i else go (i + 1) r in go 0 l

let () =
  register "C19.trace" (fun inp obs ->
    let ikv = kv_fields ';' inp in
    let kind = get ikv "kind" and cmd = get ikv "cmd" in
    let ndir = int_of_string (get ikv "ndir") and ndays = int_of_string (get ikv "ndays") in
    let tr_at = (try Str.search_forward (Str.regexp_string " trace=") obs 0 with Not_found -> String.length obs) in
    let head = String.sub obs 0 tr_at in
    let trace = if tr_at + 7 <= String.length obs then String.sub obs (tr_at + 7) (String.length obs - tr_at - 7) else "" in
    let okv = kv_fields ' ' head in
    let exit_ = get okv "exit" and out = get okv "out" and hooks = get okv "hooks" in
    let adds = (try int_of_string (get okv "adds") with _ -> -1) in
    let printed = get okv "printed" in
    let model =
      if kind = "ok"
      then Printf.sprintf "exit=0 out=%s adds=%d printed=%s" (if cmd = "check" then "empty" else "nonempty") ndir
             (if cmd = "print" then string_of_int ndir else "-")
      else "exit=1 out=empty" in
    let fails = ref [] in
    let fail s = fails := s :: !fails in
    if hooks <> "1" then fail "no-hooks(knut built without hooks/0001-verif-hooks.patch)";
    if exit_ = "HANG" then fail "hang";
    if kind <> "ok" && exit_ = "0" then fail "success-despite-failing-stage";
    if kind <> "ok" && out <> "empty" then fail "stdout-not-empty-on-error";
    if exit_ <> "0" && exit_ <> "1" && exit_ <> "HANG" then fail ("abnormal-exit-" ^ exit_);
    let insts = parse_trace trace in
    List.iter (fun (inst, evs) ->
      let n = List.fold_left (fun a (i, _, _) -> max a i) 0 evs in
      let dates = List.sort_uniq compare (List.map (fun (_, _, d) -> d) evs) in
      let m = List.length dates in
      let kevs = List.map (fun (i, ph, d) ->
        { K.ev_stage = nat_of_int i;
          K.ev_ph = (if ph = 'b' then K.EvBegin else K.EvEnd);
          K.ev_item = nat_of_int (index_of d dates) }) evs in
      if not (K.trace_ok (nat_of_int n) kevs) then fail (Printf.sprintf "trace_ok(seq %d)" inst);
      if exit_ = "0" then begin
        if not (K.trace_complete (nat_of_int n) (nat_of_int m) kevs) then
          fail (Printf.sprintf "trace_complete(seq %d)" inst);
        if m < ndays || ((cmd = "print" || cmd = "check") && m <> ndays) then
          fail (Printf.sprintf "days(seq %d)=%d/%d" inst m ndays)
      end) insts;
    if hooks = "1" && exit_ = "0" then begin
      if insts = [] then fail "no-seq-events";
      if adds <> ndir then fail (Printf.sprintf "census-adds=%d/%d" adds ndir);
      if cmd = "print" && printed <> string_of_int ndir then fail (Printf.sprintf "census-printed=%s/%d" printed ndir)
    end;
    (model, if !fails = [] then "ok" else "FAIL:" ^ String.concat "," (List.rev !fails)));
  register "C19.race" (fun inp obs ->
    let ikv = kv_fields ';' inp in
    let kind = get ikv "kind" in
    let okv = kv_fields ' ' obs in
    let race = get okv "race" and exit_ = get okv "exit" in
    let model = Printf.sprintf "race=0 exit=%s" (if kind = "ok" then "0" else "1") in
    let spec =
      if race = "1" then "FAIL:data-race"
      else if exit_ = "HANG" then "FAIL:hang"
      else if race = "-" then "FAIL:no-race-binary"
      else "ok" in
    (model, spec))
