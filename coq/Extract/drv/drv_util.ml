(* conversions between OCaml values and the extracted Coq datatypes; line protocol helpers *)
module K = Kmodel_core

let rec pos_of_int (n : int) : K.positive =
  if n = 1 then K.XH
  else if n land 1 = 0 then K.XO (pos_of_int (n lsr 1))
  else K.XI (pos_of_int (n lsr 1))

let z_of_int (n : int) : K.z =
  if n = 0 then K.Z0 else if n > 0 then K.Zpos (pos_of_int n) else K.Zneg (pos_of_int (-n))

let rec int_of_pos (p : K.positive) : int =
  match p with K.XH -> 1 | K.XO q -> 2 * int_of_pos q | K.XI q -> 2 * int_of_pos q + 1

let int_of_z (z : K.z) : int =
  match z with K.Z0 -> 0 | K.Zpos p -> int_of_pos p | K.Zneg p -> - (int_of_pos p)

let rec nat_of_int (n : int) : K.nat = if n <= 0 then K.O else K.S (nat_of_int (n - 1))
let rec int_of_nat (n : K.nat) : int = match n with K.O -> 0 | K.S m -> 1 + int_of_nat m

(* arbitrary-size decimal strings <-> z, using the extracted arithmetic *)
let z10 = z_of_int 10
let z_of_string (s : string) : K.z =
  let neg = String.length s > 0 && s.[0] = '-' in
  let start = if neg || (String.length s > 0 && s.[0] = '+') then 1 else 0 in
  let acc = ref K.Z0 in
  for i = start to String.length s - 1 do
    let c = Char.code s.[i] - 48 in
    if c < 0 || c > 9 then failwith ("z_of_string: " ^ s);
    acc := K.Z.add (K.Z.mul !acc z10) (z_of_int c)
  done;
  if neg then K.Z.opp !acc else !acc

let string_of_z (z : K.z) : string =
  match z with
  | K.Z0 -> "0"
  | _ ->
    let neg = (match z with K.Zneg _ -> true | _ -> false) in
    let a = ref (if neg then K.Z.opp z else z) in
    let buf = Buffer.create 32 in
    while !a <> K.Z0 do
      let (q, r) = K.Z.div_eucl !a z10 in
      Buffer.add_char buf (Char.chr (48 + int_of_z r));
      a := q
    done;
    let s = Buffer.contents buf in
    let n = String.length s in
    let r = String.init n (fun i -> s.[n - 1 - i]) in
    if neg then "-" ^ r else r

let split_on (c : char) (s : string) : string list =
  if s = "" then [] else String.split_on_char c s

(* registry of operations: op name -> (input -> observed -> (model output, spec verdict)) *)
let ops : (string, string -> string -> string * string) Hashtbl.t = Hashtbl.create 64
let register (name : string) f = Hashtbl.replace ops name f
