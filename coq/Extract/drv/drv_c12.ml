(* C12: Prices.Insert / Normalize / NormalizedPrices.Price / Valuate, and the decimal primitives
   they rest on.
   C12.ins   input "C P T,C P T,..."             observed "T>C=p;..." | "ERR@i"
   C12.norm  input "V|amount|C P T,C P T,..."    observed "C=p/v;C=-;..."[!nondet][!mismatch] | "ERR@i"
   C12.dec   input "a b"                         observed "div|recip8|trunc8|mul|multiply" | PANIC parts *)
open Drv_util
open Drv_journal

let parse_decls (s : string) : ((K.z list * K.dec) * K.z list) list =
  List.map (fun d ->
    match String.split_on_char ' ' d with
    | [c; p; t] -> ((str_of_string c, dec_of p), str_of_string t)
    | _ -> failwith ("decl " ^ d)) (split_on ',' s)

(* fold Insert; Error i = index of the rejected declaration *)
let build decls =
  let rec go ps i = function
    | [] -> Ok ps
    | ((c, p), t) :: rest ->
      (match K.prices_insert ps c p t with
       | K.InsOk ps' -> go ps' (i + 1) rest
       | K.InsErrZero -> Error (Printf.sprintf "ERR@%d" i)
       | K.InsPanic -> Error (Printf.sprintf "PANIC@%d" i)) in
  go [] 0 decls

let first_zero decls =
  let rec go i = function
    | [] -> None
    | ((_, p), _) :: rest -> if K.is_zero p then Some i else go (i + 1) rest in
  go 0 decls

let sort_uniq_names (l : string list) : string list = List.sort_uniq compare l

let universe v decls =
  sort_uniq_names (v @ List.concat_map (fun ((c, _), t) -> [string_of_str c; string_of_str t]) decls)

let ds (d : K.dec) : string = string_of_str (K.to_string d)

let err_verdict decls obs =
  match first_zero decls with
  | Some i -> if obs = Printf.sprintf "ERR@%d" i then "ok" else Printf.sprintf "FAIL:zero price at %d not rejected there" i
  | None -> if String.length obs >= 3 && String.sub obs 0 3 = "ERR" then "FAIL:insert rejected without a zero price" else "ok"

let is_err obs = String.length obs >= 3 && (String.sub obs 0 3 = "ERR" || String.sub obs 0 3 = "PAN")

let () =
  register "C12.ins" (fun inp obs ->
    let decls = parse_decls inp in
    let model =
      match build decls with
      | Error e -> e
      | Ok ps ->
        String.concat ";" (List.concat_map (fun (t, m) ->
          List.map (fun (c, p) -> string_of_str t ^ ">" ^ string_of_str c ^ "=" ^ ds p) m) ps) in
    let spec =
      if is_err obs || first_zero decls <> None then err_verdict decls obs
      else begin
        (* latest declaration wins, evaluated on the Go map *)
        let tbl = Hashtbl.create 16 in
        (try
           List.iter (fun e ->
             match String.index_opt e '=' with
             | Some i ->
               let k = String.sub e 0 i and p = String.sub e (i + 1) (String.length e - i - 1) in
               Hashtbl.replace tbl k (dec_of p)
             | None -> failwith e) (split_on ';' obs);
           let names = universe [] decls in
           let bad = ref [] in
           List.iter (fun t -> List.iter (fun c ->
             let want = K.latest decls (str_of_string c) (str_of_string t) in
             let got = Hashtbl.find_opt tbl (t ^ ">" ^ c) in
             let same = match want, got with
               | None, None -> true
               | Some a, Some b -> K.dec_equal a b
               | _ -> false in
             if not same then bad := (t ^ ">" ^ c) :: !bad) names) names;
           if !bad = [] then "ok" else "FAIL:latest " ^ String.concat "," (List.rev !bad)
         with _ -> "FAIL:unparsable")
      end in
    (model, spec));

  register "C12.norm" (fun inp obs ->
    match String.split_on_char '|' inp with
    | [v; amt; d] ->
      let decls = parse_decls d in
      let amount = dec_of amt in
      let vs = str_of_string v in
      let names = universe [v] decls in
      (match build decls with
       | Error e -> (e, err_verdict decls obs)
       | Ok ps ->
         let model =
           match K.normalize ps vs with
           | None -> "OUTOFFUEL"
           | Some np ->
             String.concat ";" (List.map (fun c ->
               let cs = str_of_string c in
               match K.np_price np cs, K.np_valuate np cs amount with
               | Some p, Some x -> c ^ "=" ^ ds p ^ "/" ^ ds x
               | None, None -> c ^ "=-"
               | _ -> c ^ "=?") names) in
         let spec =
           if is_err obs then err_verdict decls obs
           else if String.contains obs '!' then
             "FAIL:" ^ (match String.index_opt obs '!' with Some i -> String.sub obs (i + 1) (String.length obs - i - 1) | None -> "")
           else
             (try
                let entries = List.map (fun e ->
                  match String.index_opt e '=' with
                  | Some i -> (String.sub e 0 i, String.sub e (i + 1) (String.length e - i - 1))
                  | None -> failwith e) (split_on ';' obs) in
                if List.map fst entries <> names then "FAIL:commodities"
                else begin
                  let bad = ref [] in
                  List.iter (fun (c, pv) ->
                    let cs = str_of_string c in
                    if pv = "-" then begin
                      if not (K.valid_price_b ps vs cs None) then bad := (c ^ ":no price although connected") :: !bad
                    end else
                      match String.split_on_char '/' pv with
                      | [p; x] ->
                        let p = dec_of p and x = dec_of x in
                        if not (K.valid_price_b ps vs cs (Some p)) then bad := (c ^ ":price") :: !bad
                        else if not (K.dec_equal x (K.multiply amount p)) then bad := (c ^ ":valuate") :: !bad
                      | _ -> bad := (c ^ ":format") :: !bad) entries;
                  if !bad = [] then "ok" else "FAIL:valid_price_b " ^ String.concat "," (List.rev !bad)
                end
              with _ -> "FAIL:unparsable") in
         (model, spec))
    | _ -> failwith "C12.norm input");

  (* C12.days  input "<V> | <journal>"  observed "<date>:C=p;C=-;... / <date>:..." | ERR
     model: the builder's days through Model/Pipeline.compute_prices_proc (what journal.ComputePrices does);
     spec (C12_day): the prices of day k are valid prices of the declarations dated up to day k *)
  register "C12.days" (fun inp obs ->
    let (c, j) = split_input inp in
    let v = str_of_string (String.trim c) in
    let sds = decode_journal j in
    match K.parse_directives sds with
    | K.MOk dl ->
      let days = (K.builder_of dl).K.b_days in
      let names = sort_uniq_names (String.trim c :: List.concat_map (function
        | K.DPrice (_, a, _, b) -> [string_of_str a; string_of_str b]
        | K.DTxn t -> List.map (fun p -> string_of_str p.K.p_com) t.K.t_postings
        | _ -> []) dl) in
      let block (d : K.day) =
        Drv_c11.fmt_date d.K.d_date ^ ":" ^ String.concat ";" (List.map (fun n ->
          match K.np_price_opt d.K.d_normalized (str_of_string n) with
          | Some p -> n ^ "=" ^ ds p
          | None -> n ^ "=-") names) in
      let model =
        (match K.process_days (K.compute_prices_proc v) { K.cp_prices = []; K.cp_previous = None } days with
         | K.ROk (_, days') -> String.concat " / " (List.map block days')
         | K.RErr _ -> "ERR"
         | K.RPanic _ -> "PANIC") in
      let spec =
        if obs = "ERR" then (if model = "ERR" then "ok" else "FAIL:ComputePrices failed")
        else if String.length obs >= 5 && String.sub obs 0 5 = "PANIC" then "FAIL:panic"
        else
          (try
             let bad = ref [] in
             List.iter (fun blk ->
               match String.index_opt blk ':' with
               | None -> if blk <> "" then failwith blk
               | Some i ->
                 let date = Drv_c11.parse_date (String.sub blk 0 i) in
                 let rest = String.sub blk (i + 1) (String.length blk - i - 1) in
                 (* the declarations dated up to this day, in the builder's order *)
                 let decls = List.concat_map (fun (d : K.day) ->
                   if K.Z.leb d.K.d_date date then d.K.d_prices else []) days in
                 (match build decls with
                  | Error _ -> ()
                  | Ok ps ->
                    List.iter (fun e ->
                      match String.index_opt e '=' with
                      | Some k ->
                        let n = String.sub e 0 k and pv = String.sub e (k + 1) (String.length e - k - 1) in
                        let cs = str_of_string n in
                        (* before the first declaration there is no price table at all (also not for V itself) *)
                        let want = if decls = [] then (pv = "-")
                          else K.valid_price_b ps v cs (if pv = "-" then None else Some (dec_of pv)) in
                        if not want then bad := (Drv_c11.fmt_date date ^ " " ^ n ^ "=" ^ pv) :: !bad
                      | None -> failwith e) (split_on ';' rest))) (split_str " / " obs);
             if !bad = [] then "ok"
             else "FAIL:day prices are not valid prices of the declarations up to that day: " ^ String.concat ", " (List.rev !bad)
           with _ -> "FAIL:unparsable") in
      (model, spec)
    | _ -> ((if obs = "ERR" then "ERR" else "REJECTED"), "ok"));

  register "C12.dec" (fun inp _obs ->
    match String.split_on_char ' ' inp with
    | [a; b] ->
      let a = dec_of a and b = dec_of b in
      let one = { K.coef = z_of_int 1; K.ex = K.Z0 } in
      let d8 = z_of_int 8 in
      let dv x y = match K.dec_div16 x y with K.DOk q -> Some q | K.DPanic -> None in
      let parts = [
        (match dv a b with Some q -> ds q | None -> "PANIC");
        (match dv one a with Some q -> ds (K.truncate q d8) | None -> "PANIC");
        ds (K.truncate a d8);
        ds (K.dec_mul a b);
        ds (K.multiply a b);
        ds (K.recip b) ] in
      (String.concat "|" parts, "ok")
    | _ -> failwith "C12.dec input")
