(* C12: Prices.Insert / Normalize / NormalizedPrices.Price / Valuate, and the decimal primitives
   they rest on.
   C12.ins   input "C P T,C P T,..."             observed "T>C=p;..." | "ERR@i"
   C12.norm  input "V|amount|C P T,C P T,..."    observed "C=p/v;C=-;..."[!nondet][!mismatch] | "ERR@i"
   C12.dec   input "a b"                         observed "div|recip8|trunc8|mul|multiply" | PANIC parts *)
open Drv_util
open Drv_journal

let parse_decls (s : string) : ((K.z list * K.dec) * K.z list) list =
  List.map (fun d ->
    match String.split_on_char ' ' d with
    | [c; p; t] -> ((str_of_string c, dec_of p), str_of_string t)
    | _ -> failwith ("decl " ^ d)) (split_on ',' s)

(* fold Insert; Error i = index of the rejected declaration *)
let build decls =
  let rec go ps i = function
    | [] -> Ok ps
    | ((c, p), t) :: rest ->
      (match K.prices_insert ps c p t with
       | K.InsOk ps' -> go ps' (i + 1) rest
       | K.InsErrZero -> Error (Printf.sprintf "ERR@%d" i)
       | K.InsPanic -> Error (Printf.sprintf "PANIC@%d" i)) in
  go [] 0 decls

let first_zero decls =
  let rec go i = function
    | [] -> None
    | ((_, p), _) :: rest -> if K.is_zero p then Some i else go (i + 1) rest in
  go 0 decls

let sort_uniq_names (l : string list) : string list = List.sort_uniq compare l

let universe v decls =
  sort_uniq_names (v @ List.concat_map (fun ((c, _), t) -> [string_of_str c; string_of_str t]) decls)

let ds (d : K.dec) : string = string_of_str (K.to_string d)

let err_verdict decls obs =
  match first_zero decls with
  | Some i -> if obs = Printf.sprintf "ERR@%d" i then "ok" else Printf.sprintf "FAIL:zero price at %d not rejected there" i
  | None -> if String.length obs >= 3 && String.sub obs 0 3 = "ERR" then "FAIL:insert rejected without a zero price" else "ok"

let is_err obs = String.length obs >= 3 && (String.sub obs 0 3 = "ERR" || String.sub obs 0 3 = "PAN")

let () =
  register "C12.ins" (fun inp obs ->
    let decls = parse_decls inp in
    let model =
      match build decls with
      | Error e -> e
      | Ok ps ->
        String.concat ";" (List.concat_map (fun (t, m) ->
          List.map (fun (c, p) -> string_of_str t ^ ">" ^ string_of_str c ^ "=" ^ ds p) m) ps) in
    let spec =
      if is_err obs || first_zero decls <> None then err_verdict decls obs
      else begin
        (* latest declaration wins, evaluated on the Go map *)
        let tbl = Hashtbl.create 16 in
        (try
           List.iter (fun e ->
             match String.index_opt e '=' with
             | Some i ->
               let k = String.sub e 0 i and p = String.sub e (i + 1) (String.length e - i - 1) in
               Hashtbl.replace tbl k (dec_of p)
             | None -> failwith e) (split_on ';' obs);
           let names = universe [] decls in
           let bad = ref [] in
           List.iter (fun t -> List.iter (fun c ->
             let want = K.latest decls (str_of_string c) (str_of_string t) in
             let got = Hashtbl.find_opt tbl (t ^ ">" ^ c) in
             let same = match want, got with
               | None, None -> true
               | Some a, Some b -> K.dec_equal a b
               | _ -> false in
             if not same then bad := (t ^ ">" ^ c) :: !bad) names) names;
           if !bad = [] then "ok" else "FAIL:latest " ^ String.concat "," (List.rev !bad)
         with _ -> "FAIL:unparsable")
      end in
    (model, spec));

  register "C12.norm" (fun inp obs ->
    match String.split_on_char '|' inp with
    | [v; amt; d] ->
      let decls = parse_decls d in
      let amount = dec_of amt in
      let vs = str_of_string v in
      let names = universe [v] decls in
      (match build decls with
       | Error e -> (e, err_verdict decls obs)
       | Ok ps ->
         let model =
           match K.normalize ps vs with
           | None -> "OUTOFFUEL"
           | Some np ->
             String.concat ";" (List.map (fun c ->
               let cs = str_of_string c in
               match K.np_price np cs, K.np_valuate np cs amount with
               | Some p, Some x -> c ^ "=" ^ ds p ^ "/" ^ ds x
               | None, None -> c ^ "=-"
               | _ -> c ^ "=?") names) in
         let spec =
           if is_err obs then err_verdict decls obs
           else if String.contains obs '!' then
             "FAIL:" ^ (match String.index_opt obs '!' with Some i -> String.sub obs (i + 1) (String.length obs - i - 1) | None -> "")
           else
             (try
                let entries = List.map (fun e ->
                  match String.index_opt e '=' with
                  | Some i -> (String.sub e 0 i, String.sub e (i + 1) (String.length e - i - 1))
                  | None -> failwith e) (split_on ';' obs) in
                if List.map fst entries <> names then "FAIL:commodities"
                else begin
                  let bad = ref [] in
                  List.iter (fun (c, pv) ->
                    let cs = str_of_string c in
                    if pv = "-" then begin
                      if not (K.valid_price_b ps vs cs None) then bad := (c ^ ":no price although connected") :: !bad
                    end else
                      match String.split_on_char '/' pv with
                      | [p; x] ->
                        let p = dec_of p and x = dec_of x in
                        if not (K.valid_price_b ps vs cs (Some p)) then bad := (c ^ ":price") :: !bad
                        else if not (K.dec_equal x (K.multiply amount p)) then bad := (c ^ ":valuate") :: !bad
                      | _ -> bad := (c ^ ":format") :: !bad) entries;
                  if !bad = [] then "ok" else "FAIL:valid_price_b " ^ String.concat "," (List.rev !bad)
                end
              with _ -> "FAIL:unparsable") in
         (model, spec))
    | _ -> failwith "C12.norm input");

  register "C12.dec" (fun inp _obs ->
    match String.split_on_char ' ' inp with
    | [a; b] ->
      let a = dec_of a and b = dec_of b in
      let one = { K.coef = z_of_int 1; K.ex = K.Z0 } in
      let d8 = z_of_int 8 in
      let dv x y = match K.dec_div16 x y with K.DOk q -> Some q | K.DPanic -> None in
      let parts = [
        (match dv a b with Some q -> ds q | None -> "PANIC");
        (match dv one a with Some q -> ds (K.truncate q d8) | None -> "PANIC");
        ds (K.truncate a d8);
        ds (K.dec_mul a b);
        ds (K.multiply a b);
        ds (K.recip b) ] in
      (String.concat "|" parts, "ok")
    | _ -> failwith "C12.dec input")
