(* C14, regular expressions on all strings.  op C14.rx, input: hex of the expression (harness/c14rx.go);
   model output: Model/RxSyntax.v rx_parse rendered like the observation - "ok <tree> set=ok" or
   "err <code> set=err", a tree of more than 4000 bytes as #<length>:<FNV-1a 64> - where set= is rx_valid,
   the model of knut's RegexFlag.Set; spec verdict: the flag accepted the string iff regexp/syntax parsed it. *)
open Drv_util
open Drv_journal

module R = K.RxSyntaxM

let rx_opname o = match int_of_z (R.op_num o) with
  | 1 -> "nomatch" | 2 -> "empty" | 3 -> "lit" | 4 -> "cc" | 5 -> "anynl" | 6 -> "any" | 7 -> "bol" | 8 -> "eol" | 9 -> "bot" | 10 -> "eot"
  | 11 -> "wb" | 12 -> "nwb" | 13 -> "cap" | 14 -> "star" | 15 -> "plus" | 16 -> "quest" | 17 -> "rep" | 18 -> "cat" | 19 -> "alt"
  | 128 -> "lparen" | _ -> "vbar"

let rx_errname = function
  | R.ErrCharRange -> "ErrCharRange" | R.ErrEscape -> "ErrEscape" | R.ErrNamedCapture -> "ErrNamedCapture" | R.ErrPerlOp -> "ErrPerlOp"
  | R.ErrRepeatOp -> "ErrRepeatOp" | R.ErrRepeatSize -> "ErrRepeatSize" | R.ErrUTF8 -> "ErrUTF8" | R.ErrMissingBracket -> "ErrMissingBracket"
  | R.ErrMissingParen -> "ErrMissingParen" | R.ErrMissingRepeatArg -> "ErrMissingRepeatArg" | R.ErrTrailingBackslash -> "ErrTrailingBackslash"
  | R.ErrUnexpectedParen -> "ErrUnexpectedParen" | R.ErrNestingDepth -> "ErrNestingDepth" | R.ErrLarge -> "ErrLarge" | R.ErrInternal -> "ErrInternal"

let rec rx_dump b (R.Node (_, o, f, subs, runes, cl, mn, mx, cap, name)) =
  let nm = rx_opname o in
  Buffer.add_string b nm; Buffer.add_char b '{'; Buffer.add_string b (string_of_int (int_of_z f)); Buffer.add_char b '}';
  (match nm with
   | "lit" ->
     Buffer.add_char b '"';
     List.iteri (fun i r -> if i > 0 then Buffer.add_char b ','; Buffer.add_string b (string_of_int (int_of_z r))) runes;
     Buffer.add_char b '"'
   | "cc" ->
     Buffer.add_char b '[';
     List.iteri (fun i (l, h) -> if i > 0 then Buffer.add_char b ',';
                  Buffer.add_string b (string_of_int (int_of_z l)); Buffer.add_char b '-'; Buffer.add_string b (string_of_int (int_of_z h))) cl;
     Buffer.add_char b ']'
   | "cap" -> Buffer.add_string b (Printf.sprintf "#%d<%s>" (int_of_z cap) (string_of_str name))
   | "rep" -> Buffer.add_string b (Printf.sprintf "{%d,%d}" (int_of_z mn) (int_of_z mx))
   | _ -> ());
  if subs <> [] then begin
    Buffer.add_char b '(';
    List.iteri (fun i s -> if i > 0 then Buffer.add_char b ' '; rx_dump b s) subs;
    Buffer.add_char b ')'
  end

let rx_fnv (s : string) : int64 =
  let h = ref 0xcbf29ce484222325L in
  String.iter (fun c -> h := Int64.mul (Int64.logxor !h (Int64.of_int (Char.code c))) 0x100000001b3L) s;
  !h

let () =
  register "C14.rx" (fun inp obs ->
    let s = str_of_string (unhex (String.trim inp)) in
    let set = if R.rx_valid s then "ok" else "err" in
    let model = match R.rx_parse s with
      | R.Ok n ->
        let b = Buffer.create 64 in
        rx_dump b n;
        let t = Buffer.contents b in
        let t = if String.length t > 4000 then Printf.sprintf "#%d:%016Lx" (String.length t) (rx_fnv t) else t in
        "ok " ^ t ^ " set=" ^ set
      | R.Err e -> "err " ^ rx_errname e ^ " set=" ^ set
      | R.OutOfFuel -> "out of fuel" in
    let ends_with suf x = let n = String.length suf and m = String.length x in m >= n && String.sub x (m - n) n = suf in
    let spec =
      if String.length obs >= 3 && String.sub obs 0 3 = "ok " then (if ends_with " set=ok" obs then "ok" else "FAIL:RegexFlag.Set rejects an expression that regexp/syntax parses")
      else if String.length obs >= 4 && String.sub obs 0 4 = "err " then (if ends_with " set=err" obs then "ok" else "FAIL:RegexFlag.Set accepts an expression that regexp/syntax rejects")
      else "FAIL:" ^ obs in
    (model, spec))
