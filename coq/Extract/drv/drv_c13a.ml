(* C13 (group A): importers swisscard2, viac, cumulus, postfinance, swisscard, supercard.
   input  = "<flags> | <hex file> | <items>"   (see harness/c13a.go)
   model  = the importer model run on the items (the records Go's reader delivered)
            (csv-records: for the importers with a plain csv reader the items are also derived from the statement's
             bytes <hex file> with the extracted reader model Model/Csv.v, Model/CsvImp.v, and must be the same)
   spec   = evaluated on the binary's output by the observer (it needs `knut print`), which
            appends " | print=... | rows=..." to the observation; here that is turned into
            the verdict.  Then the statement-level specification (Spec/ImpStmtA.v, theorems
            C13_<importer>_stdout) is evaluated: a statement the generator calls well-formed must
            satisfy <importer>_statement_wf, and the binary's stdout must be
            <importer>_statement_output of the records. *)
open Drv_util
open Drv_journal

let unhex_plain (s : string) : string =
  String.init (String.length s / 2) (fun i -> Char.chr (int_of_string ("0x" ^ String.sub s (2 * i) 2)))

let split3 (s : string) : string * string * string =
  match Str.bounded_split_delim (Str.regexp_string " | ") s 3 with
  | [a; b; c] -> (a, b, c)
  | [a; b] -> (a, b, "")
  | [a] -> (a, "", "")
  | _ -> ("", "", "")

let flag_assoc (s : string) : (string * string) list =
  List.filter_map (fun kv ->
    match String.index_opt kv '=' with
    | Some i -> Some (String.sub kv 0 i, String.sub kv (i + 1) (String.length kv - i - 1))
    | None -> None) (fields s)

(* "-" = flag absent; "x<hex>" = flag given *)
let opt_flag (v : string) : string option =
  if String.length v > 0 && v.[0] = 'x' then Some (unhex_plain (String.sub v 1 (String.length v - 1))) else None

let decode_items (s : string) : K.citem list =
  if s = "-" || s = "" then []
  else List.map (fun it ->
    if it = "!" then K.CBad
    else
      let body = String.sub it 1 (String.length it - 1) in
      K.CRec (List.map (fun f -> str_of_string (unhex_plain f)) (String.split_on_char ',' body)))
    (String.split_on_char ';' s)

(* the importers whose reader is modelled (Model/CsvImp.v) *)
let importer_cfg : string -> K.csv_cfg option = function
  | "swisscard2" -> Some K.cfg_swisscard2
  | "swisscard" -> Some K.cfg_swisscard
  | "cumulus" -> Some K.cfg_cumulus
  | "revolut2" -> Some K.cfg_revolut2
  | "revolut" -> Some K.cfg_revolut
  | "wise" -> Some K.cfg_wise
  | "swissquote" -> Some K.cfg_swissquote
  | "interactivebrokers" -> Some K.cfg_interactivebrokers
  | _ -> None

(* the reader items the model derives from the statement's bytes; None = reader not modelled (observed items stand) *)
let items_from_bytes (imp : string) (hex : string) : K.citem list option =
  let bytes = str_of_string (if hex = "-" then "" else unhex_plain hex) in
  if imp = "postfinance" then Some (K.csv_items_bom K.cfg_postfinance bytes)   (* utfbom.SkipOnly in front *)
  else if imp = "supercard" then Some (K.csv_items_supercard bytes)   (* Model/CsvLatin1.v: ISO 8859-1 decoder in front,
                                                                         FieldsPerRecord 2, 13, then -1 *)
  else match importer_cfg imp with
  | None -> None
  | Some cfg -> Some (K.csv_items cfg bytes)

(* "" when the items the harness recorded (Go's reader) are the items the model reads from the bytes *)
let csv_records_verdict (imp : string) (hex : string) (items : string) : string =
  match items_from_bytes imp hex with
  | None -> ""
  | Some its -> if its = decode_items items then "" else "FAIL:csv-records: the records Go's csv reader delivered are not the records Model/Csv.v reads from the statement's bytes"

let decode_viac (s : string) : K.vinput =
  if s = "!" then K.VErr
  else if s = "-" || s = "" then K.VValues []
  else K.VValues (List.map (fun e ->
    match String.split_on_char ',' e with
    | [d; v] -> (str_of_string (unhex_plain d), str_of_string (unhex_plain v))
    | _ -> failwith "viac entry") (String.split_on_char ';' s))

let render (r : K.irun) : string =
  let out = string_of_str r.K.ir_stdout in
  match r.K.ir_status with
  | K.SOk -> "OK " ^ esc out
  | K.SErr -> if out = "" then "ERR" else "ERR+OUT " ^ esc out
  | K.SPanic -> "PANIC"

(* F13: postfinance.go:182 prints a debugging line to stdout.  true = the pinned code; set to
   false once findings/C13-postfinance-debug-println.patch (or an equivalent fix) is applied. *)
let postfinance_debug = false

(* cobra rejects a missing required flag before run() *)
let required_account = ["swisscard2"; "postfinance"; "swisscard"]

(* the observation without the observer's verdict suffix *)
let split_observed (obs : string) : string * string * string =
  let find_last pat s =
    try Some (Str.search_backward (Str.regexp_string pat) s (String.length s)) with Not_found -> None in
  match find_last " | print=" obs with
  | None -> (obs, "na", "na")
  | Some i ->
    let base = String.sub obs 0 i in
    let rest = String.sub obs (i + 9) (String.length obs - i - 9) in
    (match find_last " | rows=" rest with
     | None -> (base, rest, "na")
     | Some j -> (base, String.sub rest 0 j, String.sub rest (j + 8) (String.length rest - j - 8)))

let clip n s = if String.length s > n then String.sub s 0 n else s

(* the records of a statement all of whose reader items are records *)
let records_of (its : K.citem list) : K.z list list list option =
  List.fold_right (fun it acc -> match it, acc with
    | K.CRec r, Some l -> Some (r :: l) | _, _ -> None) its (Some [])

(* the verdict `spec`: the extracted <importer>_statement_output (Spec/ImpStmtA.v, Spec/ImpStmtB.v), evaluated on the
   records of a statement the generator calls well-formed, must be defined (the statement satisfies the hypothesis of
   C13_<importer>_stdout) and be the standard output of the binary, byte for byte *)
let statement_verdict (imp : string) (base : string) (out : K.z list option) : string =
  match out with
  | None -> "FAIL:" ^ imp ^ "_statement_wf: the statement is outside the hypothesis of C13_" ^ imp ^ "_stdout"
  | Some o ->
    if "OK " ^ esc (string_of_str o) = base then "ok"
    else "FAIL:" ^ imp ^ "_statement_output: stdout is not the journal the specification prescribes for the statement"

let run (imp : string) (inp : string) (obs : string) : string * string =
  let (fl, hex, items) = split3 inp in
  let flags = flag_assoc fl in
  let get k = try List.assoc k flags with Not_found -> "-" in
  let acct = opt_flag (get "acct") in
  let kind = get "kind" in
  let model =
    match acct with
    | None when List.mem imp required_account -> "ERR"
    | _ ->
      let a = str_of_string (match acct with Some s -> s | None -> "") in
      render (match imp with
        | "swisscard2" -> K.run_swisscard2 a (decode_items items)
        | "cumulus" -> K.run_cumulus a (decode_items items)
        | "postfinance" -> K.run_postfinance postfinance_debug a (decode_items items)
        | "swisscard" -> K.run_swisscard a (decode_items items)
        | "supercard" -> K.run_supercard a (decode_items items)
        | "viac" ->
          let from = match opt_flag (get "from") with Some f -> Some (str_of_string f) | None -> None in
          K.run_viac a from (decode_viac items)
        | _ -> failwith ("unknown importer " ^ imp)) in
  let (base, pr, rows) = split_observed obs in
  let cls = match String.index_opt base ' ' with Some i -> String.sub base 0 i | None -> base in
  (* the executable statement-level specification (Spec/ImpStmtA.v) on the binary's stdout *)
  let statement_spec () =
    let undecoded = "FAIL:" ^ imp ^ "_statement_wf: account flag or records of a well-formed case do not decode" in
    let acc = match acct with
      | Some s -> (match K.account_flag (str_of_string s) with K.AAcc x -> Some x | _ -> None)
      | None -> None in
    match imp with
    | "viac" ->
      let from = match opt_flag (get "from") with Some f -> Some (str_of_string f) | None -> None in
      (match acct, decode_viac items with
       | Some c, K.VValues l when K.valid_name (str_of_string c) ->
         statement_verdict imp base (K.viac_statement_output (str_of_string c) from l)
       | _ -> undecoded)
    | _ ->
      (match acc, records_of (decode_items items) with
       | Some a, Some rs ->
         (match imp with
          | "swisscard2" -> statement_verdict imp base (K.sc2_statement_output a rs)
          | "supercard" -> statement_verdict imp base (K.sup_statement_output a rs)
          | "swisscard" -> statement_verdict imp base (K.sc_statement_output a rs)
          | "cumulus" -> statement_verdict imp base (K.cum_statement_output a rs)
          | "postfinance" -> statement_verdict imp base (K.pf_statement_output a rs)   (* postfinance_debug = false *)
          | _ -> failwith ("unknown importer " ^ imp))
       | _ -> undecoded) in
  let spec =
    if kind = "wf" then
      if cls <> "OK" then "FAIL:well-formed statement not imported: " ^ clip 60 base
      else
        (* the statement-level verdict is evaluated whatever the observer's verdicts say (a known finding of the
           row reader, e.g. cumulus' payment rows, must not hide a wrong journal) *)
        let st = statement_spec () in
        let also = if st = "ok" then "" else "; " ^ String.sub st 5 (String.length st - 5) in
        if pr <> "ok" && rows <> "ok" then "FAIL:print=" ^ pr ^ "; rows=" ^ rows ^ also
        else if pr <> "ok" then "FAIL:print=" ^ pr ^ also
        else if rows <> "ok" then "FAIL:rows=" ^ rows ^ also
        else st
    else
      (* a damaged statement or a missing/empty account flag: outside C13, which quantifies over
         well-formed statements (and `import` is not among C14's commands).  No verdict; the
         exit class and stdout are still compared with the model's (correspondence), and the
         outcomes are counted in the evidence (input_distribution). *)
      "ok" in
  (* the records the importer model starts from are the records the csv model reads from the statement's bytes
     (swisscard2, swisscard, cumulus, postfinance, supercard; every kind of case; viac reads JSON: observed) *)
  let spec = match csv_records_verdict imp hex items with "" -> spec | v -> v in
  (* the observation of a panic carries Go's message; the model only says PANIC *)
  let model_line = if model = "PANIC" && cls = "PANIC" then base else model in
  (model_line ^ " | print=" ^ pr ^ " | rows=" ^ rows, spec)

let () =
  List.iter (fun imp -> register ("C13." ^ imp) (run imp))
    ["swisscard2"; "viac"; "cumulus"; "postfinance"; "swisscard"; "supercard"]
