(* C17: rendered balance tables are rectangular and numerically faithful.
   C17.table: in-process table API (TextRenderer / CSVRenderer) on generated tables.
   C17.bal:   the knut binary, text (--digits n [-k]) and --csv of the same journal.
   The spec verdict evaluates Spec.TableSpec (rect_b, num_cell_ok_b, num_cell_exact_b,
   all_spaces, csv_ok_b) on the implementation's own output.  Trusted glue in this file:
   decoding of the case line, cutting the text lines into cells at the separator columns that
   Spec.TableSpec.sep_columns finds, splitting the CSV at commas and newlines. *)
open Drv_util
open Drv_journal

let sep_marker = " #CSV# "

let observed_ok_opt (obs : string) : string option =
  match prefix_strip "OK " obs with Some s -> Some (unesc s) | None -> None

let split_obs (s : string) : (string * string) option =
  match Str.bounded_split_delim (Str.regexp_string sep_marker) s 2 with
  | [a; b] -> Some (a, b)
  | _ -> None

(* ---------------------------------------------------------------- decoding the table *)
type trow = RSep | REmpty | RCells of K.cell list * bool

let align_of = function 'L' -> K.ALeft | 'R' -> K.ARight | 'C' -> K.ACenter | c -> failwith (Printf.sprintf "align %c" c)

let cell_of_token (tok : string) : K.cell =
  let n = String.length tok in
  if tok = "_" then K.CEmpty
  else match tok.[0] with
    | 'T' ->
      let i = String.index tok ':' in
      K.CText (str_of_string (unhex (String.sub tok (i + 1) (n - i - 1))), align_of tok.[1], K.Z0)
    | 'I' ->
      let i = String.index tok ':' in
      K.CText (str_of_string (unhex (String.sub tok (i + 1) (n - i - 1))), K.ALeft,
               z_of_int (int_of_string (String.sub tok 1 (i - 1))))
    | 'N' ->
      let i = String.index tok 'e' in
      K.CNum { K.coef = z_of_string (String.sub tok 1 (i - 1)); K.ex = z_of_int (int_of_string (String.sub tok (i + 1) (n - i - 1))) }
    | _ -> failwith ("cell token " ^ tok)

let row_of (s : string) : trow =
  match fields s with
  | ["S"] -> RSep
  | ["E"] -> REmpty
  | "R" :: toks ->
    let fill = (match List.rev toks with "F" :: _ -> true | _ -> false) in
    let toks = if fill then List.rev (List.tl (List.rev toks)) else toks in
    RCells (List.map cell_of_token toks, fill)
  | _ -> failwith ("row " ^ s)

type tcase = { groups : int list; digits : int; k : bool; table : K.table }

let decode_table (inp : string) : tcase =
  let (hdr, body) = split_input inp in
  let kv = Hashtbl.create 8 in
  List.iter (fun t -> match String.index_opt t '=' with
    | Some i -> Hashtbl.replace kv (String.sub t 0 i) (String.sub t (i + 1) (String.length t - i - 1))
    | None -> ()) (fields hdr);
  let groups = List.map int_of_string (String.split_on_char ',' (Hashtbl.find kv "groups")) in
  let rows = List.map row_of (List.filter (fun x -> String.trim x <> "") (split_str " ; " body)) in
  let t0 = K.table_new (List.map z_of_int groups) in
  let table = List.fold_left (fun t r -> match r with
    | RSep -> K.add_separator_row t
    | REmpty -> K.add_empty_row t
    | RCells (cs, fill) -> K.add_row t (if fill then K.fill_empty t cs else cs)) t0 rows in
  { groups; digits = int_of_string (Hashtbl.find kv "digits"); k = Hashtbl.find kv "k" = "1"; table }

(* ---------------------------------------------------------------- cutting lines into cells *)
let is_cont c = Char.code c land 0xC0 = 0x80

(* the runes of a line: each a start byte with its continuation bytes *)
let runes (s : string) : string array =
  let out = ref [] and cur = Buffer.create 4 in
  String.iter (fun c ->
    if not (is_cont c) && Buffer.length cur > 0 then (out := Buffer.contents cur :: !out; Buffer.clear cur);
    Buffer.add_char cur c) s;
  if Buffer.length cur > 0 then out := Buffer.contents cur :: !out;
  Array.of_list (List.rev !out)

(* the cell regions of a line given the separator columns p0 < p1 < ... : runes p_k+2 .. p_{k+1}-2 *)
let regions (cols : int list) (line : string) : string list =
  let rs = runes line in
  let rec go = function
    | a :: (b :: _ as rest) ->
      let buf = Buffer.create 16 in
      for i = a + 2 to b - 2 do if i >= 0 && i < Array.length rs then Buffer.add_string buf rs.(i) done;
      Buffer.contents buf :: go rest
    | _ -> [] in
  go cols

let lstrip (s : string) : string =
  let n = String.length s in
  let i = ref 0 in
  while !i < n && s.[!i] = ' ' do incr i done;
  String.sub s !i (n - !i)

let strip (s : string) : string =
  let s = lstrip s in
  let n = ref (String.length s) in
  while !n > 0 && s.[!n - 1] = ' ' do decr n done;
  String.sub s 0 !n

let all_char (c : char) (s : string) : bool = String.length s > 0 && String.for_all (fun x -> x = c) s
let blank (s : string) : bool = K.all_spaces (str_of_string s)

(* the separator columns of a rendered text, by the specification *)
let columns_of (text : string) : (string list * int list) option =
  match K.table_lines (str_of_string text) with
  | None -> None
  | Some body -> Some (List.map string_of_str body, List.map int_of_nat (K.sep_columns body))

let parse_csv_records (s : string) : string list list =
  let ls = String.split_on_char '\n' s in
  let ls = (match List.rev ls with "" :: r -> List.rev r | _ -> ls) in
  List.map (String.split_on_char ',') ls

let short s = if String.length s > 60 then String.sub s 0 60 else s

exception Fail of string

(* one numeric cell of the text against the amount it shows *)
let check_num ~(k : bool) ~(digits : int) (d : K.dec) (region : string) (where : string) : unit =
  if K.is_zero d then (if not (blank region) then raise (Fail (where ^ " zero amount not blank: '" ^ short region ^ "'")))
  else begin
    let s = lstrip region in
    let z = str_of_string s in
    if not (K.num_cell_ok_b k (z_of_int digits) d z) then raise (Fail (where ^ " num_cell_ok_b '" ^ short s ^ "'"));
    if not (K.num_cell_exact_b k (z_of_int digits) d z) then raise (Fail (where ^ " num_cell_exact_b '" ^ short s ^ "'"))
  end

let spec_table (tc : tcase) (obs : string) : string =
  match split_obs obs with
  | None -> "FAIL:" ^ short obs
  | Some (gtext_e, gcsv_e) ->
    let gtext = unesc gtext_e and gcsv = unesc gcsv_e in
    let n = List.fold_left (+) 0 tc.groups in
    try
      if not (K.rect_b (nat_of_int n) (str_of_string gtext)) then raise (Fail "rect_b");
      (match columns_of gtext with
       | None -> raise (Fail "table_lines")
       | Some (lines, cols) ->
         if List.length cols <> n + 1 then raise (Fail (Printf.sprintf "separator columns %d for %d table columns" (List.length cols) n));
         let rows = tc.table.K.t_rows in
         if List.length rows <> List.length lines then raise (Fail "number of lines");
         List.iteri (fun i (row, line) ->
           let regs = regions cols line in
           if List.length regs <> List.length row then raise (Fail (Printf.sprintf "row %d cell count" i));
           List.iteri (fun j (c, reg) ->
             let where = Printf.sprintf "row %d col %d" i j in
             match c with
             | K.CNum d -> check_num ~k:tc.k ~digits:tc.digits d reg where
             | K.CEmpty -> if not (blank reg) then raise (Fail (where ^ " empty cell not blank"))
             | K.CSep -> if not (String.for_all (fun x -> x = '-') reg) then raise (Fail (where ^ " separator cell"))
             | K.CText (s, _, _) ->
               if strip reg <> strip (string_of_str s) then raise (Fail (where ^ " text '" ^ short reg ^ "'")))
             (List.combine row regs))
           (List.combine rows lines));
      if not (K.csv_ok_b tc.table.K.t_rows (List.map (List.map str_of_string) (parse_csv_records gcsv))) then raise (Fail "csv_ok_b");
      "ok"
    with Fail m -> "FAIL:" ^ m

(* ---------------------------------------------------------------- the binary *)
let replace_first (pat : string) (by : string) (s : string) : string =
  Str.replace_first (Str.regexp_string pat) by s

let count_char c s = String.fold_left (fun a x -> if x = c then a + 1 else a) 0 s

(* text and CSV of the same report, both from the binary: every visible text row is a CSV record;
   text cells equal the CSV fields, numeric cells are the CSV's exact amount rounded *)
let spec_bal (cfg : cfg) (text : string) (csv : string) : string =
  try
    let first = (match String.index_opt text '\n' with Some i -> String.sub text 0 i | None -> text) in
    if String.length first = 0 || first.[0] <> '+' then raise (Fail "first line is not a separator row");
    let n = count_char '+' first - 1 in
    if not (K.rect_b (nat_of_int n) (str_of_string text)) then raise (Fail "rect_b");
    (match columns_of text with
     | None -> raise (Fail "table_lines")
     | Some (lines, cols) ->
       if List.length cols <> n + 1 then raise (Fail "separator columns");
       let cells = List.map (regions cols) lines in
       let visible = List.filter (fun regs ->
         not (List.for_all blank regs) && not (List.for_all (fun r -> String.for_all (fun x -> x = '-') r) regs)) cells in
       let recs = parse_csv_records csv in
       if List.length visible <> List.length recs then
         raise (Fail (Printf.sprintf "visible text rows %d, csv records %d" (List.length visible) (List.length recs)));
       let text_cols = (match recs with (_ :: "Comm" :: _) :: _ -> 2 | _ -> 1) in
       List.iteri (fun i (regs, rc) ->
         if List.length regs <> List.length rc then raise (Fail (Printf.sprintf "row %d: field count" i));
         List.iteri (fun j (reg, f) ->
           let where = Printf.sprintf "row %d col %d" i j in
           if i = 0 || j < text_cols then
             (if strip reg <> f then raise (Fail (where ^ " text '" ^ short reg ^ "' csv '" ^ short f ^ "'")))
           else if f = "" then (if not (blank reg) then raise (Fail (where ^ " empty csv field, text '" ^ short reg ^ "'")))
           else match K.of_string (str_of_string f) with
             | None -> raise (Fail (where ^ " csv field is not a number: " ^ short f))
             | Some d ->
               (* --thousands divides with 16 digits: exact for amounts with <= 13 decimals (C17 div1000_exact) *)
               if cfg.thousands && int_of_z d.K.ex < -13 then ()
               else check_num ~k:cfg.thousands ~digits:cfg.digits d reg where)
           (List.combine regs rc))
         (List.combine visible recs));
    "ok"
  with Fail m -> "FAIL:" ^ m

let () =
  register "C17.table" (fun inp obs ->
    let tc = decode_table inp in
    let tcfg = { K.tc_thousands = tc.k; K.tc_round = z_of_int tc.digits } in
    let model = esc (string_of_str (K.render_text tcfg tc.table)) ^ sep_marker ^ esc (string_of_str (K.render_csv tc.table)) in
    (model, spec_table tc obs));
  register "C17.bal" (fun inp obs ->
    let (c, _) = split_input inp in
    let cfg = decode_cfg c in
    let inp_csv = replace_first " csv=0" " csv=1" inp in
    let model = run_balance inp ^ sep_marker ^ run_balance inp_csv in
    let spec =
      match split_obs obs with
      | None -> "FAIL:" ^ short obs
      | Some (t, v) ->
        (match observed_ok_opt t, observed_ok_opt v with
         | Some text, Some csv -> spec_bal cfg text csv
         | None, None when t = v -> "ok"      (* both rejected the same way: outside C17 (clean failure is C14's) *)
         | _ -> "FAIL:text " ^ short t ^ " / csv " ^ short v) in
    (model, spec))
