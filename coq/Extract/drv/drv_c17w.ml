(* C17 (weights): the text table of `knut portfolio weights`.
   C17.wtable   in-process tables with percent cells (floats by bit pattern): model text must be byte-identical.
   C17.weights  the binary's text table against Model.WeightsTable.weights_text_cmd, cell by cell, line by line.
   The model output carries an observation after " #NOTE# " (checks/c17.py strips it before comparing):
     nonrect=nan|overflow|badprec   the binary's table is not rectangular, and the model says why
     float=<k>                      k percent cells differ from the model's by one unit of the last place (float64
                                    arithmetic along another path than the nearest float of the exact weight)
   The spec verdict: whenever the model's executable condition wtable_fits_b holds of the table, rect_b must hold of the
   implementation's text (the statement of C17_weights_rect on the Go output); every printed percentage of the binary
   must pass pct_cell_ok_b against the exact rational weight; +Inf% / -Inf% / a blank cell where the total is zero.
   Trusted glue in this file: decoding of the case line and of float bit patterns, splitting text lines at '|'. *)
open Drv_util
open Drv_journal

let note_marker = " #NOTE# "

(* ---------------------------------------------------------------- floats *)
let f64_of_bits (hex : string) : K.f64 =
  let hi = int_of_string ("0x" ^ String.sub hex 0 8) and lo = int_of_string ("0x" ^ String.sub hex 8 8) in
  let neg = (hi lsr 31) land 1 = 1 in
  let e = (hi lsr 20) land 0x7ff in
  let m = ((hi land 0xfffff) lsl 32) lor lo in
  if e = 0x7ff then (if m = 0 then K.FInf neg else K.FNaN)
  else if e = 0 then K.FFin (neg, z_of_int m, z_of_int (-1074))
  else K.FFin (neg, z_of_int (m lor (1 lsl 52)), z_of_int (e - 1075))

(* ---------------------------------------------------------------- C17.wtable *)
let kv_of (s : string) =
  let kv = Hashtbl.create 16 in
  List.iter (fun t -> match String.index_opt t '=' with
    | Some i -> Hashtbl.replace kv (String.sub t 0 i) (String.sub t (i + 1) (String.length t - i - 1))
    | None -> ()) (fields s);
  fun k -> try Hashtbl.find kv k with Not_found -> "-"

let wcell_of_token (tok : string) : K.pcell =
  if String.length tok = 17 && tok.[0] = 'P' then K.WPct (f64_of_bits (String.sub tok 1 16))
  else K.WBase (Drv_c17.cell_of_token tok)

let rec repeat x n = if n <= 0 then [] else x :: repeat x (n - 1)

let decode_wtable (inp : string) : int * K.wtable =
  let (hdr, body) = split_input inp in
  let g = kv_of hdr in
  let groups = List.map int_of_string (String.split_on_char ',' (g "groups")) in
  let cols = K.columns_of (List.map z_of_int groups) K.Z0 in
  let width = List.length cols in
  let rows = List.map (fun s ->
    match fields s with
    | ["S"] -> repeat (K.WBase K.CSep) width
    | ["E"] -> repeat (K.WBase K.CEmpty) width
    | "R" :: toks ->
      let fill = (match List.rev toks with "F" :: _ -> true | _ -> false) in
      let toks = if fill then List.rev (List.tl (List.rev toks)) else toks in
      let cs = List.map wcell_of_token toks in
      if fill then cs @ repeat (K.WBase K.CEmpty) (width - List.length cs) else cs
    | _ -> failwith ("row " ^ s)) (List.filter (fun x -> String.trim x <> "") (split_str " ; " body)) in
  (int_of_string (g "digits"), { K.wt_columns = cols; K.wt_rows = rows })

(* why the model's table is not rectangular *)
let cause (round : int) (t : K.wtable) : string option =
  match K.first_misfit (z_of_int round) t with
  | None -> None
  | Some (_, K.WPct K.FNaN) -> Some "nan"
  | Some _ -> Some (if round < 0 || round > 1000000 then "badprec" else "overflow")

let rect (ncols : int) (text : string) : bool = K.rect_b (nat_of_int ncols) (str_of_string text)

let note_of (round : int) (t : K.wtable) (obs_text : string) : string =
  let r = rect (List.length t.K.wt_columns) obs_text in
  match cause round t, r with
  | None, _ -> ""
  | Some c, false -> note_marker ^ "nonrect=" ^ c
  | Some c, true -> note_marker ^ "misfit-but-rect=" ^ c

(* fits => rectangular, on the implementation's text *)
let rect_verdict (round : int) (t : K.wtable) (obs_text : string) : string =
  if K.wtable_fits_b (z_of_int round) t && not (rect (List.length t.K.wt_columns) obs_text)
  then "FAIL:every cell fits its column (wtable_fits_b) but the text is not rectangular (rect_b)" else "ok"

(* ---------------------------------------------------------------- C17.weights *)
let universe_of (s : string) =
  if s = "-" || s = "" then None else
  Some (List.filter_map (fun cl ->
    match String.rindex_opt cl '=' with
    | Some i -> Some (str_of_string (String.sub cl 0 i),
                      List.map str_of_string (String.split_on_char ',' (String.sub cl (i + 1) (String.length cl - i - 1))))
    | None -> None) (String.split_on_char ';' s))

(* as Drv_c20.decode_pf (that module is linked after this one) *)
let decode_pf (s : string) : K.pf_cfg =
  let g = kv_of s in
  { K.pc_from = date_of (g "from"); K.pc_to = date_of (g "to");
    K.pc_interval = Drv_c11.interval_of_string (g "iv");
    K.pc_last = z_of_int (int_of_string (g "last"));
    K.pc_valuation = (if g "val" = "-" then None else Some (str_of_string (g "val")));
    K.pc_accounts = List.map rx_of (list_dec (g "acc"));
    K.pc_commodities = List.map rx_of (list_dec (g "com"));
    K.pc_mapping = List.map rule_of (list_dec (g "map"));
    K.pc_alpha = (g "alpha" = "1");
    K.pc_universe = universe_of (g "uni");
    K.pc_lenient = true }

let lines_of (text : string) : string list =
  let ls = String.split_on_char '\n' text in
  (* the rendering ends with "\n\n": two empty strings at the end *)
  match List.rev ls with "" :: "" :: r -> List.rev r | _ -> ls

(* the raw cells of a body line: what stands between the '|' *)
let raw_cells (l : string) : string list =
  match String.split_on_char '|' l with
  | _ :: rest -> (match List.rev rest with _ :: r -> List.rev r | [] -> [])
  | [] -> []

let content (raw : string) : string =
  let n = String.length raw in
  if n >= 2 then String.trim (String.sub raw 1 (n - 2)) else String.trim raw

let badprec = "%!(BADPREC)"
let strip_badprec (s : string) : string =
  match prefix_strip badprec s with Some r -> String.trim r | None -> s

exception Fail of string
let short s = if String.length s > 60 then String.sub s 0 60 else s

(* model text vs binary text: equal, or equal up to percent cells one unit apart; returns the number of such cells *)
let tolerant (p : int) (mtext : string) (otext : string) : int option =
  let ml = lines_of mtext and ol = lines_of otext in
  if List.length ml <> List.length ol then None else
  try
    let k = ref 0 in
    List.iter2 (fun m o ->
      if m <> o then begin
        if String.length m = 0 || m.[0] <> '|' then raise Exit;
        let mc = raw_cells m and oc = raw_cells o in
        if List.length mc <> List.length oc then raise Exit;
        List.iter2 (fun a b ->
          if a <> b then begin
            if String.length a <> String.length b then raise Exit;
            let a' = strip_badprec (content a) and b' = strip_badprec (content b) in
            if K.pct_close_b (z_of_int p) (str_of_string a') (str_of_string b') then incr k else raise Exit
          end) mc oc
      end) ml ol;
    Some !k
  with Exit -> None

let q_of_ints (a : int) (b : int) : K.q = { K.qnum = z_of_int a; K.qden = pos_of_int b }

(* every printed cell of the binary against the exact weight *)
let faithful (round : int) (dates : K.z list) (rows : K.xrow list) (otext : string) : string =
  let bad = round < 0 || round > 1000000 in
  let p = if bad then 6 else round in
  try
    let body = List.filter (fun l -> l <> "" && l.[0] = '|') (lines_of otext) in
    (match body with
     | [] -> raise (Fail "no header line")
     | h :: lines ->
       let hc = List.map content (raw_cells h) in
       if hc <> "Commodity" :: List.map Drv_c11.fmt_date dates then raise (Fail ("header " ^ short h));
       if List.length lines <> List.length rows then
         raise (Fail (Printf.sprintf "%d rows, model %d" (List.length lines) (List.length rows)));
       List.iteri (fun i (l, ((ind, seg), cells)) ->
         match raw_cells l with
         | first :: cs ->
           let want = String.make (1 + int_of_z ind) ' ' ^ string_of_str seg in
           if String.length first < String.length want || String.sub first 0 (String.length want) <> want
              || String.trim (String.sub first (String.length want) (String.length first - String.length want)) <> "" then
             raise (Fail (Printf.sprintf "row %d label '%s'" i (short first)));
           if List.length cs <> List.length cells then raise (Fail (Printf.sprintf "row %d cell count" i));
           List.iteri (fun j (raw, cell) ->
             let where = Printf.sprintf "row %d col %d '%s'" i j (short raw) in
             let c = content raw in
             let c = if bad && c <> "" then
                 (match prefix_strip badprec c with Some r -> String.trim r | None -> raise (Fail (where ^ " no BADPREC"))) else c in
             let ok_num v =
               let slack = K.qmult (q_of_ints 1 1000000000) (K.qplus (q_of_ints 1 1) (K.qabs (K.qmult (q_of_ints 100 1) v))) in
               K.pct_cell_ok_b (z_of_int p) v slack (str_of_string c) in
             match cell with
             | None -> if not (c = "" || ok_num (q_of_ints 0 1)) then raise (Fail (where ^ " no weight, cell not blank"))
             | Some (K.XFin q) -> if not (ok_num q) then raise (Fail (where ^ " pct_cell_ok_b"))
             | Some (K.XInf neg) -> if c <> (if neg then "-Inf%" else "+Inf%") then raise (Fail (where ^ " infinite weight"))
             (* a NaN weight: the binary writes nothing (the model says so too: the comparison of the texts is exact
                there); a blank cell or "NaN%" would be just as faithful, so the verdict accepts them *)
             | Some K.XNaN -> if not (c = "" || c = "NaN%") then raise (Fail (where ^ " NaN weight printed as a number")))
             (List.combine cs cells)
         | [] -> raise (Fail (Printf.sprintf "row %d empty" i)))
         (List.combine lines rows));
    "ok"
  with Fail m -> "FAIL:" ^ m

let () =
  register "C17.wtable" (fun inp obs ->
    let (round, t) = decode_wtable inp in
    let mtext = string_of_str (K.wrender_text (z_of_int round) t) in
    let otext = unesc obs in
    (esc mtext ^ note_of round t otext, rect_verdict round t otext));

  register "C17.weights" (fun inp obs ->
    let (c, j) = split_input inp in
    let cfg = decode_pf c in
    let round = int_of_string (kv_of c "digits") in
    let ds = decode_journal j in
    match K.weights_xtable cfg ds with
    | K.COk (dates, xrows) ->
      let frows = List.map K.frow_of_xrow xrows in
      let t = K.weights_wtable dates frows in
      let mtext = string_of_str (K.weights_text (z_of_int round) dates frows) in
      (* the two command models agree: Model/CliPortfolio's table is this one with one value for +Inf, -Inf, NaN *)
      let agree = (match K.weights_table cfg ds with
                   | K.COk (d2, wrows) -> d2 = dates && wrows = List.map K.wrow_of_xrow xrows
                   | _ -> false) in
      (match prefix_strip "OK " obs with
       | Some oe ->
         let otext = unesc oe in
         let note = note_of round t otext in
         let p = if round < 0 || round > 1000000 then 6 else round in
         let (model, fl) =
           if mtext = otext then ("OK " ^ esc mtext, "")
           else (match tolerant p mtext otext with
                 | Some k -> (obs, Printf.sprintf "float=%d" k)
                 | None -> ("OK " ^ esc mtext, "")) in
         let note = if fl = "" then note else if note = "" then note_marker ^ fl else note ^ " " ^ fl in
         let spec =
           if not agree then "FAIL:Model/WeightsTable.weights_xtable and Model/CliPortfolio.weights_table differ"
           else match rect_verdict round t otext with
             | "ok" -> faithful round dates xrows otext
             | f -> f in
         (model ^ note, spec)
       | None -> ("OK " ^ esc mtext, "FAIL:command failed: " ^ short obs))
    | r ->
      let model = render_result (match r with K.CErr (a, b) -> K.CErr (a, b) | K.CPanic m -> K.CPanic m | K.COk _ -> K.CPanic []) in
      (model, if String.length obs >= 2 && String.sub obs 0 2 = "OK" then "FAIL:the model rejects, the binary printed a table" else "ok"))
