(* C14, flag values.  op C14.flag, input "<kind> <hex value>" (harness/c14flags.go); model output: what
   Model/Flags.v parse_value yields, rendered like the observation ("ok m=?" for an accepted regular expression
   whose meaning Model/Str.v cannot express: accepted/rejected is predicted for every string, the matches are not);
   spec verdict: Flags.value_in_range on the value the implementation accepted. *)
open Drv_util
open Drv_journal

let probes = [""; "Assets"; "Assets:Bank"; "Assets:Bank:Savings"; "Expenses:Rent"; "Income:Salary"; "Equity:Equity";
              "Expenses:TBD"; "CHF"; "USD"; "assets"; "a"; "ab"; "b"; "aab"; "abab"; "xay"]

let fmt_date (d : K.z) : string =
  let ((y, m), dd) = K.civil d in
  Printf.sprintf "%04d-%02d-%02d" (int_of_z y) (int_of_z m) (int_of_z dd)

let kind_of = function
  | "int64" -> Some K.FlagsM.KInt64 | "int32" -> Some K.FlagsM.KInt32 | "bool" -> Some K.FlagsM.KBool
  | "date" -> Some K.FlagsM.KDate | "rx" -> Some K.FlagsM.KRegex | "map" -> Some K.FlagsM.KMapping
  | _ -> None

let render_value (v : K.FlagsM.fvalue) : string =
  match v with
  | K.FlagsM.VBool b -> "ok " ^ (if b then "true" else "false")
  | K.FlagsM.VInt n -> "ok " ^ string_of_z n
  | K.FlagsM.VDate d -> "ok " ^ fmt_date d
  | K.FlagsM.VRegex src ->
    (match K.FlagsM.rx_sem src with
     | Some rs -> "ok m=" ^ String.concat "" (List.map (fun p -> if K.rxs_match rs (str_of_string p) then "1" else "0") probes)
     | None -> "ok m=?")
  | K.FlagsM.VRule (l, s, r) ->
    Printf.sprintf "ok %s %s %s" (string_of_z l) (string_of_z s)
      (match r with None -> "-" | Some x -> let t = string_of_str x in "x" ^ (if t = "" then "-" else String.concat "" (List.map (fun c -> Printf.sprintf "%02x" (Char.code c)) (List.init (String.length t) (String.get t)))))
  | K.FlagsM.VStr s -> "ok " ^ string_of_str s

(* the observation as a value of the model's type, for the spec verdict *)
let observed_value (kind : string) (obs : string) : K.FlagsM.fvalue option =
  match kind, fields obs with
  | ("int64" | "int32"), ["ok"; n] -> (try Some (K.FlagsM.VInt (z_of_string n)) with _ -> None)
  | "bool", ["ok"; b] -> Some (K.FlagsM.VBool (b = "true"))
  | "date", ["ok"; d] ->
    (match String.split_on_char '-' d with
     | [y; m; dd] -> (try Some (K.FlagsM.VDate (K.of_civil (z_of_string y) (z_of_string m) (z_of_string dd))) with _ -> None)
     | _ -> None)
  | "rx", "ok" :: _ -> Some (K.FlagsM.VRegex [])
  | "map", ["ok"; l; s; _] -> (try Some (K.FlagsM.VRule (z_of_string l, z_of_string s, None)) with _ -> None)
  | _ -> None

let () =
  register "C14.flag" (fun inp obs ->
    match fields inp with
    | [kind; hv] ->
      let v = str_of_string (unhex hv) in
      if kind = "com" then
        ((if K.FlagsM.commodity_name_ok v then "ok" else "err"), "ok")
      else begin
        match kind_of kind with
        | None -> ("bad kind", "FAIL:bad kind")
        | Some k ->
          let model = match K.FlagsM.parse_value k v with
            | K.FlagsM.VOk x -> render_value x
            | K.FlagsM.VErr e ->
              (match e with
               | K.FlagsM.EIntSyntax -> "err syntax" | K.FlagsM.EIntRange -> "err range" | _ -> "err") in
          let spec =
            if String.length obs >= 3 && String.sub obs 0 3 = "err" then "ok"
            else match observed_value kind obs with
              | Some ov -> if K.FlagsM.value_in_range k ov then "ok" else "FAIL:" ^ kind ^ " flag accepted a value out of range: " ^ obs
              | None -> "FAIL:unreadable observation " ^ obs in
          (model, spec)
      end
    | _ -> ("bad input", "FAIL:bad input"))
