(* C15: `knut infer` edits only the placeholder account.
   op C15.infer  input: "<fixed|orig> <hex placeholder> <hex training> <hex target>"
     (first field: model variant; fixed = the repaired code, /repo e8bd689, the default; orig = the code before it,
      kept for replaying the cases of findings/C15-infer.md)
     observed: OK <hex stdout> ; <Go tree of stdout | REPARSE-ERR> ; <det|nondet>  |  ERR <hex stdout>
     model   : OK <hex> | ERR       (checks/c15.py compares with the first field / "ERR")
               the implementation's choices (read off the observed tree at the placeholder
               positions) are passed to the model as [choose]
     spec    : on the Go tree of the printed text: infer_ok_b against the target, gaps equal,
               every choice is one of the model's candidates, the text parses, 10 runs agree *)
open Drv_util

let text_of_hex = Drv_c07.text_of_hex
let hex_of_text = Drv_c08.hex_of_text
let letter = K.UnicodeM.is_letter
let digit = K.UnicodeM.is_digit
module F = K.FmtSpecM

let str_eq (a : K.z list) (b : K.z list) = K.BytesM.str_eqb a b

(* the accounts found in [out] at the sides where [target] has the placeholder, in call order *)
let read_choices ph (target : F.sem_directive list) (out : F.sem_directive list) : K.z list list option =
  let acc = ref [] in
  let ok = ref (List.length target = List.length out) in
  if !ok then
    List.iter2 (fun d d' ->
      match d, d' with
      | F.SemTrx (_, _, bs, _, _), F.SemTrx (_, _, bs', _, _) when List.length bs = List.length bs' ->
        List.iter2 (fun (b : F.sem_booking) (b' : F.sem_booking) ->
          if str_eq (fst b.F.sb_credit) ph then acc := fst b'.F.sb_credit :: !acc;
          if str_eq (fst b.F.sb_debit) ph then acc := fst b'.F.sb_debit :: !acc) bs bs'
      | F.SemTrx _, _ -> ok := false
      | _ -> ()) target out;
  if !ok then Some (List.rev !acc) else None

let () =
  register "C15.infer" (fun inp obs ->
    match String.split_on_char ' ' inp with
    | [variant; hph; htr; htg] ->
      let v = if variant = "orig" then K.BayesM.Orig else K.BayesM.Fixed in
      let ph = text_of_hex hph and training = text_of_hex htr and target = text_of_hex htg in
      let ptr = K.SynM.parse_text letter digit training and ptg = K.SynM.parse_text letter digit target in
      let obs_fields = Drv_c08.split_fields obs in
      let obs_ok = Drv_c07.starts_with "OK " obs in
      let out_text, out_tree, det =
        match obs_fields with
        | [a; b; c] when obs_ok -> (Some (text_of_hex (String.sub a 3 (String.length a - 3))), b, c)
        | _ -> (None, "", "") in
      (match ptr, ptg with
       | K.SynM.ParseOk ftr, K.SynM.ParseOk ftg ->
         let tr_sems = F.sem training ftr and tg_sems = F.sem target ftg in
         let out_file =
           match out_text with
           | Some _ when out_tree <> "REPARSE-ERR" ->
             (try Some (Drv_c07.rd_file (Drv_c07.parse_sx out_tree)) with _ -> None)
           | _ -> None in
         let out_sems = match out_text, out_file with Some ot, Some f -> Some (F.sem ot f) | _ -> None in
         let choices = match out_sems with Some os -> read_choices ph tg_sems os | None -> None in
         let bad_choice = ref false in
         let choose (k : K.nat) (l : K.z list list) : K.z list option =
           if l = [] then None
           else match choices with
             | Some cs ->
               (match List.nth_opt cs (int_of_nat k) with
                | Some x -> if not (List.exists (str_eq x) l) then bad_choice := true; Some x
                | None -> None)
             | None -> None in
         let model =
           match K.BayesM.infer_with ph v letter digit choose training target with
           | K.BayesM.InferOut o -> "OK " ^ hex_of_text o
           | K.BayesM.InferErr -> "ERR"
           | K.BayesM.InferBad -> "BAD" in
         let spec =
           if not obs_ok then (if Drv_c07.starts_with "ERR" obs then "FAIL:command-failed-on-parseable-files" else "FAIL:" ^ (if String.length obs > 40 then String.sub obs 0 40 else obs))
           else if det <> "det" then "FAIL:nondeterministic"
           else match out_text, out_file, out_sems with
             | Some ot, Some f, Some os ->
               if !bad_choice then "FAIL:choice-not-a-candidate"
               else if not (K.InferSpecM.infer_ok_b ph tr_sems tg_sems os) then "FAIL:infer_ok_b"
               else if not (F.list_eqb K.BytesM.str_eqb (F.gaps target ftg) (F.gaps ot f)) then "FAIL:gaps-changed"
               else "ok"
             | _ -> "FAIL:output-does-not-parse" in
         (model, spec)
       | _ ->
         (* a file does not parse: the command must fail and print nothing *)
         let spec =
           if obs = "ERR " then "ok"
           else if Drv_c07.starts_with "ERR " obs then "FAIL:error-with-output"
           else if obs_ok then "FAIL:succeeded-on-unparseable-file"
           else "FAIL:" ^ (if String.length obs > 40 then String.sub obs 0 40 else obs) in
         ("ERR", spec))
    | _ -> ("BADINPUT", "EXN"))
