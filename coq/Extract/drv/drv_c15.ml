(* C15: `knut infer` edits only the placeholder account.
   op C15.infer  input: "<fixed|orig> <hex placeholder> <training> <hex target>"
     (first field: model variant; fixed = the repaired code, /repo e8bd689, the default; orig = the code before it,
      kept for replaying the cases of findings/C15-infer.md)
     <training> = <hex of the one training file>
                | tree:<hex path>=<hex content>,<hex path>=<hex content>,...   an include tree, first entry = the file
                  given to -t; paths relative to the training directory.  The model of the training load is
                  Model/InferFs.v [training_files] (Model/Loader.v on the skeleton of the tree: include resolution,
                  cycle detection, missing / unparseable files) and [training_sems] (the meanings of all visited
                  files); a single file is the tree with one entry.  The command on these meanings is
                  [infer_with_sems] (= Model/Bayes.v infer_with on one file: C15_training_without_includes).
     observed: OK <hex stdout> ; <Go tree of stdout | REPARSE-ERR> ; <det|nondet>  |  ERR <hex stdout>
     model   : OK <hex> | ERR       (checks/c15.py compares with the first field / "ERR")
               the implementation's choices (read off the observed tree at the placeholder
               positions) are passed to the model as [choose]
     spec    : on the Go tree of the printed text: infer_ok_b against the target, gaps equal,
               every choice is one of the model's candidates, the text parses, 10 runs agree,
               and every choice is the one Model/BayesScore.v makes (infer_scored_sems: counts,
               tokenize, scoreCandidate in sorted token order, first maximum over the sorted
               candidates) when its abstract float64 operations are instantiated with IEEE double
               arithmetic and [go_log], a transcription of Go's math.Log for amd64
               (src/math/log_amd64.s = log.go), and strings.Fields / strings.ToLower with
               [fields] / [lower] below (ASCII and Latin-1 letters: all the generator uses).
               This part is TRUSTED transcription, not proved: FAIL:choice-differs-from-model *)
open Drv_util

let text_of_hex = Drv_c07.text_of_hex
let hex_of_text = Drv_c08.hex_of_text
let letter = K.UnicodeM.is_letter
let digit = K.UnicodeM.is_digit
module F = K.FmtSpecM

let str_eq (a : K.z list) (b : K.z list) = K.BytesM.str_eqb a b

(* ---- the float64 operations of bayes.go ---- *)

(* math.Log as Go computes it on amd64 (log_amd64.s; the same operations in the same order as
   log.go), for positive finite normal arguments -- all that scoreCandidate passes *)
let go_log (x : float) : float =
  let ln2hi = 6.93147180369123816490e-01 and ln2lo = 1.90821492927058770002e-10
  and l1 = 6.666666666666735130e-01 and l2 = 3.999999999940941908e-01 and l3 = 2.857142874366239149e-01
  and l4 = 2.222219843214978396e-01 and l5 = 1.818357216161805012e-01 and l6 = 1.531383769920937332e-01
  and l7 = 1.479819860511658591e-01 in
  if Float.is_nan x || x = Float.infinity then x
  else if x < 0.0 then Float.nan
  else if x = 0.0 then Float.neg_infinity
  else begin
    let f1, ki = Float.frexp x in
    (* log_amd64.s: cmpnlt HSqrt2, f1 -- "not (HSqrt2 < f1)" *)
    let f1, ki = if not (7.07106781186547524401e-01 < f1) then (f1 *. 2.0, ki - 1) else (f1, ki) in
    let f = f1 -. 1.0 in
    let k = float_of_int ki in
    let s = f /. (2.0 +. f) in
    let s2 = s *. s in
    let s4 = s2 *. s2 in
    let t1 = s2 *. (l1 +. s4 *. (l3 +. s4 *. (l5 +. s4 *. l7))) in
    let t2 = s4 *. (l2 +. s4 *. (l4 +. s4 *. l6)) in
    let r = t1 +. t2 in
    let hfsq = 0.5 *. f *. f in
    k *. ln2hi -. ((hfsq -. (s *. (hfsq +. r) +. k *. ln2lo)) -. f)
  end

(* math.Log(float64(a) / float64(b)) *)
let flog (a : K.z) (b : K.z) : float = go_log (float_of_int (int_of_z a) /. float_of_int (int_of_z b))

(* strings.Fields: split around runs of white space (ASCII white space, U+0085, U+00A0) *)
let fields (s : K.z list) : K.z list list =
  let b = List.map int_of_z s in
  let rec go acc cur = function
    | [] -> List.rev (if cur = [] then acc else List.rev cur :: acc)
    | 0xC2 :: (0x85 | 0xA0) :: r -> go (if cur = [] then acc else List.rev cur :: acc) [] r
    | c :: r when c = 32 || (c >= 9 && c <= 13) -> go (if cur = [] then acc else List.rev cur :: acc) [] r
    | c :: r -> go acc (c :: cur) r in
  List.map (List.map z_of_int) (go [] [] b)

(* strings.ToLower for ASCII and the Latin-1 supplement (U+00C0..U+00DE except U+00D7) *)
let lower (s : K.z list) : K.z list =
  let rec go = function
    | [] -> []
    | 0xC3 :: c :: r when c >= 0x80 && c <= 0x9E && c <> 0x97 -> 0xC3 :: (c + 0x20) :: go r
    | c :: r when c >= 65 && c <= 90 -> (c + 32) :: go r
    | c :: r -> c :: go r in
  List.map z_of_int (go (List.map int_of_z s))

(* the calls of inferAccount as the model of the choice makes them: Some winner | None *)
let scored_trace ph (training : F.sem_directive list) (target : F.sem_directive list) : K.z list option list =
  snd (K.BayesScoreM.infer_scored_sems flog (+.) (fun a b -> a > b) fields lower ph training target)

(* the accounts found in [out] at the sides where [target] has the placeholder, in call order *)
let read_choices ph (target : F.sem_directive list) (out : F.sem_directive list) : K.z list list option =
  let acc = ref [] in
  let ok = ref (List.length target = List.length out) in
  if !ok then
    List.iter2 (fun d d' ->
      match d, d' with
      | F.SemTrx (_, _, bs, _, _), F.SemTrx (_, _, bs', _, _) when List.length bs = List.length bs' ->
        List.iter2 (fun (b : F.sem_booking) (b' : F.sem_booking) ->
          if str_eq (fst b.F.sb_credit) ph then acc := fst b'.F.sb_credit :: !acc;
          if str_eq (fst b.F.sb_debit) ph then acc := fst b'.F.sb_debit :: !acc) bs bs'
      | F.SemTrx _, _ -> ok := false
      | _ -> ()) target out;
  if !ok then Some (List.rev !acc) else None

(* the training field: a file system of Model/InferFs.v and the path given to -t *)
let decode_training (field : string) : (K.z list list * K.z list) list * K.z list list =
  let path_of s = K.LoaderM.path_of_string (Drv_journal.str_of_string s) in
  let pfx = "tree:" in
  let n = String.length pfx in
  if String.length field >= n && String.sub field 0 n = pfx then begin
    let entries = List.filter (fun e -> e <> "") (String.split_on_char ',' (String.sub field n (String.length field - n))) in
    let fs = List.map (fun e ->
      match String.index_opt e '=' with
      | Some i -> (K.LoaderM.path_of_string (text_of_hex (String.sub e 0 i)), text_of_hex (String.sub e (i + 1) (String.length e - i - 1)))
      | None -> failwith "bad tree entry") entries in
    match fs with
    | (root, _) :: _ -> (fs, root)
    | [] -> ([], path_of "missing.knut")
  end else
    ([ (path_of "training.knut", text_of_hex field) ], path_of "training.knut")

let () =
  register "C15.infer" (fun inp obs ->
    match String.split_on_char ' ' inp with
    | [variant; hph; htr; htg] ->
      let v = if variant = "orig" then K.BayesM.Orig else K.BayesM.Fixed in
      let ph = text_of_hex hph and target = text_of_hex htg in
      let (fs, troot) = decode_training htr in
      (* syntax.ParseFileRecursively on the training journal: the visited files, or an error *)
      let loaded =
        match K.InferFsM.training_files letter digit fs troot with
        | K.InferFsM.TrOk files -> Some (K.InferFsM.training_sems letter digit fs files)
        | K.InferFsM.TrErr _ -> None
        | K.InferFsM.TrFuel -> failwith "training_files: out of fuel" in
      let ptg = K.SynM.parse_text letter digit target in
      let obs_fields = Drv_c08.split_fields obs in
      let obs_ok = Drv_c07.starts_with "OK " obs in
      let out_text, out_tree, det =
        match obs_fields with
        | [a; b; c] when obs_ok -> (Some (text_of_hex (String.sub a 3 (String.length a - 3))), b, c)
        | _ -> (None, "", "") in
      (match loaded, ptg with
       | Some tr_sems, K.SynM.ParseOk ftg ->
         let tg_sems = F.sem target ftg in
         let out_file =
           match out_text with
           | Some _ when out_tree <> "REPARSE-ERR" ->
             (try Some (Drv_c07.rd_file (Drv_c07.parse_sx out_tree)) with _ -> None)
           | _ -> None in
         let out_sems = match out_text, out_file with Some ot, Some f -> Some (F.sem ot f) | _ -> None in
         let choices = match out_sems with Some os -> read_choices ph tg_sems os | None -> None in
         let bad_choice = ref false in
         let choose (k : K.nat) (l : K.z list list) : K.z list option =
           if l = [] then None
           else match choices with
             | Some cs ->
               (match List.nth_opt cs (int_of_nat k) with
                | Some x -> if not (List.exists (str_eq x) l) then bad_choice := true; Some x
                | None -> None)
             | None -> None in
         let model =
           match K.InferFsM.infer_with_sems letter digit ph v choose tr_sems target with
           | K.BayesM.InferOut o -> "OK " ^ hex_of_text o
           | K.BayesM.InferErr -> "ERR"
           | K.BayesM.InferBad -> "BAD" in
         let spec =
           if not obs_ok then (if Drv_c07.starts_with "ERR" obs then "FAIL:command-failed-on-parseable-files" else "FAIL:" ^ (if String.length obs > 40 then String.sub obs 0 40 else obs))
           else if det <> "det" then "FAIL:nondeterministic"
           else match out_text, out_file, out_sems with
             | Some ot, Some f, Some os ->
               if !bad_choice then "FAIL:choice-not-a-candidate"
               else if not (K.InferSpecM.infer_ok_b ph tr_sems tg_sems os) then "FAIL:infer_ok_b"
               else if not (F.list_eqb K.BytesM.str_eqb (F.gaps target ftg) (F.gaps ot f)) then "FAIL:gaps-changed"
               else begin
                 (* the binary's choices against the modelled choice (a left placeholder reads as the placeholder) *)
                 let expected = List.map (function Some x -> x | None -> ph) (scored_trace ph tr_sems tg_sems) in
                 match choices with
                 | Some cs when List.length cs = List.length expected && List.for_all2 str_eq cs expected -> "ok"
                 | _ -> "FAIL:choice-differs-from-model"
               end
             | _ -> "FAIL:output-does-not-parse" in
         (model, spec)
       | _ ->
         (* the training journal does not load (a file of the include graph is missing or does not parse, an
            include cycle) or the target does not parse: the command must fail and print nothing *)
         let spec =
           if obs = "ERR " then "ok"
           else if Drv_c07.starts_with "ERR " obs then "FAIL:error-with-output"
           else if obs_ok then "FAIL:succeeded-on-unloadable-files"
           else "FAIL:" ^ (if String.length obs > 40 then String.sub obs 0 40 else obs) in
         ("ERR", spec))
    | _ -> ("BADINPUT", "EXN"))
