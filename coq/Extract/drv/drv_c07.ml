(* C07: parser totality, tree of ranges as a lossless cover.
   op C07.parse  input: the text in hex   observed: the Go parser's tree / error chain
     model  = rendering of Parser.parse_text on the same bytes
     spec   = wf_tree_b && cover_b && wf_leaves_b && wf_keywords_b && wf_separators_b (&& determined_b, which they imply: C07_specs_determine) on the OBSERVED tree, err_in_bounds_b on the
              observed chain, and on the observed "@line:col" of every error of the chain (what Range.Location() rendered):
              = location text End, loc_inside_b, offset_of = End (Spec/LocationSpec.v) -> FAIL:location ...
   op C07.cls    input: "lo hi"           observed: L/D/- per rune (unicode.IsLetter/IsDigit) *)
open Drv_util

let hex_val c =
  match c with
  | '0' .. '9' -> Char.code c - 48
  | 'a' .. 'f' -> Char.code c - 87
  | 'A' .. 'F' -> Char.code c - 55
  | _ -> failwith "hex"

(* bytes 0..255 as shared z values *)
let byte_tab : K.z array = Array.init 256 z_of_int

let text_of_hex (s : string) : K.z list =
  let n = String.length s / 2 in
  let rec go i acc =
    if i < 0 then acc
    else go (i - 1) (byte_tab.(16 * hex_val s.[2 * i] + hex_val s.[2 * i + 1]) :: acc) in
  go (n - 1) []

(* ---- rendering ---- *)

let buf_range b k (r : K.ScanM.range) =
  Buffer.add_char b '(';
  Buffer.add_string b k;
  Buffer.add_char b ' ';
  Buffer.add_string b (string_of_int (int_of_z r.K.ScanM.r_start));
  Buffer.add_char b ' ';
  Buffer.add_string b (string_of_int (int_of_z r.K.ScanM.r_end))

let leaf b k r = Buffer.add_char b ' '; buf_range b k r; Buffer.add_char b ')'

let account b (a : K.SynM.account) =
  Buffer.add_char b ' ';
  buf_range b "a" a.K.SynM.acc_range;
  Buffer.add_string b (if a.K.SynM.acc_macro then " 1)" else " 0)")

let quoted b (q : K.SynM.quoted) =
  Buffer.add_char b ' ';
  buf_range b "q" q.K.SynM.qs_range;
  leaf b "c" q.K.SynM.qs_content;
  Buffer.add_char b ')'

let addons b (a : K.SynM.addons) =
  Buffer.add_char b ' ';
  buf_range b "ad" a.K.SynM.ad_range;
  Buffer.add_char b ' ';
  buf_range b "pf" a.K.SynM.ad_perf.K.SynM.pf_range;
  List.iter (leaf b "cm") a.K.SynM.ad_perf.K.SynM.pf_targets;
  Buffer.add_char b ')';
  let c = a.K.SynM.ad_accrual in
  Buffer.add_char b ' ';
  buf_range b "ac" c.K.SynM.ac_range;
  leaf b "iv" c.K.SynM.ac_interval;
  leaf b "dt" c.K.SynM.ac_start;
  leaf b "dt" c.K.SynM.ac_end;
  account b c.K.SynM.ac_account;
  Buffer.add_string b "))"

let body b (x : K.SynM.dir_body) =
  Buffer.add_char b ' ';
  (match x with
   | K.SynM.BTrx t ->
     buf_range b "T" t.K.SynM.tx_range;
     leaf b "dt" t.K.SynM.tx_date;
     quoted b t.K.SynM.tx_desc;
     addons b t.K.SynM.tx_addons;
     List.iter (fun (k : K.SynM.booking) ->
       Buffer.add_char b ' ';
       buf_range b "b" k.K.SynM.bk_range;
       account b k.K.SynM.bk_credit;
       account b k.K.SynM.bk_debit;
       leaf b "n" k.K.SynM.bk_quantity;
       leaf b "cm" k.K.SynM.bk_commodity;
       Buffer.add_char b ')') t.K.SynM.tx_bookings
   | K.SynM.BOpen o -> buf_range b "O" o.K.SynM.op_range; leaf b "dt" o.K.SynM.op_date; account b o.K.SynM.op_account
   | K.SynM.BClose o -> buf_range b "C" o.K.SynM.cl_range; leaf b "dt" o.K.SynM.cl_date; account b o.K.SynM.cl_account
   | K.SynM.BAssertion a ->
     buf_range b "A" a.K.SynM.as_range;
     leaf b "dt" a.K.SynM.as_date;
     List.iter (fun (k : K.SynM.balance) ->
       Buffer.add_char b ' ';
       buf_range b "bl" k.K.SynM.bl_range;
       account b k.K.SynM.bl_account;
       leaf b "n" k.K.SynM.bl_quantity;
       leaf b "cm" k.K.SynM.bl_commodity;
       Buffer.add_char b ')') a.K.SynM.as_balances
   | K.SynM.BPrice p ->
     buf_range b "P" p.K.SynM.pr_range;
     leaf b "dt" p.K.SynM.pr_date;
     leaf b "cm" p.K.SynM.pr_commodity;
     leaf b "n" p.K.SynM.pr_price;
     leaf b "cm" p.K.SynM.pr_target
   | K.SynM.BInclude i -> buf_range b "I" i.K.SynM.in_range; quoted b i.K.SynM.in_path
   | K.SynM.BNone -> Buffer.add_string b "(X");
  Buffer.add_char b ')'

let render_file (f : K.SynM.file) : string =
  let b = Buffer.create 4096 in
  buf_range b "F" f.K.SynM.f_range;
  List.iter (fun (d : K.SynM.directive) ->
    Buffer.add_char b ' ';
    buf_range b "D" d.K.SynM.d_range;
    body b d.K.SynM.d_body;
    Buffer.add_char b ')') f.K.SynM.f_directives;
  Buffer.add_char b ')';
  Buffer.contents b

let desc_code = function
  | K.ScanM.DNone -> "" | K.ScanM.DComment -> "comment" | K.ScanM.DFile -> "file" | K.ScanM.DDir -> "dir" | K.ScanM.DIncl -> "incl"
  | K.ScanM.DOpen -> "open" | K.ScanM.DClose -> "close" | K.ScanM.DBal -> "bal" | K.ScanM.DBalSub -> "balsub"
  | K.ScanM.DComm -> "comm" | K.ScanM.DDec -> "dec" | K.ScanM.DAcc -> "acc" | K.ScanM.DBook -> "book" | K.ScanM.DDate -> "date"
  | K.ScanM.DQs -> "qs" | K.ScanM.DTrx -> "trx" | K.ScanM.DAddons -> "addons" | K.ScanM.DPerf -> "perf"
  | K.ScanM.DInterval -> "interval" | K.ScanM.DRest -> "rest"

let kind_code = function
  | K.ScanM.KEof -> "eof" | K.ScanM.KUtf8 -> "utf8" | K.ScanM.KNext -> "next" | K.ScanM.KEofWant -> "eofwant" | K.ScanM.KChar -> "char"
  | K.ScanM.KStr -> "str" | K.ScanM.KAlt -> "alt" | K.ScanM.KReadN -> "readn" | K.ScanM.KDup -> "dup" | K.ScanM.KEmpty -> "empty"
  | K.ScanM.KOther -> "other" | K.ScanM.KWhile d -> "w:" ^ desc_code d

(* Spec/LocationSpec.location: Range.Location() for End = the given offset.  The errors of a
   chain mostly share their End, so the last result is remembered. *)
let location_memo text =
  let last = ref None in
  fun (e : K.z) ->
    match !last with
    | Some (e', r) when e' = e -> r
    | _ -> let r = K.location text e in last := Some (e, r); r

let render_errs text (es : K.ScanM.err list) : string =
  let loc = location_memo text in
  "ERR" ^ String.concat "" (List.map (fun (e : K.ScanM.err) ->
    let (l, c) = loc e.K.ScanM.er_end in
    Printf.sprintf " (%s %d %d @%d:%d)" (kind_code e.K.ScanM.er_kind) (int_of_z e.K.ScanM.er_start) (int_of_z e.K.ScanM.er_end)
      (int_of_z l) (int_of_z c)) es)

(* ---- reading the observed rendering back ---- *)

type sx = A of string | L of sx list

let parse_sx (s : string) : sx list =
  let n = String.length s in
  let pos = ref 0 in
  let rec items () =
    let acc = ref [] in
    let fin = ref false in
    while not !fin do
      while !pos < n && s.[!pos] = ' ' do incr pos done;
      if !pos >= n then fin := true
      else if s.[!pos] = ')' then fin := true
      else if s.[!pos] = '(' then begin
        incr pos;
        let l = items () in
        if !pos >= n || s.[!pos] <> ')' then failwith "sexp: missing )";
        incr pos;
        acc := L l :: !acc
      end else begin
        let st = !pos in
        while !pos < n && s.[!pos] <> ' ' && s.[!pos] <> '(' && s.[!pos] <> ')' do incr pos done;
        acc := A (String.sub s st (!pos - st)) :: !acc
      end
    done;
    List.rev !acc in
  let r = items () in
  if !pos < n then failwith "sexp: trailing input";
  r

let zi s = z_of_int (int_of_string s)
let rng s e : K.ScanM.range = { K.ScanM.r_start = zi s; K.ScanM.r_end = zi e }

let rd_leaf k = function
  | L [A k'; A s; A e] when k = k' -> rng s e
  | _ -> failwith ("leaf " ^ k)
let rd_account = function
  | L [A "a"; A s; A e; A m] -> { K.SynM.acc_range = rng s e; K.SynM.acc_macro = (m = "1") }
  | _ -> failwith "account"
let rd_quoted = function
  | L [A "q"; A s; A e; c] -> { K.SynM.qs_range = rng s e; K.SynM.qs_content = rd_leaf "c" c }
  | _ -> failwith "quoted"
let rd_addons = function
  | L [A "ad"; A s; A e; L (A "pf" :: A ps :: A pe :: ts); L [A "ac"; A cs; A ce; iv; d1; d2; acc]] ->
    { K.SynM.ad_range = rng s e;
      K.SynM.ad_perf = { K.SynM.pf_range = rng ps pe; K.SynM.pf_targets = List.map (rd_leaf "cm") ts };
      K.SynM.ad_accrual = { K.SynM.ac_range = rng cs ce; K.SynM.ac_interval = rd_leaf "iv" iv; K.SynM.ac_start = rd_leaf "dt" d1;
                       K.SynM.ac_end = rd_leaf "dt" d2; K.SynM.ac_account = rd_account acc } }
  | _ -> failwith "addons"
let rd_booking = function
  | L [A "b"; A s; A e; c; d; q; m] ->
    { K.SynM.bk_range = rng s e; K.SynM.bk_credit = rd_account c; K.SynM.bk_debit = rd_account d;
      K.SynM.bk_quantity = rd_leaf "n" q; K.SynM.bk_commodity = rd_leaf "cm" m }
  | _ -> failwith "booking"
let rd_balance = function
  | L [A "bl"; A s; A e; a; q; m] ->
    { K.SynM.bl_range = rng s e; K.SynM.bl_account = rd_account a; K.SynM.bl_quantity = rd_leaf "n" q;
      K.SynM.bl_commodity = rd_leaf "cm" m }
  | _ -> failwith "balance"
let rd_body = function
  | L (A "T" :: A s :: A e :: dt :: q :: ad :: bs) ->
    K.SynM.BTrx { K.SynM.tx_range = rng s e; K.SynM.tx_date = rd_leaf "dt" dt; K.SynM.tx_desc = rd_quoted q;
             K.SynM.tx_bookings = List.map rd_booking bs; K.SynM.tx_addons = rd_addons ad }
  | L [A "O"; A s; A e; dt; a] -> K.SynM.BOpen { K.SynM.op_range = rng s e; K.SynM.op_date = rd_leaf "dt" dt; K.SynM.op_account = rd_account a }
  | L [A "C"; A s; A e; dt; a] -> K.SynM.BClose { K.SynM.cl_range = rng s e; K.SynM.cl_date = rd_leaf "dt" dt; K.SynM.cl_account = rd_account a }
  | L (A "A" :: A s :: A e :: dt :: bs) ->
    K.SynM.BAssertion { K.SynM.as_range = rng s e; K.SynM.as_date = rd_leaf "dt" dt; K.SynM.as_balances = List.map rd_balance bs }
  | L [A "P"; A s; A e; dt; c; p; t] ->
    K.SynM.BPrice { K.SynM.pr_range = rng s e; K.SynM.pr_date = rd_leaf "dt" dt; K.SynM.pr_commodity = rd_leaf "cm" c;
               K.SynM.pr_target = rd_leaf "cm" t; K.SynM.pr_price = rd_leaf "n" p }
  | L [A "I"; A s; A e; q] -> K.SynM.BInclude { K.SynM.in_range = rng s e; K.SynM.in_path = rd_quoted q }
  | L [A "X"] -> K.SynM.BNone
  | _ -> failwith "body"
let rd_directive = function
  | L [A "D"; A s; A e; b] -> { K.SynM.d_range = rng s e; K.SynM.d_body = rd_body b }
  | _ -> failwith "directive"
let rd_file = function
  | [L (A "F" :: A s :: A e :: ds)] -> { K.SynM.f_range = rng s e; K.SynM.f_directives = List.map rd_directive ds }
  | _ -> failwith "file"
(* an observed error: its range and the rendered position "@line:col" *)
let rd_errs (xs : sx list) : (K.ScanM.err * (K.z * K.z)) list =
  List.map (function
    | L [A _; A s; A e; A loc] ->
      let lc = Scanf.sscanf loc "@%d:%d%!" (fun l c -> (z_of_int l, z_of_int c)) in
      ({ K.ScanM.er_kind = K.ScanM.KEmpty; K.ScanM.er_start = zi s; K.ScanM.er_end = zi e }, lc)
    | _ -> failwith "err") xs

(* the verdict on the rendered positions of an observed chain (Spec/LocationSpec.v):
   every position is what Location() computes for the error's End (location), exists in the
   text (loc_inside_b) and, computed back from the text, denotes the byte End (offset_of) *)
let locations_verdict text (es : (K.ScanM.err * (K.z * K.z)) list) : string option =
  let loc = location_memo text in
  let last_ok = ref None in
  let rec go = function
    | [] -> None
    | ((e : K.ScanM.err), (l, c)) :: rest ->
      let en = e.K.ScanM.er_end in
      if (match !last_ok with Some (en', l', c') -> en' = en && l' = l && c' = c | None -> false) then go rest
      else if not (K.loc_inside_b text (l, c)) then
        Some (Printf.sprintf "FAIL:location %d:%d rendered for byte %d is not inside the input" (int_of_z l) (int_of_z c) (int_of_z en))
      else
        let (ml, mc) = loc en in
        if not (ml = l && mc = c) then
          Some (Printf.sprintf "FAIL:location %d:%d rendered for byte %d, Location() is %d:%d" (int_of_z l) (int_of_z c) (int_of_z en)
                  (int_of_z ml) (int_of_z mc))
        else if not (K.offset_of text (l, c) = en) then
          Some (Printf.sprintf "FAIL:location %d:%d rendered for byte %d denotes byte %d (End is not at a rune)" (int_of_z l) (int_of_z c)
                  (int_of_z en) (int_of_z (K.offset_of text (l, c))))
        else begin last_ok := Some (en, l, c); go rest end in
  go es

let starts_with p s = String.length s >= String.length p && String.sub s 0 (String.length p) = p

let () =
  register "C07.parse" (fun inp obs ->
    let text = text_of_hex inp in
    let model =
      match K.SynM.parse_text K.UnicodeM.is_letter K.UnicodeM.is_digit text with
      | K.SynM.ParseOk f -> render_file f
      | K.SynM.ParseErr es -> render_errs text es
      | K.SynM.ParseFuel -> "OUTOFFUEL" in
    let spec =
      if starts_with "PANIC" obs then "FAIL:panic"
      else if starts_with "ERR" obs then begin
        match (try Some (rd_errs (parse_sx (String.sub obs 3 (String.length obs - 3)))) with _ -> None) with
        | None -> "FAIL:unreadable-error-chain"
        | Some [] -> "FAIL:empty-error-chain"
        | Some es ->
          if not (K.err_in_bounds_b text (List.map fst es)) then "FAIL:err_in_bounds_b"
          else (match locations_verdict text es with Some v -> v | None -> "ok")
      end else begin
        match (try Some (rd_file (parse_sx obs)) with _ -> None) with
        | None -> "FAIL:unreadable-tree"
        | Some f ->
          if not (K.wf_tree_b text f) then "FAIL:wf_tree_b"
          else if not (K.cover_b text f) then "FAIL:cover_b"
          else if not (K.wf_leaves_b K.UnicodeM.is_letter K.UnicodeM.is_digit text f) then "FAIL:wf_leaves_b"
          else if not (K.wf_keywords_b text f) then "FAIL:wf_keywords_b"
          else if not (K.wf_separators_b text f) then "FAIL:wf_separators_b"
          else if not (K.determined_b K.UnicodeM.is_letter K.UnicodeM.is_digit text f) then "FAIL:determined_b"
          else "ok"
      end in
    (model, spec));
  register "C07.cls" (fun inp _obs ->
    Scanf.sscanf inp "%d %d" (fun lo hi ->
      let b = Buffer.create (hi - lo + 1) in
      for r = lo to hi do
        let z = z_of_int r in
        Buffer.add_char b (if K.UnicodeM.is_letter z then 'L' else if K.UnicodeM.is_digit z then 'D' else '-')
      done;
      (Buffer.contents b, "ok")))
