(* C07: parser totality, tree of ranges as a lossless cover.
   op C07.parse  input: the text in hex   observed: the Go parser's tree / error chain
     model  = rendering of Parser.parse_text on the same bytes
     spec   = wf_tree_b && cover_b on the OBSERVED tree, err_in_bounds_b on the observed chain
   op C07.cls    input: "lo hi"           observed: L/D/- per rune (unicode.IsLetter/IsDigit) *)
open Drv_util

let hex_val c =
  match c with
  | '0' .. '9' -> Char.code c - 48
  | 'a' .. 'f' -> Char.code c - 87
  | 'A' .. 'F' -> Char.code c - 55
  | _ -> failwith "hex"

(* bytes 0..255 as shared z values *)
let byte_tab : K.z array = Array.init 256 z_of_int

let text_of_hex (s : string) : K.z list =
  let n = String.length s / 2 in
  let rec go i acc =
    if i < 0 then acc
    else go (i - 1) (byte_tab.(16 * hex_val s.[2 * i] + hex_val s.[2 * i + 1]) :: acc) in
  go (n - 1) []

(* ---- rendering ---- *)

let buf_range b k (r : K.range) =
  Buffer.add_char b '(';
  Buffer.add_string b k;
  Buffer.add_char b ' ';
  Buffer.add_string b (string_of_int (int_of_z r.K.r_start));
  Buffer.add_char b ' ';
  Buffer.add_string b (string_of_int (int_of_z r.K.r_end))

let leaf b k r = Buffer.add_char b ' '; buf_range b k r; Buffer.add_char b ')'

let account b (a : K.account) =
  Buffer.add_char b ' ';
  buf_range b "a" a.K.acc_range;
  Buffer.add_string b (if a.K.acc_macro then " 1)" else " 0)")

let quoted b (q : K.quoted) =
  Buffer.add_char b ' ';
  buf_range b "q" q.K.qs_range;
  leaf b "c" q.K.qs_content;
  Buffer.add_char b ')'

let addons b (a : K.addons) =
  Buffer.add_char b ' ';
  buf_range b "ad" a.K.ad_range;
  Buffer.add_char b ' ';
  buf_range b "pf" a.K.ad_perf.K.pf_range;
  List.iter (leaf b "cm") a.K.ad_perf.K.pf_targets;
  Buffer.add_char b ')';
  let c = a.K.ad_accrual in
  Buffer.add_char b ' ';
  buf_range b "ac" c.K.ac_range;
  leaf b "iv" c.K.ac_interval;
  leaf b "dt" c.K.ac_start;
  leaf b "dt" c.K.ac_end;
  account b c.K.ac_account;
  Buffer.add_string b "))"

let body b (x : K.dir_body) =
  Buffer.add_char b ' ';
  (match x with
   | K.BTrx t ->
     buf_range b "T" t.K.tx_range;
     leaf b "dt" t.K.tx_date;
     quoted b t.K.tx_desc;
     addons b t.K.tx_addons;
     List.iter (fun (k : K.booking) ->
       Buffer.add_char b ' ';
       buf_range b "b" k.K.bk_range;
       account b k.K.bk_credit;
       account b k.K.bk_debit;
       leaf b "n" k.K.bk_quantity;
       leaf b "cm" k.K.bk_commodity;
       Buffer.add_char b ')') t.K.tx_bookings
   | K.BOpen o -> buf_range b "O" o.K.op_range; leaf b "dt" o.K.op_date; account b o.K.op_account
   | K.BClose o -> buf_range b "C" o.K.cl_range; leaf b "dt" o.K.cl_date; account b o.K.cl_account
   | K.BAssertion a ->
     buf_range b "A" a.K.as_range;
     leaf b "dt" a.K.as_date;
     List.iter (fun (k : K.balance) ->
       Buffer.add_char b ' ';
       buf_range b "bl" k.K.bl_range;
       account b k.K.bl_account;
       leaf b "n" k.K.bl_quantity;
       leaf b "cm" k.K.bl_commodity;
       Buffer.add_char b ')') a.K.as_balances
   | K.BPrice p ->
     buf_range b "P" p.K.pr_range;
     leaf b "dt" p.K.pr_date;
     leaf b "cm" p.K.pr_commodity;
     leaf b "n" p.K.pr_price;
     leaf b "cm" p.K.pr_target
   | K.BInclude i -> buf_range b "I" i.K.in_range; quoted b i.K.in_path
   | K.BNone -> Buffer.add_string b "(X");
  Buffer.add_char b ')'

let render_file (f : K.file) : string =
  let b = Buffer.create 4096 in
  buf_range b "F" f.K.f_range;
  List.iter (fun (d : K.directive) ->
    Buffer.add_char b ' ';
    buf_range b "D" d.K.d_range;
    body b d.K.d_body;
    Buffer.add_char b ')') f.K.f_directives;
  Buffer.add_char b ')';
  Buffer.contents b

let desc_code = function
  | K.DNone -> "" | K.DComment -> "comment" | K.DFile -> "file" | K.DDir -> "dir" | K.DIncl -> "incl"
  | K.DOpen -> "open" | K.DClose -> "close" | K.DBal -> "bal" | K.DBalSub -> "balsub"
  | K.DComm -> "comm" | K.DDec -> "dec" | K.DAcc -> "acc" | K.DBook -> "book" | K.DDate -> "date"
  | K.DQs -> "qs" | K.DTrx -> "trx" | K.DAddons -> "addons" | K.DPerf -> "perf"
  | K.DInterval -> "interval" | K.DRest -> "rest"

let kind_code = function
  | K.KEof -> "eof" | K.KUtf8 -> "utf8" | K.KNext -> "next" | K.KEofWant -> "eofwant" | K.KChar -> "char"
  | K.KStr -> "str" | K.KAlt -> "alt" | K.KReadN -> "readn" | K.KDup -> "dup" | K.KEmpty -> "empty"
  | K.KOther -> "other" | K.KWhile d -> "w:" ^ desc_code d

let render_errs (es : K.err list) : string =
  "ERR" ^ String.concat "" (List.map (fun (e : K.err) ->
    Printf.sprintf " (%s %d %d)" (kind_code e.K.er_kind) (int_of_z e.K.er_start) (int_of_z e.K.er_end)) es)

(* ---- reading the observed rendering back ---- *)

type sx = A of string | L of sx list

let parse_sx (s : string) : sx list =
  let n = String.length s in
  let pos = ref 0 in
  let rec items () =
    let acc = ref [] in
    let fin = ref false in
    while not !fin do
      while !pos < n && s.[!pos] = ' ' do incr pos done;
      if !pos >= n then fin := true
      else if s.[!pos] = ')' then fin := true
      else if s.[!pos] = '(' then begin
        incr pos;
        let l = items () in
        if !pos >= n || s.[!pos] <> ')' then failwith "sexp: missing )";
        incr pos;
        acc := L l :: !acc
      end else begin
        let st = !pos in
        while !pos < n && s.[!pos] <> ' ' && s.[!pos] <> '(' && s.[!pos] <> ')' do incr pos done;
        acc := A (String.sub s st (!pos - st)) :: !acc
      end
    done;
    List.rev !acc in
  let r = items () in
  if !pos < n then failwith "sexp: trailing input";
  r

let zi s = z_of_int (int_of_string s)
let rng s e : K.range = { K.r_start = zi s; K.r_end = zi e }

let rd_leaf k = function
  | L [A k'; A s; A e] when k = k' -> rng s e
  | _ -> failwith ("leaf " ^ k)
let rd_account = function
  | L [A "a"; A s; A e; A m] -> { K.acc_range = rng s e; K.acc_macro = (m = "1") }
  | _ -> failwith "account"
let rd_quoted = function
  | L [A "q"; A s; A e; c] -> { K.qs_range = rng s e; K.qs_content = rd_leaf "c" c }
  | _ -> failwith "quoted"
let rd_addons = function
  | L [A "ad"; A s; A e; L (A "pf" :: A ps :: A pe :: ts); L [A "ac"; A cs; A ce; iv; d1; d2; acc]] ->
    { K.ad_range = rng s e;
      K.ad_perf = { K.pf_range = rng ps pe; K.pf_targets = List.map (rd_leaf "cm") ts };
      K.ad_accrual = { K.ac_range = rng cs ce; K.ac_interval = rd_leaf "iv" iv; K.ac_start = rd_leaf "dt" d1;
                       K.ac_end = rd_leaf "dt" d2; K.ac_account = rd_account acc } }
  | _ -> failwith "addons"
let rd_booking = function
  | L [A "b"; A s; A e; c; d; q; m] ->
    { K.bk_range = rng s e; K.bk_credit = rd_account c; K.bk_debit = rd_account d;
      K.bk_quantity = rd_leaf "n" q; K.bk_commodity = rd_leaf "cm" m }
  | _ -> failwith "booking"
let rd_balance = function
  | L [A "bl"; A s; A e; a; q; m] ->
    { K.bl_range = rng s e; K.bl_account = rd_account a; K.bl_quantity = rd_leaf "n" q;
      K.bl_commodity = rd_leaf "cm" m }
  | _ -> failwith "balance"
let rd_body = function
  | L (A "T" :: A s :: A e :: dt :: q :: ad :: bs) ->
    K.BTrx { K.tx_range = rng s e; K.tx_date = rd_leaf "dt" dt; K.tx_desc = rd_quoted q;
             K.tx_bookings = List.map rd_booking bs; K.tx_addons = rd_addons ad }
  | L [A "O"; A s; A e; dt; a] -> K.BOpen { K.op_range = rng s e; K.op_date = rd_leaf "dt" dt; K.op_account = rd_account a }
  | L [A "C"; A s; A e; dt; a] -> K.BClose { K.cl_range = rng s e; K.cl_date = rd_leaf "dt" dt; K.cl_account = rd_account a }
  | L (A "A" :: A s :: A e :: dt :: bs) ->
    K.BAssertion { K.as_range = rng s e; K.as_date = rd_leaf "dt" dt; K.as_balances = List.map rd_balance bs }
  | L [A "P"; A s; A e; dt; c; p; t] ->
    K.BPrice { K.pr_range = rng s e; K.pr_date = rd_leaf "dt" dt; K.pr_commodity = rd_leaf "cm" c;
               K.pr_target = rd_leaf "cm" t; K.pr_price = rd_leaf "n" p }
  | L [A "I"; A s; A e; q] -> K.BInclude { K.in_range = rng s e; K.in_path = rd_quoted q }
  | L [A "X"] -> K.BNone
  | _ -> failwith "body"
let rd_directive = function
  | L [A "D"; A s; A e; b] -> { K.d_range = rng s e; K.d_body = rd_body b }
  | _ -> failwith "directive"
let rd_file = function
  | [L (A "F" :: A s :: A e :: ds)] -> { K.f_range = rng s e; K.f_directives = List.map rd_directive ds }
  | _ -> failwith "file"
let rd_errs (xs : sx list) : K.err list =
  List.map (function
    | L [A _; A s; A e] -> { K.er_kind = K.KEmpty; K.er_start = zi s; K.er_end = zi e }
    | _ -> failwith "err") xs

let starts_with p s = String.length s >= String.length p && String.sub s 0 (String.length p) = p

let () =
  register "C07.parse" (fun inp obs ->
    let text = text_of_hex inp in
    let model =
      match K.parse_text K.is_letter K.is_digit text with
      | K.ParseOk f -> render_file f
      | K.ParseErr es -> render_errs es
      | K.ParseFuel -> "OUTOFFUEL" in
    let spec =
      if starts_with "PANIC" obs then "FAIL:panic"
      else if starts_with "ERR" obs then begin
        match (try Some (rd_errs (parse_sx (String.sub obs 3 (String.length obs - 3)))) with _ -> None) with
        | None -> "FAIL:unreadable-error-chain"
        | Some [] -> "FAIL:empty-error-chain"
        | Some es -> if K.err_in_bounds_b text es then "ok" else "FAIL:err_in_bounds_b"
      end else begin
        match (try Some (rd_file (parse_sx obs)) with _ -> None) with
        | None -> "FAIL:unreadable-tree"
        | Some f ->
          if not (K.wf_tree_b text f) then "FAIL:wf_tree_b"
          else if not (K.cover_b text f) then "FAIL:cover_b"
          else "ok"
      end in
    (model, spec));
  register "C07.cls" (fun inp _obs ->
    Scanf.sscanf inp "%d %d" (fun lo hi ->
      let b = Buffer.create (hi - lo + 1) in
      for r = lo to hi do
        let z = z_of_int r in
        Buffer.add_char b (if K.is_letter z then 'L' else if K.is_digit z then 'D' else '-')
      done;
      (Buffer.contents b, "ok")))
