(* C01: the Delta rows of a complete balance report are zero *)
open Drv_util
open Drv_journal

(* the CSV of a balance report never needs quoting: split on commas and newlines *)
let parse_csv (s : string) : K.z list list list =
  List.filter_map (fun line -> if line = "" then None else
    Some (List.map str_of_string (String.split_on_char ',' line))) (String.split_on_char '\n' s)

let observed_ok (obs : string) : string option =
  match prefix_strip "OK " obs with Some s -> Some (unesc s) | None -> None

let () =
  register "C01.bal" (fun inp obs ->
    let (c, _) = split_input inp in
    let cfg = decode_cfg c in
    let model = run_balance inp in
    let spec =
      if not (K.complete_cfg cfg.bc) then "FAIL:generator produced an incomplete configuration"
      else match observed_ok obs with
        | Some csv ->
          let text_cols = if K.draw_comms { K.rc_valuation = cfg.bc.K.bc_valuation; K.rc_details = cfg.bc.K.bc_details;
                                             K.rc_alpha = true; K.rc_diff = false } then 2 else 1 in
          if K.delta_zero_b (nat_of_int text_cols) (parse_csv csv) then "ok" else "FAIL:Delta row is not zero"
        | None ->
          if obs = "ERR" then "ok"    (* a rejected journal is outside C01; clean failure is C14's *)
          else "FAIL:" ^ (if String.length obs > 40 then String.sub obs 0 40 else obs) in
    (model, spec))
