(* C20: portfolio weights / returns against the valued balance.
   Ops (harness/c20.go):
     C20.weights  observed = "<run csv> ## <run text> ## <run text without -m>"        model = "OK <csv of the model>"
     C20.returns  observed = "<run>"                          model = "OK <lines of the repaired model>"
     C20.cross    observed = "<weights csv> ## <balance csv> ## <returns>"
                                                               model = "<weights> ## - ## <returns>"
   The spec verdict evaluates Spec/PortfolioSpec.v (extracted) on the binary's output; this file
   only parses (CSV fields, table cells, decimal literals) and pairs cells by date/label. *)
open Drv_util
open Drv_journal

let sep = " ## "
let parts (s : string) : string list = split_str sep s

let kv_of (s : string) =
  let kv = Hashtbl.create 16 in
  List.iter (fun t -> match String.index_opt t '=' with
    | Some i -> Hashtbl.replace kv (String.sub t 0 i) (String.sub t (i + 1) (String.length t - i - 1))
    | None -> ()) (fields s);
  fun k -> try Hashtbl.find kv k with Not_found -> "-"

let universe_of (s : string) =
  if s = "-" || s = "" then None else
  Some (List.filter_map (fun cl ->
    match String.rindex_opt cl '=' with
    | Some i -> Some (str_of_string (String.sub cl 0 i),
                      List.map str_of_string (String.split_on_char ',' (String.sub cl (i + 1) (String.length cl - i - 1))))
    | None -> None) (String.split_on_char ';' s))

(* the mapping law presupposes that no commodity's path (class:commodity) is a proper prefix of another's
   (C20_mapping_law_table's hypothesis prefix_free; C20_w4_needs_prefix_free shows the law false on correct tables
   otherwise): decided on the universe of the case *)
let universe_prefix_free (u : string) : bool =
  if u = "-" || u = "" then true else
  let paths = List.concat_map (fun cl ->
    match String.rindex_opt cl '=' with
    | Some i ->
      let cls = String.sub cl 0 i in
      List.map (fun c -> cls ^ ":" ^ c) (String.split_on_char ',' (String.sub cl (i + 1) (String.length cl - i - 1)))
    | None -> []) (String.split_on_char ';' u) in
  not (List.exists (fun p -> List.exists (fun q ->
    let pp = p ^ ":" in String.length q > String.length pp && String.sub q 0 (String.length pp) = pp) paths) paths)

let decode_pf ?(from_key = "from") (s : string) : K.pf_cfg =
  let g = kv_of s in
  { K.pc_from = date_of (g from_key); K.pc_to = date_of (g "to");
    K.pc_interval = Drv_c11.interval_of_string (g "iv");
    K.pc_last = z_of_int (int_of_string (g "last"));
    K.pc_valuation = (if g "val" = "-" then None else Some (str_of_string (g "val")));
    K.pc_accounts = List.map rx_of (list_dec (g "acc"));
    K.pc_commodities = List.map rx_of (list_dec (g "com"));
    K.pc_mapping = List.map rule_of (list_dec (g "map"));
    K.pc_alpha = (g "alpha" = "1");
    K.pc_universe = universe_of (g "uni");
    K.pc_lenient = true }

(* ------------------------------------------------------------ rationals *)
let q_of_string (s : string) : K.q =
  match K.of_string (str_of_string s) with
  | Some d -> K.dec_q d
  | None -> failwith ("bad number " ^ s)

let q_of_ints (a : int) (b : int) : K.q = { K.qnum = z_of_int a; K.qden = pos_of_int b }
let tol_weight = q_of_ints 1 1000000          (* 1e-6 absolute *)
let tol_return = q_of_ints 1 10               (* 0.1 percentage points *)
let q100 = q_of_ints 100 1

let finite_number (s : string) : bool =
  s <> "" && (match s.[String.length s - 1] with '0' .. '9' -> true | _ -> false)
  && not (String.contains s 'e') && not (String.contains s 'I') && not (String.contains s 'N')

(* a rendered number cell; [pct]: the text renderer prints weight * 100 followed by '%' *)
let scell_of ?(pct = false) (s : string) : K.q option option =
  let s = String.trim s in
  if s = "" then None else
  let s = if pct && s.[String.length s - 1] = '%' then String.sub s 0 (String.length s - 1) else s in
  let s = if String.length s > 0 && s.[0] = '+' then String.sub s 1 (String.length s - 1) else s in
  if not (finite_number s) then Some None
  else let q = q_of_string s in Some (Some (if pct then K.qdiv_exact q q100 else q))

(* ------------------------------------------------------------ parsers of knut's output *)
let ok_part (s : string) : string option =
  match prefix_strip "OK " s with Some x -> Some (unesc x) | None -> if s = "OK" then Some "" else None

let csv_rows (s : string) : string list list =
  List.filter_map (fun l -> if l = "" then None else Some (String.split_on_char ',' l)) (String.split_on_char '\n' s)

(* text table of `portfolio weights`: header dates, rows (depth, label, cells) *)
let parse_text_table (s : string) : string list * K.srow list =
  let lines = List.filter (fun l -> l <> "" && l.[0] = '|') (String.split_on_char '\n' s) in
  let cells l =
    let fs = String.split_on_char '|' l in
    (match fs with _ :: rest -> List.rev (List.tl (List.rev rest)) | [] -> []) in
  match lines with
  | [] -> ([], [])
  | h :: body ->
    let dates = (match cells h with _ :: ds -> List.map String.trim ds | [] -> []) in
    let rows = List.map (fun l ->
      match cells l with
      | first :: cs ->
        let first = if String.length first > 0 then String.sub first 1 (String.length first - 1) else first in
        let n = String.length first in
        let i = ref 0 in
        while !i < n && first.[!i] = ' ' do incr i done;
        ((z_of_int (!i / 2), str_of_string (String.trim first)), List.map (scell_of ~pct:true) cs)
      | [] -> ((K.Z0, []), [])) body in
    (dates, rows)

let parse_returns (s : string) : (K.z * K.q option) list =
  List.filter_map (fun l ->
    if l = "" then None else
    match String.index_opt l ' ', String.rindex_opt l ' ' with
    | Some i, Some j ->
      let d = Drv_c11.parse_date (String.sub l 0 i) in
      let v = String.sub l (j + 1) (String.length l - j - 1) in
      let v = if String.length v > 0 && v.[String.length v - 1] = '%' then String.sub v 0 (String.length v - 1) else v in
      let v = if String.length v > 0 && v.[0] = '+' then String.sub v 1 (String.length v - 1) else v in
      Some (d, if finite_number v then Some (q_of_string v) else None)
    | _ -> failwith ("returns line " ^ l)) (String.split_on_char '\n' s)

(* ------------------------------------------------------------ shared *)
let journal_commodities (ds : K.sdirective list) : K.z list list =
  let seen = Hashtbl.create 8 in
  let add c = Hashtbl.replace seen (string_of_str c) c in
  List.iter (function
    | K.SPrice (_, c, _, t) -> add c; add t
    | K.STxn t -> List.iter (fun b -> add b.K.b_com) t.K.st_bookings
    | _ -> ()) ds;
  Hashtbl.fold (fun _ c acc -> c :: acc) seen []

let partition_of (cfg : K.pf_cfg) (ds : K.sdirective list) : K.partition option =
  match K.load ds with
  | K.COk b -> (match K.pf_partition cfg b with K.COk p -> Some p | _ -> None)
  | _ -> None

let first_fail (checks : (bool Lazy.t * string) list) : string =
  match List.find_opt (fun (b, _) -> not (Lazy.force b)) checks with
  | Some (_, why) -> "FAIL:" ^ why
  | None -> "ok"

let weights_model cfg ds = render_result (K.weights_csv_cmd cfg ds)
let returns_model cfg ds = render_result (K.returns_cmd K.repaired cfg ds)

let () =
  register "C20.weights" (fun inp obs ->
    let (c, j) = split_input inp in
    let cfg = decode_pf c in
    let ds = decode_journal j in
    let model = weights_model cfg ds in
    let spec =
      match parts obs with
      | csv :: text :: more ->
        (match ok_part text, partition_of cfg ds with
         | Some t, Some part ->
           let (dates, rows0) = parse_text_table t in
           let ncols = nat_of_int (List.length dates) in
           (* a column whose total is zero has weights NaN / +-Inf: the CSV prints them, the text table prints a NaN as
              a blank cell.  Such columns are outside the statement (shares of a zero total): every cell of a column
              in which the CSV has a non-finite number is marked non-finite, so that the clauses skip the column *)
           let bad_cols =
             (match ok_part csv with
              | Some ct ->
                (match csv_rows ct with
                 | _ :: body ->
                   List.mapi (fun j _ -> List.exists (fun r ->
                     match List.nth_opt r (j + 1) with
                     | Some cell -> cell <> "" && not (finite_number (let c = String.trim cell in
                         if String.length c > 0 && (c.[0] = '+' || c.[0] = '-') then String.sub c 1 (String.length c - 1) else c))
                     | None -> false) body) dates
                 | [] -> List.map (fun _ -> false) dates)
              | None -> List.map (fun _ -> false) dates) in
           let mask (rs : K.srow list) : K.srow list =
             List.map (fun (hd, cells) ->
               (hd, List.mapi (fun j cell -> if (try List.nth bad_cols j with _ -> false) then Some None else cell) cells)) rs in
           let rows = mask rows0 in
           (* the table of the same command without -m: the mapping law (group = own folded commodities + members) *)
           let mapping_law = lazy (
             match more with
             | [plain] ->
               (match ok_part plain with
                | Some pt ->
                  let (pdates, prows) = parse_text_table pt in
                  let prows = mask prows in
                  pdates = dates && (not (universe_prefix_free (kv_of c "uni")) || K.mapping_law_b tol_weight ncols cfg.K.pc_mapping prows rows)
                | None -> false)
             | _ -> true) in
           first_fail [
             (lazy (K.subset_b (List.map Drv_c11.parse_date dates) (K.end_dates part)), "a column is not dated with a period end");
             (lazy (K.top_ok_b tol_weight ncols rows), "top level does not sum to 100%");
             (lazy (cfg.K.pc_mapping <> [] || K.groups_ok_b tol_weight ncols rows), "a group is not the sum of its members");
             (mapping_law, "a row is not the sum of its member rows and the commodities the mapping folds into it (table without -m)");
             (lazy (K.leaf_unique_b (journal_commodities ds) rows), "a commodity has more than one row") ]
         | None, _ -> if String.length model >= 2 && String.sub model 0 2 = "OK" then "FAIL:command failed: " ^ text else "ok"
         | _, None -> "ok")
      | _ -> "FAIL:unexpected observation" in
    (model, spec));

  register "C20.returns" (fun inp obs ->
    let (c, j) = split_input inp in
    let cfg = decode_pf c in
    let ds = decode_journal j in
    let model = returns_model cfg ds in
    let spec =
      match ok_part obs, partition_of cfg ds with
      | Some t, Some part ->
        let rows = parse_returns t in
        if K.periods_ok_b part (List.map fst rows) then "ok"
        else Printf.sprintf "FAIL:%d return line(s) for %d period(s) of the partition" (List.length rows)
               (List.length part.K.periods)
      | None, _ -> if String.length model >= 2 && String.sub model 0 2 = "OK" then "FAIL:command failed: " ^ obs else "ok"
      | _, None -> "ok" in
    (model, spec));

  register "C20.cross" (fun inp obs ->
    let (c, j) = split_input inp in
    let g = kv_of c in
    let cfg = decode_pf c in
    let wcfg = if g "wfrom" = "-" then cfg else decode_pf ~from_key:"wfrom" c in
    let ds = decode_journal j in
    let model = weights_model wcfg ds ^ sep ^ "-" ^ sep ^ returns_model cfg ds in
    let spec =
      match List.map ok_part (parts obs), partition_of cfg ds with
      | [Some w; Some b; Some r], Some part ->
        let wrows = csv_rows w and brows = csv_rows b in
        (match wrows, brows with
         | (_ :: wdates) :: wbody, (_ :: _ :: bdates) :: bbody ->
           (* balance: rows of the A/L block, then the total row *)
           let rec al acc = function
             | (l :: _ :: cells) :: _ when l = "Total (A+L)" -> (List.rev acc, Some cells)
             | (_ :: com :: cells) :: rest -> al (if com = "" then acc else (com, cells) :: acc) rest
             | _ :: rest -> al acc rest
             | [] -> (List.rev acc, None) in
           let (alrows, total) = al [] bbody in
           let col name = let rec f i = function [] -> None | x :: t -> if x = name then Some i else f (i + 1) t in f 0 bdates in
           let cell cells i = (try q_of_string (List.nth cells i) with _ -> K.qzero) in
           let value com i = List.fold_left (fun acc (c, cells) -> if c = com then K.qadd acc (cell cells i) else acc) K.qzero alrows in
           let total_at i = (match total with Some cells -> cell cells i | None -> K.qzero) in
           (* with --universe the weights table has class rows above the commodities: only commodity rows are compared *)
           let has_uni = g "uni" <> "-" in
           let coms = List.map string_of_str (journal_commodities ds) in
           (* "for each commodity its share": a commodity of the valued balance that has no row of its own must have
              the share 0 on every date *)
           let all_shown = lazy (
             List.for_all (fun com ->
               List.exists (fun row -> match row with l :: _ -> l = com | [] -> false) wbody
               || List.for_all (fun d -> match col d with
                    | Some i -> K.share_ok_b tol_weight K.qzero (total_at i) (value com i)
                    | None -> true) wdates)
               (List.sort_uniq compare (List.map fst alrows))) in
           let shares_ok = lazy (
             List.for_all (fun row ->
               match row with
               | label :: cells when label <> "Other" && (not has_uni || List.mem label coms) ->
                 List.for_all2 (fun d wc ->
                   match col d, scell_of wc with
                   | Some i, Some (Some wq) -> K.share_ok_b tol_weight wq (total_at i) (value label i)
                   | Some i, None -> K.share_ok_b tol_weight K.qzero (total_at i) (value label i)
                   | _, _ -> true) wdates (if List.length cells = List.length wdates then cells else List.map (fun _ -> "") wdates)
               | _ -> true) wbody) in
           let dates_ok = lazy (List.for_all (fun d -> col d <> None) wdates) in
           (* returns laws on the periods that were reported with a clean start *)
           let rets = parse_returns r in
           let ret_at d = List.assoc_opt d rets in
           let bcol d = col (Drv_c11.fmt_date d) in
           let rec laws prev = function
             | [] -> []
             | p :: rest ->
               let s = p.K.p_start and e = p.K.p_end in
               let clean = (match prev with None -> true | Some pe -> ret_at pe <> None) in
               let here =
                 (match ret_at e with
                  | Some (Some rv) when clean ->
                    [ (lazy (not (K.no_price_in ds s e && K.only_external_in ds s e) || K.zero_ok_b tol_return rv),
                       "non-zero return for a period with unchanged prices and only external flows, ending " ^ Drv_c11.fmt_date e) ]
                    @ (match prev with
                       | Some pe ->
                         (match bcol pe, bcol e with
                          | Some i0, Some i1 ->
                            [ (lazy (not (K.no_txn_in ds s e) || K.ratio_ok_b tol_return rv (total_at i0) (total_at i1)),
                               "return of a period without flows is not end value / start value - 1, ending " ^ Drv_c11.fmt_date e) ]
                          | _ -> [])
                       | None -> [])
                  | _ -> []) in
               here @ laws (Some e) rest in
           first_fail ([ (dates_ok, "a weights column has no balance column");
                         (shares_ok, "weight x total differs from the valued balance");
                         (all_shown, "a commodity of the valued balance has no weights row although its share is not zero") ] @ laws None part.K.periods)
         | _ -> "ok")
      | _, None -> "ok"
      | _ -> if String.length model >= 2 && String.sub model 0 2 = "OK" then "FAIL:a command failed" else "ok" in
    (model, spec))

(* debugging aid: the model with the wiring / flow filter of the pinned tree *)
let () =
  register "dbg.C20.returns_pinned" (fun inp _ ->
    let (c, j) = split_input inp in
    (render_result (K.returns_cmd K.pinned (decode_pf c) (decode_journal j)), "ok"))
