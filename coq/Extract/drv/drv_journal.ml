(* decoding of the harness's one-line journal / configuration encodings into the extracted
   Coq datatypes (see harness/journal.go Enc, knutrun.go BalCfg.Enc) *)
open Drv_util

let str_of_string (s : string) : K.z list =
  List.init (String.length s) (fun i -> z_of_int (Char.code s.[i]))

let string_of_str (l : K.z list) : string =
  let b = Buffer.create 64 in
  List.iter (fun z -> Buffer.add_char b (Char.chr ((int_of_z z) land 255))) l;
  Buffer.contents b

let unhex (s : string) : string =
  if s = "-" then "" else
  String.init (String.length s / 2) (fun i -> Char.chr (int_of_string ("0x" ^ String.sub s (2 * i) 2)))

let date_of (s : string) : K.z =
  if s = "-" || s = "" then K.Z0 else Drv_c11.parse_date s

let dec_of (s : string) : K.dec =
  match K.of_string (str_of_string s) with
  | Some d -> d
  | None -> failwith ("bad decimal " ^ s)

let acc_of (s : string) : K.z list list = K.acc_of_name (str_of_string s)

let esc (s : string) : string =
  let b = Buffer.create (String.length s + 16) in
  String.iter (fun c -> match c with
    | '\\' -> Buffer.add_string b "\\\\" | '\n' -> Buffer.add_string b "\\n"
    | '\t' -> Buffer.add_string b "\\t" | '\r' -> Buffer.add_string b "\\r"
    | c -> Buffer.add_char b c) s;
  Buffer.contents b

let unesc (s : string) : string =
  let b = Buffer.create (String.length s) in
  let n = String.length s in
  let i = ref 0 in
  while !i < n do
    (if s.[!i] = '\\' && !i + 1 < n then begin
       (match s.[!i + 1] with
        | 'n' -> Buffer.add_char b '\n' | 't' -> Buffer.add_char b '\t'
        | 'r' -> Buffer.add_char b '\r' | c -> Buffer.add_char b c);
       incr i
     end else Buffer.add_char b s.[!i]);
    incr i
  done;
  Buffer.contents b

let rec take4 = function
  | a :: b :: c :: d :: rest -> (a, b, c, d) :: take4 rest
  | _ -> []
let rec take3 = function
  | a :: b :: c :: rest -> (a, b, c) :: take3 rest
  | _ -> []

let fields (s : string) : string list =
  List.filter (fun x -> x <> "") (String.split_on_char ' ' s)

let prefix_strip p s =
  let lp = String.length p in
  if String.length s >= lp && String.sub s 0 lp = p then Some (String.sub s lp (String.length s - lp)) else None

let decode_directive (part : string) : K.sdirective option =
  match fields part with
  | "P" :: d :: c :: p :: t :: _ -> Some (K.SPrice (date_of d, str_of_string c, dec_of p, str_of_string t))
  | "O" :: d :: a :: _ -> Some (K.SOpen (date_of d, acc_of a))
  | "C" :: d :: a :: _ -> Some (K.SClose (date_of d, acc_of a))
  | "A" :: d :: rest ->
    Some (K.SAssert (date_of d, List.map (fun (a, q, c) ->
      { K.bal_acc = acc_of a; K.bal_qty = dec_of q; K.bal_com = str_of_string c }) (take3 rest)))
  | "T" :: d :: desc :: perf :: accr :: rest ->
    let targets = match prefix_strip "perf=" perf with
      | Some "" -> Some []
      | Some t -> Some (List.map str_of_string (String.split_on_char ',' t))
      | None -> None in
    let accrual = match prefix_strip "accrue=" accr with
      | Some a -> (match String.split_on_char ',' a with
          | [iv; s; e; acc] -> Some { K.ac_interval = Drv_c11.interval_of_string iv; K.ac_start = date_of s;
                                      K.ac_end = date_of e; K.ac_account = acc_of acc }
          | _ -> failwith "accrual")
      | None -> None in
    Some (K.STxn { K.st_date = date_of d; K.st_desc = str_of_string (unhex desc);
                   K.st_bookings = List.map (fun (c, db, q, com) ->
                     { K.b_credit = acc_of c; K.b_debit = acc_of db; K.b_qty = dec_of q; K.b_com = str_of_string com }) (take4 rest);
                   K.st_targets = targets; K.st_accrual = accrual })
  | [] -> None
  | x :: _ -> failwith ("directive kind " ^ x)

let split_str (sep : string) (s : string) : string list = Str.split_delim (Str.regexp_string sep) s

let decode_journal (s : string) : K.sdirective list =
  List.filter_map decode_directive (split_str " ; " s)

let rx_of (s : string) : K.rx =
  let n = String.length s in
  let st = n > 0 && s.[0] = '^' in
  let en = n > 0 && s.[n - 1] = '$' in
  let a = if st then 1 else 0 in
  let b = if en then n - 1 else n in
  { K.rx_start = st; K.rx_lit = str_of_string (String.sub s a (max 0 (b - a))); K.rx_end = en }

let list_dec (s : string) : string list = if s = "-" || s = "" then [] else String.split_on_char '|' s

let rule_of (s : string) : K.rule =
  (* level[:suffix],rx  |  level[:suffix] *)
  let (lv, rx) = match String.index_opt s ',' with
    | Some i -> (String.sub s 0 i, Some (rx_of (String.sub s (i + 1) (String.length s - i - 1))))
    | None -> (s, None) in
  let (l, sf) = match String.split_on_char ':' lv with
    | [l] -> (int_of_string l, 0) | [l; x] -> (int_of_string l, int_of_string x) | _ -> failwith "rule" in
  { K.r_level = z_of_int l; K.r_suffix = z_of_int sf; K.r_rx = rx }

type cfg = { bc : K.balance_cfg; digits : int; thousands : bool; csv : bool }

let decode_cfg ?(lenient = true) (s : string) : cfg =
  let kv = Hashtbl.create 16 in
  List.iter (fun t -> match String.index_opt t '=' with
    | Some i -> Hashtbl.replace kv (String.sub t 0 i) (String.sub t (i + 1) (String.length t - i - 1))
    | None -> ()) (fields s);
  let g k = try Hashtbl.find kv k with Not_found -> "-" in
  let b k = g k = "1" in
  let bc = { K.bc_from = date_of (g "from"); K.bc_to = date_of (g "to");
             K.bc_interval = Drv_c11.interval_of_string (g "iv");
             K.bc_last = z_of_int (int_of_string (g "last")); K.bc_diff = b "diff"; K.bc_close = b "close";
             K.bc_valuation = (if g "val" = "-" then None else Some (str_of_string (g "val")));
             K.bc_alpha = b "alpha";
             K.bc_mapping = List.map rule_of (list_dec (g "map"));
             K.bc_remap = List.map rx_of (list_dec (g "remap"));
             K.bc_accounts = List.map rx_of (list_dec (g "acc"));
             K.bc_commodities = List.map rx_of (list_dec (g "com"));
             K.bc_details = List.map rx_of (list_dec (g "show"));
             K.bc_lenient = lenient } in
  { bc; digits = (try int_of_string (g "digits") with _ -> 0); thousands = b "k"; csv = b "csv" }

let split_input (s : string) : string * string =
  match Str.bounded_split_delim (Str.regexp_string " | ") s 2 with
  | [a; b] -> (a, b) | [a] -> (a, "") | _ -> ("", "")

(* result of a report command in the observer's rendering *)
let render_result (r : K.z list K.cresult) : string =
  match r with
  | K.COk out -> "OK " ^ esc (string_of_str out)
  | K.CErr (_, _) -> "ERR"
  | K.CPanic m -> "PANIC " ^ string_of_str m

let run_balance (inp : string) : string =
  let (c, j) = split_input inp in
  let cfg = decode_cfg c in
  let ds = decode_journal j in
  if cfg.csv then render_result (K.balance_csv cfg.bc ds)
  else render_result (K.balance_text cfg.bc { K.tc_thousands = cfg.thousands; K.tc_round = z_of_int cfg.digits } ds)

let () =
  register "core.bal" (fun inp _obs -> (run_balance inp, "ok"));
  register "core.print" (fun inp _obs ->
    let (_, j) = split_input inp in
    (render_result (K.print_cmd true (decode_journal j)), "ok"));
  register "core.check" (fun inp _obs ->
    let (_, j) = split_input inp in
    match K.check_cmd_fixed (decode_journal j) with
    | K.COk _ -> ("OK", "ok")
    | K.CErr (k, d) -> ("ERR " ^ string_of_str k ^ " " ^ string_of_str d, "ok")
    | K.CPanic m -> ("PANIC " ^ string_of_str m, "ok"))
