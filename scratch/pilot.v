From Coq Require Import ZArith QArith List Bool Lia.
From Knut Require Import Model.Str Model.Dec Model.Date Model.Account Model.Ledger Model.Journal
     Model.ImpCommonA Model.ImpCommonB Model.Imp.Interactivebrokers
     Spec.ImpSpecA Spec.ImpSpecB Spec.ImpSpecIB Proofs.DecProofs Proofs.DecValue Proofs.PairProofs Proofs.StrProofs
     Proofs.ImpProofsA Proofs.ImpProofsB.
Import ListNotations.
Open Scope bool_scope.

Ltac ib_words :=
  change ibs_data with s_data in *; change ibs_account_information with s_account_information in *;
  change ibs_base_currency with s_base_currency in *; change ibs_statement with s_statement in *;
  change ibs_period_word with s_period in *; change ibs_trades with s_trades in *; change ibs_order with s_order in *;
  change ibs_forex with s_forex in *; change ibs_stocks with s_stocks in *; change ibs_deposits with s_deposits in *;
  change ibs_total with s_total in *; change ibs_dividends with s_dividends in *; change ibs_interest with s_interest in *;
  change ibs_withholding with s_withholding in *; change ibs_open_positions with s_open_positions in *;
  change ibs_summary with s_summary in *; change ibs_forex_balances with s_forex_balances in *.

Ltac ev_secs sec :=
  repeat match goal with
  | |- context [str_eqb sec ?b] => let v := eval vm_compute in (str_eqb sec b) in change (str_eqb sec b) with v
  | H : context [str_eqb sec ?b] |- _ => let v := eval vm_compute in (str_eqb sec b) in change (str_eqb sec b) with v in H
  end.

Ltac more H tl s := destruct tl as [|s tl]; [cbn [length Nat.leb] in H; discriminate H|].

Section IBStatement.
  Variables acct dividend interest tax fee trading : account.

  Definition st_of (ctx : ibs_ctx) : ib_state := mkIb (ibc_base ctx) (opt_or (ibc_end ctx) ibs_zero_day).
  Definition item_dir (i : ibs_item) : directive :=
    match i with IbTxn e => DTxn (tentry_txn e) | IbBal b => assertion_of acct b end.
  Definition line_ok (ctx : ibs_ctx) (r : list str) : Prop :=
    ib_line acct dividend interest tax fee trading (st_of ctx) r =
    MOk (st_of (ibs_next ctx r), map item_dir (ibs_row acct dividend interest tax fee trading ctx r)).

  Lemma line_deposits ctx tl : ibs_wf_row ctx (s_deposits :: tl) = true -> line_ok ctx (s_deposits :: tl).
  Proof.
    intros Hwf. unfold line_ok, ibs_wf_row in *. apply andb_prop in Hwf. destruct Hwf as [Hlen Hk].
    destruct tl as [|s1 tl]; [vm_compute in Hlen; discriminate Hlen|].
    unfold ibs_next, ibs_row, ibs_min_fields, ibs_kind, ib_line, field in *. ib_words. cbn [nth] in *.
    ev_secs s_deposits. cbn [orb andb negb] in *. cbn [conds fld nth_error]. unfold eqs.
    destruct (str_eqb s1 s_data) eqn:Ed; cbn [negb] in *; [|reflexivity].
    more Hlen tl s2. more Hlen tl s3. cbn [nth] in *.
    destruct (str_eqb s2 s_total) eqn:Et; cbn [negb orb] in *; [reflexivity|].
    destruct (is_empty s3) eqn:Ee; cbn [negb orb mbind] in *; [reflexivity|].
    apply andb4 in Hk. destruct Hk as (Hl & Hc & Hd & Hq).
    more Hl tl s4. more Hl tl s5. unfold ibs_deposit, field. cbn [nth] in *.
    apply is_some_inv in Hd. destruct Hd as [d Hd]. apply is_some_inv in Hq. destruct Hq as [q Hq].
    unfold fld_p, fld. cbn [nth_error]. unfold ib_com. rewrite Hc. cbn [mbind]. unfold ib_date. rewrite Hd. cbn [mbind].
    unfold ibs_q2, ibs_day. rewrite Hd, Hq. cbn [date_or0 dec_or0].
    unfold ibs_num2, ibs_num in Hq. unfold ib_rounded, ib_decimal.
    destruct (new_from_string (remove_byte 44%Z s5)); [|discriminate Hq]. injection Hq as Hq. rewrite Hq. cbn [ib_dec mbind].
    reflexivity.
  Qed.
End IBStatement.
