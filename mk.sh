#!/bin/sh
# regenerate _CoqProject, build all .vo (full build), rebuild kmodel
cd "$(dirname "$0")"
python3 -c "
import sys; sys.path.insert(0,'lib'); import vlib
ok, failing, log = vlib.coq_build()
print(log[-1500:])
if not ok: sys.exit(1)
ok, log = vlib.build_kmodel()
print(log[-1500:])
sys.exit(0 if ok else 1)"
