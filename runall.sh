#!/bin/sh
# runs every quick check (4 at a time), one log per check under build/runall/
cd "$(dirname "$0")"
export GOFLAGS=-mod=mod GOPROXY=off GOSUMDB=off GOTOOLCHAIN=local
mkdir -p build/runall
TIER=${1:-quick}
ls checks/c*.py | sed 's/.*\/c\([0-9]*\)\.py/C\1/' | xargs -P ${JOBS:-4} -I{} sh -c "( /usr/bin/time -f '%es' ./check {} --tier $TIER > build/runall/{}.log 2>&1; echo {} exit=\$? \$(tail -1 build/runall/{}.log) )"
