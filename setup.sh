#!/bin/sh
# Builds the framework from files on disk only (offline): Coq development (full .vo build),
# extraction + kmodel, and warms the Go build cache for the harness and knut.
set -e
cd "$(dirname "$0")"
export GOFLAGS=-mod=mod GOPROXY=off GOSUMDB=off GOTOOLCHAIN=local
python3 - <<'PY'
import sys
sys.path.insert(0, "lib")
import vlib
bad = vlib.lint()
if bad:
    print("lint:", bad); sys.exit(1)
ok, failing, log = vlib.coq_build()
print(log[-2000:])
if not ok:
    sys.exit(1)
ok, log = vlib.build_kmodel()
print(log[-2000:])
if not ok:
    sys.exit(1)
with vlib.Workdir() as wd:
    ok, h = vlib.build_harness(wd)
    print("harness:", ok, h if not ok else "")
    ok2, k = vlib.build_knut(wd)
    print("knut:", ok2, k if not ok2 else "")
    if not (ok and ok2):
        sys.exit(1)
PY
echo setup done
