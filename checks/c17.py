"""C17 rendered balance tables are rectangular and numerically faithful (table.TextRenderer / CSVRenderer, knut balance)"""
PID = "C17"
THEOREM_FILE = "Properties/C17.v"
NEEDS_KNUT = True

RULE = ("(1) C17.table: random tables shaped like balance reports built through the exported table API (2-3 column groups, "
        "1-6 numeric columns, header/separator/empty rows, FillEmpty rows, indented ASCII and multi-byte names, amounts "
        "1e-8..1e15 of both signs incl. x.5 / ...49999 / ...50001 at the rounding digit, 999.5, 999999.5, -0.004, zeros in four "
        "representations, positive exponents, trailing zeros), digits -2..8, thousands on/off, rendered by TextRenderer{Color:false} "
        "and CSVRenderer; model text+CSV must be byte-identical; spec on the Go output: rect_b, every numeric cell cut out at "
        "the separator columns passes num_cell_ok_b/num_cell_exact_b against the cell's amount (independent rounding "
        "round_haz, grouping read from the point leftwards), zero amounts blank, csv_ok_b (exact amounts, same positions, "
        "blank rows dropped).  (2) C17.bal: generated journals x flag sets through `knut balance -a --digits n [-k]` and "
        "`--csv`; model text and CSV byte-identical; spec on the binary's output: rect_b, and every text cell against the CSV "
        "field in the same position (numeric cells = the CSV's exact amount rounded, zero = blank, text verbatim).  "
        "Non-trivial: a table with at least one non-zero numeric cell / a report that was produced; distinct by input.")
TRUSTED_BASE = [
    "Coq 8.16.1 kernel",
    "extraction (ExtrOcamlBasic only), OCaml 4.13.1, drv_c17.ml (decoding of the case line, cutting text lines into cells "
    "at the columns found by Spec.TableSpec.sep_columns, splitting the CSV at commas/newlines), drv_journal.ml",
    "harness c17.go (table generator/encoder), journal.go/knutrun.go (journal generator, subprocess runner)",
    "Model/Table.v, Model/Dec.v are hand-written models of lib/common/table and shopspring/decimal v1.3.1 (Round, "
    "StringFixed, String, DivRound), tied to the code by byte-identical output on every run",
    "fmt's %*s padding and utf8.RuneCountInString are modelled as counting non-continuation bytes (exact on valid UTF-8)",
    "encoding/csv quoting is not modelled: generated fields never contain comma, quote, CR/LF or leading space",
]
ASSUMPTIONS = ["every row is as wide as the table (AddRow..FillEmpty, AddSeparatorRow, AddEmptyRow, the balance report: "
               "C17_render_report_rows_full); a shorter row would be rendered ragged by the Go code",
               "indents are not negative and text cells contain no line break",
               "width is counted in runes (utf8.RuneCountInString), as the Go code does - not in terminal cells "
               "(East Asian wide characters occupy two)",
               "--thousands: d.Div(1000) rounds at 16 decimals, exact for amounts with at most 13 decimals (C17_div1000_exact); "
               "the property's range is 8",
               "the binary is always run with -a (without it sibling order depends on Go map order: C06)"]
TECHNIQUE = ("Coq proofs over executable Gallina models of the table renderers and of shopspring/decimal's Round/string "
             "(rounding as integer arithmetic at a common scale, decimal-digit lemmas, layout induction over rows and cells) "
             "+ byte-exact model/implementation correspondence and evaluation of the executable specification on the "
             "implementation's own output")
LEVEL_TEXT = ("C17_rect/C17_lines/C17_layout/C17_cell_width/C17_col_widths_ge (every full-row table, every digits/thousands: equal "
              "rune length, separators at the same rune positions), C17_render_report_rows_full (the balance report builds such "
              "tables), C17_round_spec/C17_round_unique/C17_round_eq_haz (Decimal.Round = half away from zero), C17_div1000_exact, "
              "C17_number/C17_number_meets_spec (strip commas = StringFixed of the rounded amount, p fractional digits, sign iff "
              "rounded value negative), C17_zero_blank, C17_grouping, C17_csv_rows/C17_to_string_roundtrip/C17_csv_exact; all closed "
              "under the global context.")
LEVEL_NOTE = ("Trusted: kernel, extraction, the OCaml driver's cell cutting and CSV splitting, the Go harness; that Model/Table.v "
              "and Model/Dec.v are the Go code (sampled: quick 3000 tables + 300 binary report pairs, thorough 300000 tables). "
              "big.Int's decimal String is modelled by `digits` (proved correct against parse_digits).")


def plan(tier, seed):
    if tier == "quick":
        return [("C17", seed, 3000, []), ("C17bal", seed, 300, [])]
    return [("C17", seed + k, 50000, []) for k in range(6)] + [("C17bal", seed + k, 1500, []) for k in range(4)]


def search_plan(seed):
    return [("C17", seed + 100 + k, 20000, []) for k in range(3)] + [("C17bal", seed + 100, 1000, [])]


def nontrivial(c):
    if c.op == "C17.table":
        return " N" in c.input and not c.observed.startswith(("PANIC", "BADINPUT", "RENDERERR"))
    return c.observed.startswith("OK ") and c.observed.count("\\n") > 6


def distribution(cases):
    d = {"tables": 0, "digits": {}, "thousands": 0, "numeric_cells": 0, "zero_cells": 0, "fill_rows": 0,
         "first_row_not_separator": 0, "multibyte_tables": 0, "panic": 0,
         "bal": 0, "bal_ok": 0, "bal_err": 0, "bal_thousands": 0, "bal_valued": 0}
    for c in cases:
        if c.op == "C17.table":
            d["tables"] += 1
            hdr, _, body = c.input.partition(" | ")
            kv = dict(x.split("=", 1) for x in hdr.split())
            d["digits"][kv["digits"]] = d["digits"].get(kv["digits"], 0) + 1
            d["thousands"] += kv["k"] == "1"
            toks = body.split()
            nums = [t for t in toks if t.startswith("N")]
            d["numeric_cells"] += len(nums)
            d["zero_cells"] += sum(1 for t in nums if t[1:].startswith("0e") or t[1:].startswith("-0e"))
            d["fill_rows"] += toks.count("F")
            d["first_row_not_separator"] += not body.startswith("S")
            d["multibyte_tables"] += any(t[0] in "TI" and any(t.split(":", 1)[1][i:i + 2] >= "80"
                                                                for i in range(0, len(t.split(":", 1)[1]), 2)
                                                                if t.split(":", 1)[1] != "-") for t in toks if ":" in t)
            d["panic"] += c.observed.startswith("PANIC")
        elif c.op == "C17.bal":
            d["bal"] += 1
            d["bal_ok" if c.observed.startswith("OK") else "bal_err"] += 1
            cfg = dict(kv.split("=", 1) for kv in c.input.split(" | ")[0].split())
            d["bal_thousands"] += cfg.get("k") == "1"
            d["bal_valued"] += cfg.get("val") != "-"
            d["digits"]["bal:" + cfg.get("digits", "?")] = d["digits"].get("bal:" + cfg.get("digits", "?"), 0) + 1
    return d
