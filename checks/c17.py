"""C17 rendered balance tables are rectangular and numerically faithful (table.TextRenderer / CSVRenderer, knut balance)"""
PID = "C17"
THEOREM_FILE = "Properties/C17.v"
EXTRA_THEOREM_FILES = ["Properties/C17w.v"]
NEEDS_KNUT = True

RULE = ("(1) C17.table: random tables shaped like balance reports built through the exported table API (2-3 column groups, "
        "1-6 numeric columns, header/separator/empty rows, FillEmpty rows, indented ASCII and multi-byte names, amounts "
        "1e-8..1e15 of both signs incl. x.5 / ...49999 / ...50001 at the rounding digit, 999.5, 999999.5, -0.004, zeros in four "
        "representations, positive exponents, trailing zeros), digits -2..8, thousands on/off, rendered by TextRenderer{Color:false} "
        "and CSVRenderer; model text+CSV must be byte-identical; spec on the Go output: rect_b, every numeric cell cut out at "
        "the separator columns passes num_cell_ok_b/num_cell_exact_b against the cell's amount (independent rounding "
        "round_haz, grouping read from the point leftwards), zero amounts blank, csv_ok_b (exact amounts, same positions, "
        "blank rows dropped).  (2) C17.bal: generated journals x flag sets through `knut balance -a --digits n [-k]` and "
        "`--csv`; model text and CSV byte-identical; spec on the binary's output: rect_b, and every text cell against the CSV "
        "field in the same position (numeric cells = the CSV's exact amount rounded, zero = blank, text verbatim).  "
        "(3) the text table of `portfolio weights` (outside the property's wording, which speaks of the balance report; "
        "reported as observations, never as violations of C17): C17.wtable: tables with percent cells (Row.AddPercent; "
        "float64 given by bit pattern: shares n/d, ties and near-ties of the printed percentage at the rounding digit, "
        "0, -0, NaN, +-Inf, 10^k and 10^k - ulp, subnormals, the largest float, random bit patterns; half of the tables with "
        "all weights in [0,1] and digits 0..5) through TextRenderer{Round: digits}, digits -3..30: model text byte-identical; "
        "spec on the Go output: wtable_fits_b (every cell fills its column) implies rect_b.  C17.weights: generated "
        "portfolios (the generators of C20) and portfolios whose total is exactly zero at some period ends through "
        "`knut portfolio weights -a --color=false --digits n` (n in 0..8, -1): the binary's text against "
        "Model.WeightsTable.weights_text_cmd line by line and cell by cell (a percent cell may differ by one unit of the "
        "last place: float64 sums vs the nearest float of the exact weight; counted), the two command models agree; spec on "
        "the binary's text: fits implies rect_b, every printed percentage passes pct_cell_ok_b against the exact rational "
        "weight (half a unit of the last place + 1e-9 relative), +Inf% / -Inf% / the empty unpadded cell where the total is "
        "zero.  Tables of the binary that are not rectangular are counted by cause (NaN cell, numeral wider than the "
        "column, negative --digits) in the evidence.  "
        "Non-trivial: a table with at least one non-zero numeric cell / a report that was produced; distinct by input.")
TRUSTED_BASE = [
    "Coq 8.16.1 kernel",
    "extraction (ExtrOcamlBasic only), OCaml 4.13.1, drv_c17.ml (decoding of the case line, cutting text lines into cells "
    "at the columns found by Spec.TableSpec.sep_columns, splitting the CSV at commas/newlines), drv_journal.ml",
    "harness c17.go (table generator/encoder), journal.go/knutrun.go (journal generator, subprocess runner)",
    "Model/Table.v, Model/Dec.v are hand-written models of lib/common/table and shopspring/decimal v1.3.1 (Round, "
    "StringFixed, String, DivRound), tied to the code by byte-identical output on every run",
    "fmt's %*s padding and utf8.RuneCountInString are modelled as counting non-continuation bytes (exact on valid UTF-8)",
    "encoding/csv quoting is not modelled: generated fields never contain comma, quote, CR/LF or leading space",
    "weights part: drv_c17w.ml (decoding of the case line and of float64 bit patterns, splitting text lines at '|'), harness "
    "c17w.go, the generators of c20.go; Model/F64.v is a hand-written model of float64 multiplication by 100 and of "
    "strconv.FormatFloat(x, 'f', p, 64) / fmt's %*.*f (incl. the BADPREC fallback), tied byte for byte on every run; "
    "Model/WeightsTable.v computes the command's weights with exact rationals extended by +-Inf/NaN and prints the "
    "nearest float64 (the binary sums float64 values: compared within one unit of the last printed place)",
]
ASSUMPTIONS = ["every row is as wide as the table (AddRow..FillEmpty, AddSeparatorRow, AddEmptyRow, the balance report: "
               "C17_render_report_rows_full); a shorter row would be rendered ragged by the Go code",
               "indents are not negative and text cells contain no line break",
               "width is counted in runes (utf8.RuneCountInString), as the Go code does - not in terminal cells "
               "(East Asian wide characters occupy two)",
               "--thousands: d.Div(1000) rounds at 16 decimals, exact for amounts with at most 13 decimals (C17_div1000_exact); "
               "the property's range is 8",
               "the binary is always run with -a (without it sibling order depends on Go map order: C06)",
               "weights part: C17_weights_rect assumes dates of the years 0..9999 (ten runes), labels without line break, one "
               "cell per date (as weights.Renderer builds them) and that every weight is printed in at most ten runes; "
               "C17_weights_rect_unit derives the last from weights in [0,1] and --digits 0..5"]
TECHNIQUE = ("Coq proofs over executable Gallina models of the table renderers and of shopspring/decimal's Round/string "
             "(rounding as integer arithmetic at a common scale, decimal-digit lemmas, layout induction over rows and cells) "
             "+ byte-exact model/implementation correspondence and evaluation of the executable specification on the "
             "implementation's own output")
LEVEL_TEXT = ("C17_rect/C17_lines/C17_layout/C17_cell_width/C17_col_widths_ge (every full-row table, every digits/thousands: equal "
              "rune length, separators at the same rune positions), C17_render_report_rows_full (the balance report builds such "
              "tables), C17_round_spec/C17_round_unique/C17_round_eq_haz (Decimal.Round = half away from zero), C17_div1000_exact, "
              "C17_number/C17_number_meets_spec (strip commas = StringFixed of the rounded amount, p fractional digits, sign iff "
              "rounded value negative), C17_zero_blank, C17_grouping, C17_csv_rows/C17_to_string_roundtrip/C17_csv_exact; all closed "
              "under the global context.  Weights report (Properties/C17w.v): C17_weights_cell_width / _cell_misfit (a percent cell "
              "is rendered to its column's width iff --digits >= 0 and numeral+% fit, a NaN iff the width is 0), "
              "C17_weights_table_rect (every well-formed table all of whose cells fit is rectangular), C17_weights_col_widths_ge, "
              "C17_weights_extends_table (= Model/Table.v's renderer on tables without percent cells), C17_weights_wf, "
              "C17_weights_rect (the report is rectangular when every weight is printed in <= 10 runes), C17_weights_rect_unit "
              "(weights in [0,1], --digits 0..5; through C17_weights_unit_len: the float64 product n*100 never exceeds 100), and "
              "the refutations by vm_compute C17_weights_nan_refuted (zero-total column: empty unpadded cell, the model's bytes "
              "= the binary's), C17_weights_digits6_refuted (weight 1, --digits 6), C17_weights_negative_digits_refuted "
              "(%!(BADPREC)); all closed under the global context.")
LEVEL_NOTE = ("Trusted: kernel, extraction, the OCaml driver's cell cutting and CSV splitting, the Go harness; that Model/Table.v "
              "and Model/Dec.v are the Go code (sampled: quick 3000 tables + 300 binary report pairs, thorough 300000 tables). "
              "big.Int's decimal String is modelled by `digits` (proved correct against parse_digits).  The weights table is not "
              "covered by the property's wording; its three ways of not being rectangular are proved of the model, observed on the "
              "binary on every run and written up in findings/C17-weights-nan-cell.md.  Float64 arithmetic of the report values is "
              "not modelled (exact rationals + nearest float; sampled within one unit of the last place).")


def plan(tier, seed):
    if tier == "quick":
        return [("C17", seed, 3000, []), ("C17bal", seed, 300, []), ("C17w", seed, 2000, [])]
    return [("C17", seed + k, 50000, []) for k in range(6)] + [("C17bal", seed + k, 1500, []) for k in range(4)] + \
        [("C17w", seed + k, 20000, []) for k in range(4)]


def search_plan(seed):
    return [("C17", seed + 100 + k, 20000, []) for k in range(3)] + [("C17bal", seed + 100, 1000, [])] + \
        [("C17w", seed + 100, 10000, [])]


NOTE = " #NOTE# "


def compare(c):
    """C17.wtable / C17.weights: the model output carries an observation after NOTE (why the binary's table is not
    rectangular; how many percent cells were accepted one unit of the last place apart)"""
    if c.op in ("C17.wtable", "C17.weights"):
        return (c.model or "").split(NOTE)[0] == c.observed
    return c.model == c.observed


def nontrivial(c):
    if c.op == "C17.table":
        return " N" in c.input and not c.observed.startswith(("PANIC", "BADINPUT", "RENDERERR"))
    if c.op == "C17.wtable":
        return " P" in c.input and not c.observed.startswith(("PANIC", "BADINPUT", "RENDERERR"))
    if c.op == "C17.weights":
        return c.observed.startswith("OK ") and "%" in c.observed
    return c.observed.startswith("OK ") and c.observed.count("\\n") > 6


def distribution(cases):
    d = {"tables": 0, "digits": {}, "thousands": 0, "numeric_cells": 0, "zero_cells": 0, "fill_rows": 0,
         "first_row_not_separator": 0, "multibyte_tables": 0, "panic": 0,
         "bal": 0, "bal_ok": 0, "bal_err": 0, "bal_thousands": 0, "bal_valued": 0,
         "wtables": 0, "wtable_percent_cells": 0, "weights_runs": 0, "weights_zero_total_journals": 0,
         "weights_observations": {}, "weights_cells_one_unit_apart": 0}
    for c in cases:
        if c.op in ("C17.wtable", "C17.weights"):
            if c.op == "C17.wtable":
                d["wtables"] += 1
                d["wtable_percent_cells"] += c.input.count(" P")
            else:
                d["weights_runs"] += 1
                d["weights_zero_total_journals"] += c.id.endswith("-z")
            kv = dict(x.split("=", 1) for x in c.input.split(" | ")[0].split() if "=" in x)
            key = ("wtable:" if c.op == "C17.wtable" else "weights:") + kv.get("digits", "?")
            d["digits"][key] = d["digits"].get(key, 0) + 1
            note = (c.model or "").split(NOTE)
            what = "rectangular"
            if len(note) > 1:
                for t in note[1].split():
                    if t.startswith("float="):
                        d["weights_cells_one_unit_apart"] += int(t[6:])
                    else:
                        what = t
            k2 = c.op + " " + what
            d["weights_observations"][k2] = d["weights_observations"].get(k2, 0) + 1
            continue
        if c.op == "C17.table":
            d["tables"] += 1
            hdr, _, body = c.input.partition(" | ")
            kv = dict(x.split("=", 1) for x in hdr.split())
            d["digits"][kv["digits"]] = d["digits"].get(kv["digits"], 0) + 1
            d["thousands"] += kv["k"] == "1"
            toks = body.split()
            nums = [t for t in toks if t.startswith("N")]
            d["numeric_cells"] += len(nums)
            d["zero_cells"] += sum(1 for t in nums if t[1:].startswith("0e") or t[1:].startswith("-0e"))
            d["fill_rows"] += toks.count("F")
            d["first_row_not_separator"] += not body.startswith("S")
            d["multibyte_tables"] += any(t[0] in "TI" and any(t.split(":", 1)[1][i:i + 2] >= "80"
                                                                for i in range(0, len(t.split(":", 1)[1]), 2)
                                                                if t.split(":", 1)[1] != "-") for t in toks if ":" in t)
            d["panic"] += c.observed.startswith("PANIC")
        elif c.op == "C17.bal":
            d["bal"] += 1
            d["bal_ok" if c.observed.startswith("OK") else "bal_err"] += 1
            cfg = dict(kv.split("=", 1) for kv in c.input.split(" | ")[0].split())
            d["bal_thousands"] += cfg.get("k") == "1"
            d["bal_valued"] += cfg.get("val") != "-"
            d["digits"]["bal:" + cfg.get("digits", "?")] = d["digits"].get("bal:" + cfg.get("digits", "?"), 0) + 1
    return d
