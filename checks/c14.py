"""C14 commands fail cleanly on every input: no panic, no hang, no memory exhaustion; errors on stderr, exit 1,
empty stdout for report commands; an error in any included file fails the command"""
import re

PID = "C14"
THEOREM_FILE = "Properties/C14.v"
NEEDS_KNUT = True

RULE = ("the knut binary built from the working tree, run in a materialised file tree under `ulimit -v 2000000` (about 2 GiB) "
        "and a 10 s timeout, eight commands (check, balance, print, format, infer, transcode, portfolio weights, portfolio "
        "returns).  Four input families per run: (40%) structured journals inside the modelled space spread over include "
        "trees (single, flat, chain with ../ and ./, diamond, self-include, mutual include, inner cycle, missing file, "
        "directory, unreadable file, unparseable child, root in a subdirectory), half of them pushed onto a guard "
        "(transaction on 0001-01-01 or in year 0000, inverted or zero-dated accrual window, negative -m level/suffix, "
        "inverted window, negative --last, empty journal, no transactions, price 0) through check/print/balance; "
        "(25%) arbitrary bytes, hostile fragments and byte-mutated journals through all commands; (25%) every flag "
        "absent/negative/huge/inverted/malformed on a valid journal; (9%) include graphs over raw files incl. 200-wide and "
        "300-deep ones; (1%) --digits of 5e8..2^31-1 and a daily accrual over years 1..9999.  Spec verdict (Spec.FailSpec.clean_run_b, extracted) on the "
        "observation: class in {OK, ERR}; ERR implies a diagnostic on stderr and, for balance/print/transcode/infer/check, "
        "empty stdout; and, when the whole tree is structured, a command that follows includes must not succeed if the "
        "include graph fails to load (missing/unreadable/unparseable file or a cycle: CliSafe.load_error).  Inside the modelled space the class predicted by the repaired model (Model/CliSafe.v over "
        "Model/Loader.v) must equal the observed class.  Non-trivial: the command got past flag parsing, i.e. the "
        "observation is not a usage error (approximated: the case is not a flag-family case that ended in ERR); distinct by input.")

TRUSTED_BASE = [
    "Coq 8.16.1 kernel, vm_compute (witnesses)",
    "extraction (ExtrOcamlBasic only), OCaml 4.13.1, drv_c14.ml/drv_journal.ml (decoding of the case line)",
    "harness c14.go: generators, materialisation of the tree, the runner (sh ulimit -v, process-group kill on timeout), "
    "the classification of a run (exit status, 'panic:'/'fatal error:'/'goroutine ' and 'out of memory' on stderr)",
    "Model/Loader.v is a hand-written model of syntax.parseRec (sequential, document order); Model/CliSafe.v of the patched "
    "commands; tied to the code only by the predicted-class correspondence of this check",
    "the Go runtime: nil dereference, slice bounds, allocation, goroutine leaks, the parser on arbitrary bytes are sampled, not proved",
]
ASSUMPTIONS = [
    "files are regular files, directories, or absent; devices, FIFOs and symlink loops are outside the generated space",
    "the harness runs as root in this sandbox, where chmod 000 is not enforced: 'unreadable' files are materialised as "
    "directories (a read error of another kind)",
    "raw (non-structured) files inside a predicted case are drawn from a fixed list of texts that knut rejects",
    "10 s / 2 GiB are the operational meaning of 'hangs' / 'exhausts memory' on inputs of at most a few hundred KiB",
]
TECHNIQUE = ("Coq proof about a hand-written Gallina model (include loader with fuel, pinned and repaired; explicit guard predicate "
             "and panic-iff lemmas for every panicking function; repaired variants panic-free) + execution of the real binary "
             "under resource limits on generated hostile inputs with the executable specification evaluated on each run")
LEVEL_TEXT = ("Coq (closed under the global context): C14_load_terminates (repaired loader, every finite file system), "
              "C14_cycle_diverges_pinned(_general) and C14_cycle_is_error, C14_included_error_fails_all, "
              "C14_included_directive_loaded, C14_invalid_directive_fails_all; C14_no_panic_balance/check/print under the "
              "explicit guards with iff-lemmas per panicking function and a refuting witness per guard "
              "(C14_pinned_panics_refuted_*); C14_no_panic_repaired(_fs) for every input; C14_repaired_agrees; "
              "C14_error_empty_stdout by the result type.  Partial: what only the Go runtime can exhibit is sampled on the "
              "binary (quick ~600 runs, thorough 60000).")
LEVEL_NOTE = ("The unconditional statement is false of the pinned code (findings F5 F8 F9 F12 F17 F19) and is proved of the "
              "repaired model; transcode, infer, format and the portfolio commands, flag parsing (cobra) and the parser are "
              "not modelled here and only sampled; fuel-bounded recursion of the price graph is excluded by the C12 lemmas.")


def plan(tier, seed):
    if tier == "quick":
        return [("C14", seed, 600, [])]
    return [("C14", seed + k, 6000, []) for k in range(10)]


def search_plan(seed):
    return [("C14", seed + 100 + k, 1500, []) for k in range(2)]


def _class(obs):
    m = re.match(r"class=(\S+)", obs or "")
    return m.group(1) if m else "?"


def compare(c):
    """inside the modelled space the predicted class must be the observed one; elsewhere only the spec verdict counts"""
    if c.model == "-":
        return True
    return _class(c.observed) in c.model.split("|")


def nontrivial(c):
    cl = _class(c.observed)
    if cl == "OK":
        return True
    parts = c.input.split(" # ")
    hostile_flags = len(parts) > 2 and parts[1].startswith("raw") and "empty.knut".encode().hex() in parts[2]
    return not (hostile_flags and cl == "ERR")


def distribution(cases):
    d = {"by_cmd": {}, "by_class": {}, "predicted": 0, "predicted_err": 0, "trees": {"single": 0, "multi": 0, "cyclic_or_bad": 0},
         "raw_flag_cases": 0, "signatures": {}}
    for c in cases:
        parts = (c.input.split(" # ") + ["", ""])[:3]
        d["by_cmd"][parts[0]] = d["by_cmd"].get(parts[0], 0) + 1
        cl = _class(c.observed)
        d["by_class"][cl] = d["by_class"].get(cl, 0) + 1
        if c.model and c.model != "-":
            d["predicted"] += 1
            d["predicted_err"] += c.model.startswith("ERR")
        n = len(parts[2].split())
        d["trees"]["single" if n <= 1 else "multi"] += 1
        if re.search(r"(^| )[UDF]:", parts[2]) and n > 1:
            d["trees"]["cyclic_or_bad"] += 1
        d["raw_flag_cases"] += parts[1].startswith("raw")
        m = re.search(r"sig=(\S+)", c.observed or "")
        if m:
            d["signatures"][m.group(1)] = d["signatures"].get(m.group(1), 0) + 1
    return d
