"""C14 commands fail cleanly on every input: no panic, no hang, no memory exhaustion; errors on stderr, exit 1,
empty stdout for report commands; an error in any included file fails the command"""
import re

PID = "C14"
THEOREM_FILE = "Properties/C14.v"
NEEDS_KNUT = True

RULE = ("the knut binary built from the working tree, run in a materialised file tree under `ulimit -v 2000000` (about 2 GiB) "
        "and a 10 s timeout, eight commands (check, balance, print, format, infer, transcode, portfolio weights, portfolio "
        "returns).  Four input families per run: (40%) structured journals inside the modelled space spread over include "
        "trees (single, flat, chain with ../ and ./, diamond, self-include, mutual include, inner cycle, missing file, "
        "directory, unreadable file, unparseable child, root in a subdirectory), half of them pushed onto a guard "
        "(transaction on 0001-01-01 or in year 0000, inverted or zero-dated accrual window, negative -m level/suffix, "
        "inverted window, negative --last, empty journal, no transactions, price 0) through check/print/balance and "
        "(a third of them, same journal, tree, window, valuation and mapping) through transcode [-v V], portfolio weights "
        "(csv or text, optional universe file incl. a commodity in two classes, mappings on class paths) and portfolio returns; "
        "(25%) arbitrary bytes, hostile fragments and byte-mutated journals through all commands; (25%) every flag "
        "absent/negative/huge/inverted/malformed on a valid journal, in every form of pflag's argument list (--name value, "
        "--name=value, -x value, -xvalue, -x=value, clustered shorthands, explicit booleans, --, -, help, base prefixes and "
        "underscores in integers), with the exit class predicted by Model/Flags.v + Model/CliFlags.v (flagspec flg); (9%) include graphs over raw files incl. 200-wide and "
        "300-deep ones; (1%) --digits of 5e8..2^31-1 and a daily accrual over years 1..9999.  Spec verdict (Spec.FailSpec.clean_run_b, extracted) on the "
        "observation: class in {OK, ERR}; ERR implies a diagnostic on stderr and, for balance/print/transcode/infer/check, "
        "empty stdout; and, when the whole tree is structured, a command that follows includes must not succeed if the "
        "include graph fails to load (missing/unreadable/unparseable file or a cycle: CliSafe.load_error).  Inside the modelled space the class predicted by the repaired model (Model/CliSafe.v and "
        "Model/CliSafeMore.v - check, print, balance, transcode, weights, returns - over Model/Loader.v) must equal the observed class; in the flag family the class "
        "is that of CliFlags.run_argv on the argument list (usage error, help, or the command's class), '-' where the model has no opinion (an "
        "accepted expression whose meaning Model/Str.v cannot express, a universe file that exists, --digits "
        "beyond 1000).  Second generator (C14flag, 20000 values per quick run): flag values given in-process to DateFlag.Set, RegexFlag.Set, "
        "MappingFlag.Set, pflag's int/int32/bool Set and the commodity registry; accepted/rejected (syntax or range), the value, and for "
        "expressions the matches on 17 probe strings must equal Flags.parse_value / rx_sem; spec verdict: Flags.value_in_range on the value "
        "the implementation accepted.  Third generator (C14rx, 10000 expressions per quick run, 10^6 thorough): regexp/syntax.Parse(s, syntax.Perl) - the "
        "parser behind regexp.Compile - in-process against Model/RxSyntax.v rx_parse: the parse tree (operators, flags, runes, class ranges, "
        "counts, capture numbers and names) or the error code, and the verdict of flags.RegexFlag.Set, must be equal as strings; spec verdict: "
        "the flag accepts exactly the strings syntax.Parse parses (and regexp.Compile agrees).  Every Unicode class name of the toolchain "
        "(\\p{X}, \\P{X}, folded, negated in brackets), then grammar-directed expressions (mostly valid or one edit from valid), alternations "
        "aimed at the four rounds of factor, case folding, each error kind, the repeat product 1000, nesting depth 1000, compiled size and "
        "rune count; corpus/C14/rx_limits.txt and rx_long.txt keep both sides of every limit and long expressions with the parser's caches in use.  Non-trivial: the command got past flag parsing, i.e. the "
        "observation is not a usage error (approximated: the case is not a flag-family case that ended in ERR); a flag value of the second "
        "generator and an expression of the third always count; distinct by input (the evidence lists binary runs and flag values separately).")

TRUSTED_BASE = [
    "Coq 8.16.1 kernel, vm_compute (witnesses)",
    "extraction (ExtrOcamlBasic only), OCaml 4.13.1, drv_c14.ml/drv_journal.ml (decoding of the case line)",
    "harness c14.go: generators, materialisation of the tree, the runner (sh ulimit -v, process-group kill on timeout), "
    "the classification of a run (exit status, 'panic:'/'fatal error:'/'goroutine ' and 'out of memory' on stderr)",
    "Model/Loader.v is a hand-written model of syntax.parseRec (sequential, document order); Model/CliSafe.v and "
    "Model/CliSafeMore.v of the patched commands (check, print, balance; transcode, portfolio weights, portfolio returns); "
    "tied to the code by the predicted-class correspondence of this check (and, for the output bytes, by C01-C03, C09, C16, C20)",
    "format and infer: the theorems are about Model/Parser.v, Model/SynPrinter.v, Model/BayesScore.v, tied to the code by the "
    "checks C07, C08, C15; here the two commands are only run on hostile inputs",
    "Model/Flags.v is a hand transcription of strconv (go1.23.5 atoi.go), time.Parse for the layout 2006-01-02, pflag v1.0.5 "
    "(flag.go parseArgs and below, int.go, int32.go, bool.go), cobra v1.7.0 (Command.execute up to Run, flag groups) and cmd/flags; "
    "the flag tables of the eight commands are copied from their setupFlags; tied to the code by the C14.flag value op and the "
    "predicted flag family of this check",
    "Model/RxClass.v + Model/RxSyntax.v are a hand transcription of regexp/syntax parse.go and perl_groups.go (go1.23.5) with the flags "
    "syntax.Perl: lexing, the parse stack, factor, the class arithmetic, the three limits with the struct identities and caches behind them; "
    "Model/RxTables.v (unicode.Categories/Scripts/FoldCategory/FoldScript, unicode.SimpleFold) is generated from the toolchain by "
    "lib/gen_rx_tables.go; both tied to the code by the C14.rx op of this check (trees compared, every class name on every run); "
    "Regexp.Simplify and syntax.Compile are assumed not to fail (regexp.Compile is observed to agree with syntax.Parse on every case)",
    "harness c14rx.go: the generator and the rendering of a syntax.Regexp; drv_c14rx.ml: the same rendering of the model's tree, FNV-1a of long ones",
    "harness c14flags.go: the in-process calls and the rendering of accepted values",
    "the Go runtime: nil dereference, slice bounds, allocation, goroutine leaks, the parser on arbitrary bytes are sampled, not proved",
]
ASSUMPTIONS = [
    "files are regular files, directories, or absent; devices, FIFOs and symlink loops are outside the generated space",
    "the harness runs as root in this sandbox, where chmod 000 is not enforced: 'unreadable' files are materialised as "
    "directories (a read error of another kind)",
    "raw (non-structured) files inside a predicted case are drawn from a fixed list of texts that knut rejects",
    "the run date (date.Today(), the default of --to) is later than every date in the generated journals: the model is given 9999-12-31",
    "10 s / 2 GiB are the operational meaning of 'hangs' / 'exhausts memory' on inputs of at most a few hundred KiB",
]
TECHNIQUE = ("Coq proof about a hand-written Gallina model (include loader with fuel, pinned and repaired; explicit guard predicate "
             "and panic-iff lemmas for every panicking function; repaired variants panic-free) + execution of the real binary "
             "under resource limits on generated hostile inputs with the executable specification evaluated on each run")
LEVEL_TEXT = ("Coq (closed under the global context): C14_load_terminates (repaired loader, every finite file system), "
              "C14_cycle_diverges_pinned(_general) and C14_cycle_is_error, C14_included_error_fails_all, "
              "C14_included_directive_loaded, C14_invalid_directive_fails_all(_more); for each of check, print, balance, "
              "transcode, portfolio weights, portfolio returns: C14_no_panic_<cmd> under the explicit guards (accrual windows, "
              "non-negative -m numbers, window start), iff-lemmas per panicking function and command "
              "(C14_expand/shorten/partition/pf_partition/map_path/query/check/transcode/returns_panics_iff) and a refuting "
              "witness per guard (C14_pinned_panics_refuted_*); C14_no_panic_repaired(_more)(_fs) for every input; "
              "C14_repaired_agrees(_more); for format and infer: C14_format_total, C14_infer_total, C14_parse_total (never "
              "CmdPanic / CmdOutOfFuel / InferBad / ParseFuel, on any byte string; the exit class is a function of 'the files "
              "parse'); C14_error_empty_stdout(_more)(_syntax) by the result types; flag handling (Model/Flags.v, "
              "CliFlags.v): C14_flag_error_is_clean (a rejected command line ends the command before Run in every file system: no panic, no "
              "success), C14_rejected_value_rejects / C14_rejected_value_ends_command (a rejected value anywhere on the command line), "
              "C14_accepted_values_in_range, C14_flags_total (every flag kind, every string: accepted in range or rejected), C14_regex_flag_iff, "
              "C14_int_flag_range, C14_mapping_flag_iff, C14_accepted_mapping_guard; regular expressions on all strings (Model/RxSyntax.v): "
              "C14_rx_lex_progress, C14_rx_factor_fuel, C14_rx_valid_fuel_enough, C14_rx_parse_total, C14_rx_valid_spec.  Partial: what only the Go runtime can "
              "exhibit is sampled on the binary (quick ~600 runs, thorough 60000).")
LEVEL_NOTE = ("The unconditional statement is false of the pinned code (findings F5 F8 F9 F12 F17 F19) and is proved of the "
              "repaired model for all seven commands (check, balance, print, transcode, portfolio weights/returns at the "
              "directive level over the include loader; format and infer at the byte level); flag handling is modelled as far as "
              "it is knut's own code and the value syntax of pflag/strconv/time that decides error versus success (every value parser "
              "total and proved in range; the argument list and cobra's validation; the exit class of the flag family predicted and "
              "compared on every run) - including regexp.Compile, whose success is decided on every string by a transcription of "
              "regexp/syntax.Parse that is proved total (no fuel exhaustion) and compared with the toolchain's parser tree by tree - except the "
              "YAML reader of --universe; what an accepted expression MATCHES is modelled only for the expressions rx_sem can express "
              "(alternatives of ^?literal$?, .*, $^): where the content of a report depends on another expression the flag-family case "
              "stays classification only; the loading commands start from parsed directives (the parser's totality is C14_parse_total / C07); the exit class of transcode, weights and returns "
              "is compared with the model's inside the modelled flag space like that of check, print, balance; `portfolio "
              "returns` prints while it processes, so its model describes stdout of successful runs only (the property does "
              "not list it among the commands whose failure leaves stdout empty); fuel-bounded recursion of the price "
              "graph is excluded by the C12 lemmas.")


def plan(tier, seed):
    if tier == "quick":
        return [("C14", seed, 600, []), ("C14flag", seed, 20000, []), ("C14rx", seed, 10000, [])]
    return [("C14", seed + k, 6000, []) for k in range(10)] + [("C14flag", seed, 1000000, []), ("C14rx", seed, 1000000, ["big"])]


def search_plan(seed):
    return [("C14", seed + 100 + k, 1500, []) for k in range(2)]


def _class(obs):
    m = re.match(r"class=(\S+)", obs or "")
    return m.group(1) if m else "?"


def compare(c):
    """inside the modelled space the predicted class must be the observed one; elsewhere only the spec verdict counts"""
    if c.op == "C14.rx":
        # the tree (or the error code) of regexp/syntax and the verdict of RegexFlag.Set: equal strings
        return c.model == c.observed
    if c.op == "C14.flag":
        # a flag value: accepted/rejected and the value must agree; "?" = outside the modelled regexp sublanguage,
        # "ok m=?" = the expression compiles but Model/Str.v cannot express what it matches
        if c.model == "?":
            return True
        if c.model == "ok m=?":
            return (c.observed or "").startswith("ok m=")
        return c.model == c.observed
    if c.model == "-":
        return True
    return _class(c.observed) in c.model.split("|")


def nontrivial(c):
    if c.op == "C14.rx":
        return True
    if c.op == "C14.flag":
        return c.model != "?"
    cl = _class(c.observed)
    if cl == "OK":
        return True
    parts = c.input.split(" # ")
    hostile_flags = len(parts) > 1 and parts[1].startswith("flg")
    return not (hostile_flags and cl == "ERR")


def distribution(cases):
    d = {"by_cmd": {}, "by_class": {}, "predicted": 0, "predicted_err": 0, "predicted_by_cmd": {},
         "trees": {"single": 0, "multi": 0, "cyclic_or_bad": 0}, "raw_flag_cases": 0, "signatures": {},
         "flag_family": {"cases": 0, "predicted": {}, "no_opinion": 0},
         "flag_values": {}, "regexps": {"cases": 0, "parsed": 0, "errors": {}}}
    for c in cases:
        if c.op == "C14.rx":
            rx = d["regexps"]
            rx["cases"] += 1
            f = (c.observed or "").split(" ")
            if f[0] == "ok":
                rx["parsed"] += 1
            else:
                k = f[1] if len(f) > 1 else "?"
                rx["errors"][k] = rx["errors"].get(k, 0) + 1
            continue
        if c.op == "C14.flag":
            kind = c.input.split(" ")[0]
            fv = d["flag_values"].setdefault(kind, {"accepted": 0, "rejected": 0, "no_opinion": 0})
            if c.model == "?":
                fv["no_opinion"] += 1
            elif (c.observed or "").startswith("ok"):
                fv["accepted"] += 1
            else:
                fv["rejected"] += 1
            continue
        parts = (c.input.split(" # ") + ["", ""])[:3]
        d["by_cmd"][parts[0]] = d["by_cmd"].get(parts[0], 0) + 1
        cl = _class(c.observed)
        d["by_class"][cl] = d["by_class"].get(cl, 0) + 1
        if c.model and c.model != "-":
            d["predicted"] += 1
            d["predicted_err"] += c.model.startswith("ERR")
            pc = d["predicted_by_cmd"].setdefault(parts[0], {})
            pc[c.model] = pc.get(c.model, 0) + 1
        n = len(parts[2].split())
        d["trees"]["single" if n <= 1 else "multi"] += 1
        if re.search(r"(^| )[UDF]:", parts[2]) and n > 1:
            d["trees"]["cyclic_or_bad"] += 1
        d["raw_flag_cases"] += parts[1].startswith("raw")
        if parts[1].startswith("flg"):
            ff = d["flag_family"]
            ff["cases"] += 1
            if c.model == "-":
                ff["no_opinion"] += 1
            else:
                ff["predicted"][c.model] = ff["predicted"].get(c.model, 0) + 1
        m = re.search(r"sig=(\S+)", c.observed or "")
        if m:
            d["signatures"][m.group(1)] = d["signatures"].get(m.group(1), 0) + 1
    return d
