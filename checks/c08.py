"""C08 format preserves meaning and comments and is idempotent
(lib/syntax/printer/printer.go Format/Initialize/print*, syntax.FormatFile, cmd/commands/format.go)"""
PID = "C08"
THEOREM_FILE = "Properties/C08.v"
NEEDS_KNUT = True

RULE = ("texts from the C07 layout generator (all directive kinds, @performance/@accrue in both orders, single- and "
        "multi-line assertions, comments and headings, CRLF, tabs, trailing blanks, multi-line descriptions, Unicode "
        "account names, missing final newline; ~80% parse) plus mutated/truncated/invalid-UTF-8 texts.  In-process: "
        "syntax.FormatFile on the parsed file must give the model's bytes; the Go parser re-parses the formatted "
        "text and the extracted sem/gaps of original and formatted trees are compared (same_sem_gaps_b), and "
        "formatting the re-parsed file must reproduce the same bytes.  Through the binary: `knut format FILE`, the "
        "file's bytes afterwards must be the model's (rewritten) or the input (parse error, exit 1) and no other "
        "directory entry may remain; and `knut format f0 .. fn` (2-7 files, 40% of them formatted already, GOMAXPROCS 1/2/16) "
        "run twice on one directory: every file must hold the model's bytes after each run and the second run must "
        "change nothing (op C08.multi).  Non-trivial: the text parses and formatting changes it, or it does not parse "
        "and is not empty; distinct by input.")
TRUSTED_BASE = [
    "Coq 8.16.1 kernel",
    "extraction (ExtrOcamlBasic only) + OCaml 4.13.1 + drv_c07.ml/drv_c08.ml (hex, reading the Go trees back)",
    "harness c07.go (layout generator, tree rendering) and c08.go (FormatFile twice, re-parse, subprocess runner)",
    "Model/SynPrinter.v is printer.go (fmt's %-*s/%10s as rune-counted padding), tied by byte equality on every case",
    "Model/UnicodeTables.v is unicode.IsLetter/IsDigit (the hypothesis class_ok of the round trip is discharged for these tables; tied to Go by C07's correspondence on Unicode inputs)",
]
ASSUMPTIONS = ["atomic.WriteFile replaces the file or leaves it (C18's subject); the command model has no I/O errors"]


def plan(tier, seed):
    if tier == "quick":
        return [("C08", seed, 800, []), ("C08cmd", seed, 150, []), ("C08multi", seed, 60, [])]
    return [("C08", seed + k, 25000, []) for k in range(4)] + [("C08cmd", seed, 3000, []), ("C08multi", seed, 1500, [])]


def search_plan(seed):
    return [("C08", seed + 1000 + k, 10000, []) for k in range(3)]


def compare(c):
    if c.op == "C08.format":
        return c.observed.split(" ; ")[0] == c.model
    if c.op == "C08.multi":
        return c.observed == c.model
    return " ".join(c.observed.split(" ")[:2]) == c.model


def nontrivial(c):
    if c.op == "C08.multi":
        return True
    if c.op == "C08.format":
        if c.observed.startswith("OK "):
            return c.observed.split(" ")[1] != c.input
        return c.input != ""
    f = c.observed.split(" ")
    return len(f) > 1 and (f[0] == "ERR" or f[1] != c.input)


def distribution(cases):
    d = {"format_ok": 0, "format_changed": 0, "unparseable": 0, "cmd_rewritten": 0, "cmd_untouched": 0,
         "bytes_total": 0, "directives": 0, "transactions": 0, "with_addons": 0, "multi_line_assertions->single": 0,
         "crlf_inputs": 0, "no_final_newline": 0}
    for c in cases:
        if c.op == "C08.multi":
            d["multi_runs"] = d.get("multi_runs", 0) + 1
            d["multi_files"] = d.get("multi_files", 0) + c.input.count(",") + 1
            continue
        n = len(c.input) // 2
        d["bytes_total"] += n
        if "0d0a" in c.input:
            d["crlf_inputs"] += 1
        if c.input and not c.input.endswith("0a"):
            d["no_final_newline"] += 1
        if c.op == "C08.format":
            if c.observed.startswith("OK "):
                f = c.observed.split(" ; ")
                d["format_ok"] += 1
                if f[0][3:] != c.input:
                    d["format_changed"] += 1
                if len(f) > 1:
                    d["directives"] += f[1].count("(D ")
                    d["transactions"] += f[1].count("(T ")
                    if f[1].count("(ad 0 0 ") < f[1].count("(ad "):
                        d["with_addons"] += 1
            else:
                d["unparseable"] += 1
        else:
            if c.observed.startswith("OK"):
                d["cmd_rewritten"] += 1
            elif c.observed.startswith("ERR"):
                d["cmd_untouched"] += 1
    return d


TECHNIQUE = ("Coq proof over hand-written Gallina models of printer.go and the parser (format = gaps interleaved with printed "
             "directives, a function of meaning and gaps only; re-parse by context lemmas) + byte-exact model/implementation "
             "correspondence, with the executable specification (sem, gaps) evaluated on the Go parser's trees of the "
             "original and of the Go-formatted text, and a run through the knut binary")
LEVEL_TEXT = ("see Properties/C08.v: the round trip C08_roundtrip (parse(format t) has the meaning and the gaps of parse t, every "
              "directive kind, every byte list) and idempotence C08_idem / C08_cmd_idem at full strength under the hypothesis class_ok "
              "on the letter/digit classification (blank, tab, CR, newline, ')' ',' '#' '*' '/' not alphanumeric, 'i' alphanumeric), "
              "which C08_class_ok_unicode proves of Go's unicode tables: C08_roundtrip_unicode and C08_idem_unicode carry no hypothesis; "
              "without class_ok the statement is refuted (C08_roundtrip_unrestricted_refuted); C08_unparseable, C08_cmd_total, C08_no_panic, "
              "C08_format_shape, C08_format_determined, C08_idem_of_roundtrip, C08_no_directives_unchanged for every classification.  The round trip is "
              "also evaluated on every generated case with the Go parser on the Go formatter's output.")
LEVEL_NOTE = ("Trusted: kernel, extraction, drivers, harness; that Model/SynPrinter.v is printer.go and Model/Parser.v is parser.go (byte / tree "
              "equality on every case of C08 / C07).  Proof: context lemmas of DESIGN Appendix B.3 in Proofs/RoundTrip*.v (inversion: every leaf of "
              "a parsed tree is in its lexical class; construction: every parser function in front of its printed class; parseFile's loop over gaps).")
