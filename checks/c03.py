"""C03 valued balances are mark-to-market at the latest known price"""
PID = "C03"
THEOREM_FILE = "Properties/C03.v"
NEEDS_KNUT = True

RULE = ("generated accepted journals with 2-5 commodities and price histories (sparse/dense, direct, inverse, chained via USD), "
        "positions through zero, liabilities, accruals; about 12% with a price declaration removed; valued `knut balance -v V --csv -a` "
        "with cumulative columns, random window start, --close on/off; every third case with one or two `-m level[:1][,regex]` rules "
        "(levels 1-3, level 0 behind a regex) and/or `--remap regex` over the journal's account names; half of the cases with index "
        "1 mod 3 restrict the report with `--commodity` (one or two of the journal's commodities), 30% of the cases with index 1 or 2 "
        "mod 3 with `--account regex` (alone or together with --commodity / -m / --remap); corpus/C03: a report with --commodity "
        "whose shown commodity is priced through commodities that are not shown.  Spec verdict: every row of the "
        "asset/liability section on which an asset/liability account of the journal lands (itself, or the row remap and the first "
        "matching mapping rule send it to) must lie, in every column, within the summed allowance (sum over the accounts that land on "
        "the row and pass --account, Spec.MarkToMarketMappedSpec.sources_of, of ValuationWhereSpec.step_bound_where) * 1e-8 of the "
        "summed expectation (sum of ValuationWhereSpec.mtm_expected_where = sum_c Q_T(a,c)*p_T(c) - sum_c Q_(W-1)*p_(W-1) over the "
        "held commodities c that pass --commodity, from the flat bookings and the dated price declarations of the WHOLE journal -- "
        "the filters select what the report adds up, not what is priced or valued): Spec.ValuationWhereSpec.mtm_row_where_mapped, "
        "which without filters is Spec.ValuationMappedSpec.mtm_row_mapped; an empty cell counts as 0, a row that is not printed as 0 "
        "in every column; a printed row on which no account that passes --account lands must be empty; an expectation that is "
        "undefined although a report was printed is a failure (C03_expected_defined); if some booking -- of a shown commodity or "
        "not -- needs a price that does not exist on its day the command must fail (no report), and it may fail only for a reason.  "
        "A report whose window is empty (--from after --to or after the journal) has no column to judge.  The model's CSV must be "
        "byte-identical.  "
        "Non-trivial: valued report produced with at least 2 price declarations of one commodity; distinct by input.  The evidence "
        "counts the rows evaluated (plain / aggregated or moved / on filtered reports), the rows not printed, and the rows left out.")
TRUSTED_BASE = [
    "Coq 8.16.1 kernel", "extraction + OCaml driver drv_c03.ml (finds the printed line of a row: the CSV shows last segments in tree "
    "order; full paths are rebuilt from the order and the set of possible rows, else rows are found by a unique last segment)",
    "harness journal.go/knutrun.go/c03.go", "Spec/ValuationSpec.v uses prices_insert/normalize (proved against declarations in C12)",
    "Model/*.v hand-written; byte-identical CSV on every run",
]
ASSUMPTIONS = ["when the full paths of the printed rows cannot be rebuilt unambiguously, rows whose last segment is not unique in the "
               "A/L section are skipped by the spec verdict (counted in the evidence: rows_skipped_ambiguous_name)",
               "the truncation allowance is an upper bound (per account that lands on the row and passes --account: bookings on the "
               "account in a shown commodity in the window + days x shown held commodities + 1); that the model's row stays within it "
               "is proved for every configuration (C03_model_meets_spec_where_mapped; without filters C03_model_meets_spec, "
               "C03_model_meets_spec_mapped)"]
TECHNIQUE = ("Coq: Abel-summation and truncation lemmas about an executable model of Valuate/ComputePrices; closed-form mark-to-market "
             "specification evaluated on the binary's CSV; byte-exact model/implementation correspondence")
LEVEL_TEXT = ("Proved (Coq, closed under the global context): (1) end to end over days, for the Valuate stage from its initial state over any "
              "list of days and for ComputePrices followed by Valuate, every asset/liability account a and commodity c <> V: "
              "|posted value(a,c) - quantity(a,c,T) * price(c,T)| <= n_steps * 1e-8 with n_steps the number of contributing Multiply calls "
              "(one per booking, one per revaluation), price = normalisation of the declarations up to the last day (carried forward on days "
              "without declarations); exact equality when no product has more than 8 decimals; a non-zero position has a price; the delta "
              "(window) form from any reachable state; per-step truncation error and oddness; booking-day valuation of every posting; shape "
              "of the revaluation transactions (income mirror, only open A/L positions, expenses/equity accounts never revalued); failure on "
              "a missing price. (2) On the report of Cli.balance_report for journals as loaded, every valuation commodity, window, interval, "
              "--last, with and without --close: the tree cell of an asset/liability account = sum of the values Valuate posted inside the "
              "window (C03_report_cells, valued analogue of C02_cells); C03_windowed_cell / C03_windowed / C03_windowed_expected: "
              "|cells cumulated up to a period end - (sum_c Q_T p_T - sum_c Q_(W-1) p_(W-1))| <= n_steps * 1e-8 with Q, p = "
              "Spec.ValuationSpec.qty_upto / price_on on the directives (stable sort of the declarations by date = order of the builder's "
              "days), exact for the valuation commodity itself, against Spec.ValuationSpec.mtm_expected for the whole row, n_steps a closed "
              "form of the input (bookings + journal days in the window per commodity); corollary C03_mark_to_market_report for windows that "
              "cover the position. (3) The verdict of this check holds of the model (C03_model_meets_spec): for every configuration with a "
              "valuation commodity and every journal on which balance_report succeeds, every asset/liability account shown as itself and "
              "every column, Spec.ValuationSpec.mtm_row exists with one entry per column and the model's row is within step_bound * 1e-8 of "
              "mtm_expected, hence within_bound (the boolean the driver evaluates; C03_within_bound_value: it is the inequality between the "
              "rational values) accepts every decimal carrying the row's value.  Behind it C03_windowed_tight with the count bookings of the "
              "cell in the window + dates of the journal in the window per commodity other than V: Valuate books no revaluation when no price "
              "moved (C03_no_revaluation_without_price_change), ComputePrices carries prices over days without declarations, and the days "
              "--close touches at the period starts carry nothing, so --close adds no step; C03_step_bound_suffices: that count over the held "
              "commodities <= step_bound. (4) Rows aggregated by --mapping / swapped by --remap (C03_windowed_mapped, no shows_account "
              "condition): a row b of asset/liability type shows the sum over the accounts of the journal that land on it (remap, then the "
              "first matching mapping rule; pass --account) of their mark-to-market changes, up to the sum of their step counts; the list "
              "of these accounts is executable (sources_of, C03_sources_of); remap and shorten keep an account valid and in its class "
              "(C03_lands_class), so CloseAccounts and the Income mirrors never reach such a row. (5) The expectation is defined "
              "(C03_expected_defined, C03_held_price_every_day): if the command succeeds then on every date T every commodity other than V "
              "of which an asset/liability account holds a non-zero quantity has a price from the declarations dated <= T (the run over "
              "the days dated <= T is a prefix of the successful run, a non-zero position is revalued every day and a non-zero booking "
              "valued on its day, both fail without a price), hence market_value, mtm_expected for every window start and date, and "
              "every entry of mtm_row are Some for every asset/liability account with a valid name -- no condition on mapping, filters or "
              "window; for the accounts the check visits (al_accounts) the parser's guarantee is the only side condition.  The corner "
              "the definition respects is exhibited (C03_held_commodity_has_price_refuted): a commodity booked only with quantity zero is "
              "held, never priced, the command succeeds; market_value skips zero quantities. (6) The verdict on aggregated rows holds of "
              "the model (C03_model_meets_spec_mapped): for every row b of asset/liability type, whatever --mapping and --remap do, "
              "Spec.ValuationMappedSpec.mtm_row_mapped exists, lists the accounts the row adds up, every entry carries an expectation, and "
              "the model's row (sum of the node's cells over any duplicate-free list of commodities that contains what the aggregated "
              "accounts hold) is within sum step_bound * 1e-8 of sum mtm_expected, so within_bound accepts it; behind it "
              "C03_windowed_mapped_held (each account charged for its own commodities) and C03_unbooked_cell (a cell without a booking of "
              "a non-zero quantity receives no value: the instance quantity = 0, error = 0 of the cell invariant). (7) Reports restricted "
              "by --account / --commodity (Spec.ValuationWhereSpec, no hypothesis on the filters): the filters are the Where predicate of "
              "the report's query and reach neither ComputePrices nor Valuate, so prices (price_on), quantities (qty_upto) and the "
              "missing-price condition are those of the whole journal and only the sum changes -- held_where = the held commodities c "
              "with cfg_where cfg a c; C03_windowed_mapped_where: a row b of asset/liability type, over any duplicate-free list of "
              "commodities that pass --commodity and contains what the aggregated accounts hold of those, shows the sum over the accounts "
              "that land on it and pass --account of the mark-to-market change of their shown commodities, up to the sum of their tight "
              "step counts; C03_model_meets_spec_where_mapped (the verdict this check evaluates on EVERY valued report): "
              "mtm_row_where_mapped exists, lists these accounts, every entry carries an expectation (from C03_held_price_every_day) and "
              "the model's row is within sum step_bound_where * 1e-8 of sum mtm_expected_where (C03_step_bound_where_suffices, "
              "C03_expected_where_sum), so within_bound accepts it; C03_model_meets_spec_where: the same for an account shown as itself "
              "(mtm_row_where, row over held_where); C03_filtered_out_row_zero: a row on which no account that passes --account lands is "
              "exactly zero; C03_where_unfiltered / C03_where_mapped_unfiltered: where every commodity of the account passes (in "
              "particular without filters) the new specification IS mtm_row / mtm_row_mapped.  C03_example_filtered_report: --commodity "
              "^A$ on an account holding A and D, A priced through D: the report shows 1.125, 2.25, 4.5 = mtm_row_where, while the "
              "unfiltered mtm_row (2.125, 3.25, 5.5) does not describe it.")
LEVEL_NOTE = ("Trusted: kernel, extraction, harness, hand-written model (sampled tie), and the driver's way of finding the printed line of "
              "a row (see TRUSTED_BASE). Side conditions of the report theorems: posting accounts syntactically valid (postings_syntactic, "
              "the parser's guarantee as in C02/C04/C05), the row is of asset/liability type with a valid name, non-empty window, "
              "column = a period end; the list of commodities the row is summed over passes --commodity and contains the shown "
              "commodities of the aggregated accounts (the commodity keys of the node: nothing else can be there, mapped_report_cells); "
              "the per-account theorems (C03_windowed, C03_model_meets_spec, C03_model_meets_spec_where) in addition: the account is "
              "shown as itself; the theorems of parts (2)-(6) in addition ask every commodity of the account to pass the filters, part "
              "(7) does not. Not proved "
              "(decided per run by the closed form on the binary's cells): the printed, collapsed row text (row_value is the sum of the "
              "tree's cells over the commodities).  Measured with the mutation `ComputePrices hands a day the prices of the day before`: "
              "199 of 400 cases fail the verdict, 21 of them first on an aggregated or moved row.  Filtered reports: with the unfiltered "
              "expectation (mtm_row_mapped) in the driver 36 of the 400 clean quick cases fail, with mtm_row_where_mapped none (seeds 1-5); "
              "against the seeded change C12e (ComputePrices/Valuate given the --commodity filter: price declarations between two "
              "commodities that are not shown are dropped) 1-11 generated cases per seed fail by exit class on filtered reports "
              "(seeds 1-13), and the corpus case fails by value: `value of Assets:Depot shown 1225, mark-to-market 1229.5`.")

def plan(tier, seed):
    if tier == "quick":
        return [("C03", seed, 400, [])]
    return [("C03", seed + k, 5000, []) for k in range(8)]


def search_plan(seed):
    return [("C03", seed + 100 + k, 1500, []) for k in range(3)]


SEP = " ##C03 "


def compare(c):
    """the driver appends its row counts to the model's CSV (after SEP); the CSV itself must be byte-identical"""
    return (c.model or "").split(SEP)[0] == c.observed


def _counts(c):
    parts = (c.model or "").split(SEP)
    if len(parts) < 2:
        return {}
    return {k: int(v) for k, v in (kv.split("=") for kv in parts[1].split())}


def nontrivial(c):
    if not c.observed.startswith("OK "):
        return False
    j = c.input.split(" | ")[1]
    return j.count("P ") >= 2


def distribution(cases):
    d = {"ok": 0, "err": 0, "from_set": 0, "close": 0, "intervals": {}, "with_mapping": 0, "with_remap": 0,
         "mapped_reports": 0,
         # rows of the A/L section the spec verdict evaluated / left out (see drv_c03.ml):
         "rows_checked_plain": 0, "rows_checked_aggregated_or_moved": 0, "cases_with_aggregated_rows_checked": 0,
         "rows_not_printed_checked_as_zero": 0, "rows_skipped_ambiguous_name": 0, "rows_without_source": 0,
         "rows_skipped_source_not_AL": 0, "expectations_undefined": 0, "reports_rows_located_by_path": 0,
         # reports restricted by --account / --commodity (Spec.ValuationWhereSpec):
         "with_commodity_filter": 0, "with_account_filter": 0, "filtered_reports": 0,
         "rows_checked_on_filtered_reports": 0, "rows_without_passing_account_checked_empty": 0}
    for c in cases:
        ok = c.observed.startswith("OK")
        d["ok" if ok else "err"] += 1
        cfg = dict(kv.split("=", 1) for kv in c.input.split(" | ")[0].split())
        d["from_set"] += cfg["from"] != "-"
        d["close"] += cfg["close"] == "1"
        d["intervals"][cfg["iv"]] = d["intervals"].get(cfg["iv"], 0) + 1
        d["with_mapping"] += cfg["map"] != "-"
        d["with_remap"] += cfg["remap"] != "-"
        d["mapped_reports"] += ok and (cfg["map"] != "-" or cfg["remap"] != "-")
        d["with_commodity_filter"] += cfg["com"] != "-"
        d["with_account_filter"] += cfg["acc"] != "-"
        d["filtered_reports"] += ok and (cfg["com"] != "-" or cfg["acc"] != "-")
        k = _counts(c)
        d["rows_checked_plain"] += k.get("plain", 0)
        d["rows_checked_aggregated_or_moved"] += k.get("mapped", 0)
        d["cases_with_aggregated_rows_checked"] += k.get("mapped", 0) > 0
        d["rows_not_printed_checked_as_zero"] += k.get("absent", 0)
        d["rows_skipped_ambiguous_name"] += k.get("ambiguous", 0)
        d["rows_without_source"] += k.get("nosrc", 0)
        d["rows_skipped_source_not_AL"] += k.get("nonal", 0)
        d["expectations_undefined"] += k.get("undefined", 0)
        d["reports_rows_located_by_path"] += k.get("bypath", 0)
        d["rows_checked_on_filtered_reports"] += k.get("filtered", 0)
        d["rows_without_passing_account_checked_empty"] += k.get("zero", 0)
    return d
