"""C18 in-place rewrites are all-or-nothing (knut format, knut infer --inplace; natefinch/atomic.WriteFile)"""
PID = "C18"
THEOREM_FILE = "Properties/C18.v"
NEEDS_KNUT = True

RULE = ("groups of 1-4 generated journal files in random unformatted layouts (comments, blank runs, several directive "
        "kinds), about a quarter of the files in multi-file groups made unparseable at a random line.  Per group: one "
        "`strace -f` run of `knut format <files>` whose system calls on the target directory are mapped to the operation "
        "alphabet of Model/AtomicFS.v and fed, per target, to the extracted safe_trace; then `knut format` under "
        "RLIMIT_FSIZE = k for k in {0, 1, random offsets up to beyond the formatted size} (quick: 12 per group; thorough: "
        "every byte offset 0..len+120 of 200 single files; GOMAXPROCS default, 1 and 2 in turn), three runs per multi-file "
        "group (GOMAXPROCS 1, 2, 16) with one more file whose 255-byte name makes its temporary file impossible to create "
        "(a failure of ONE of several files: the others must end new), and a run as an unprivileged user in a directory "
        "without write permission for every 8th group.  Then `knut infer --inplace -a <placeholder> -t training target` on "
        "generated (training file, target file with placeholder accounts) pairs as the C15 generator makes them (a few "
        "unparseable or empty, every fourth target its own training file, every third target reached through a symbolic "
        "link): the expected new contents are the stdout of the same command without --inplace, run beforehand on the same "
        "files; one strace run and RLIMIT_FSIZE runs at 0, 1 and random offsets per pair (thorough: every byte offset of 25 short "
        "targets); the training file must stay as it is and no operation may touch it.  After every run each file is "
        "classified old | new | other against the "
        "input bytes and the expected new bytes (format: computed in-process with syntax.ParseFile + syntax.FormatFile), "
        "left-over directory entries are counted.  Non-trivial: a fault run whose limit is at least 1 byte and below the "
        "new size of some file (the write is cut short after >= 1 byte), or a strace run; distinct by input.")

TRUSTED_BASE = [
    "Coq 8.16.1 kernel",
    "extraction (ExtrOcamlBasic only) + OCaml 4.13.1 + drv_c18.ml (op parsing, byte conversion)",
    "harness c18.go: strace output parsing and the syscall -> operation mapping (DESIGN.md Appendix C.2), fd tracking",
    "strace(1), RLIMIT_FSIZE semantics of the kernel (EFBIG after exactly k bytes)",
    "atomicity of rename(2) on the file system in use (assumed, not tested)",
]
ASSUMPTIONS = ["rename(2) replaces the target atomically",
               "a failing write(2) appends a prefix of its buffer (short write) and nothing else",
               "temporary files are recognised by name (target name + random suffix, as ioutil.TempFile creates them)"]


def plan(tier, seed):
    if tier == "quick":
        return [("C18", seed, 40, ["12"])]
    return [("C18", seed, 400, ["16"]), ("C18sweep", seed, 200, [])]


def search_plan(seed):
    return [("C18", seed + 1000 + k, 60, ["12"]) for k in range(3)]


def compare(c):
    """model and observation are compared on exit class, left-over count and final class per file;
    the details after ' ## ' (expected bytes, operation list) are input to the spec verdict only"""
    return (c.observed or "").split(" ## ")[0] == (c.model or "")


def nontrivial(c):
    if c.op == "C18.trace":
        return True
    try:
        head, det = c.observed.split(" ## ")
        limit = int(c.input.split(";")[1].split("=")[1])
        sizes = [(int(d.split("^")[2][1:]) if d.split("^")[2].startswith("#") else len(d.split("^")[2]) // 2)
                 for d in det.split("|") if d.split("^")[1] == "1"]
        return c.input.startswith("mode=rodir") or c.input.startswith("mode=longname") or c.input.startswith("mode=retry") or any(1 <= limit < s for s in sizes)
    except Exception:
        return False


def _unesc(t):
    """inverse of the harness's vesc, to bytes"""
    out, i = [], 0
    m = {"n": "\n", "t": "\t", "r": "\r", "p": "|", "s": ";"}
    while i < len(t):
        if t[i] == "\\" and i + 1 < len(t):
            out.append(m.get(t[i + 1], t[i + 1]))
            i += 2
        else:
            out.append(t[i])
            i += 1
    return "".join(out).encode("utf-8", "surrogateescape")


def distribution(cases):
    d = {"strace_runs": 0, "rlimit_runs": 0, "rodir_runs": 0, "longname_runs": 0, "retry_runs": 0, "gomaxprocs": {}, "files": 0, "unparseable_files": 0,
         "final_old": 0, "final_new": 0, "final_other": 0, "exit": {}, "cut_after_ge1_byte": 0,
         "infer_inplace": {"strace_runs": 0, "rlimit_runs": 0, "target_is_training_file": 0, "through_symlink": 0,
                           "command_fails_without_inplace": 0, "target_new": 0, "target_old": 0, "target_other": 0,
                           "new_differs_from_old": 0, "cut_after_ge1_byte": 0, "exit": {}}}
    for c in cases:
        mode = c.input.split(";")[0].split("=")[1]
        if ";cmd=infer;" in c.input.split(";files=")[0] + ";":
            di = d["infer_inplace"]
            di["strace_runs" if mode == "strace" else "rlimit_runs"] += 1
            fl = c.input.split(";files=")[1].split("|")
            di["target_is_training_file"] += len(fl) == 2
            di["through_symlink"] += ";link=1;" in c.input.split(";files=")[0] + ";"
            hd, _, det = (c.observed or "").partition(" ## ")
            okv = dict(f.split("=", 1) for f in hd.split(" ") if "=" in f)
            di["exit"][okv.get("exit", "?")] = di["exit"].get(okv.get("exit", "?"), 0) + 1
            tcls = okv.get("finals", "").split(",")[-1].split(":")[-1]
            di["target_" + (tcls if tcls in ("old", "new") else "other")] += 1
            tdet = det.split("|")[-1].split("^")
            if len(tdet) >= 3:
                di["command_fails_without_inplace"] += tdet[1] != "1"
                di["new_differs_from_old"] += tdet[1] == "1" and bytes.fromhex(tdet[2]) != _unesc(fl[-1])
            di["cut_after_ge1_byte"] += c.op == "C18.fault" and nontrivial(c)
        d[{"strace": "strace_runs", "rlimit": "rlimit_runs", "rodir": "rodir_runs", "longname": "longname_runs", "retry": "retry_runs"}.get(mode, "rlimit_runs")] += 1
        pr = ([f.split("=")[1] for f in c.input.split(";files=")[0].split(";") if f.startswith("procs=")] or ["default"])[0]
        d["gomaxprocs"][pr] = d["gomaxprocs"].get(pr, 0) + 1
        head = (c.observed or "").split(" ## ")[0]
        kv = dict(f.split("=", 1) for f in head.split(" ") if "=" in f)
        d["exit"][kv.get("exit", "?")] = d["exit"].get(kv.get("exit", "?"), 0) + 1
        for f in kv.get("finals", "").split(","):
            if ":" in f:
                cl = f.split(":")[1]
                d["final_" + (cl if cl in ("old", "new") else "other")] += 1
                d["files"] += 1
        if " ## " in (c.observed or ""):
            d["unparseable_files"] += sum(1 for x in c.observed.split(" ## ")[1].split("|") if x.split("^")[1:2] == ["0"])
        if c.op == "C18.fault" and nontrivial(c):
            d["cut_after_ge1_byte"] += 1
    return d


TECHNIQUE = ("Coq proof about an executable model of the directory and of the write-temp-then-rename protocol (all traces "
             "under a failure at any operation and any short write, all interleavings of several files' traces), with the "
             "extracted trace predicate run on strace traces of the real binary (format and infer --inplace) and fault "
             "injection through RLIMIT_FSIZE at byte offsets and an unwritable directory")
LEVEL_TEXT = ("Theorems C18_safe (a trace accepted by safe_trace keeps the target in {old,new} after every prefix), C18_protocol "
              "(every trace of atomic.WriteFile's protocol, for a failure at any operation, any number of bytes written and any "
              "splitting into short writes, is accepted, installs new iff the rename happened iff no fault, and leaves no temp "
              "file), C18_parse_error_no_ops, C18_files_independent (frame property per operation and per protocol run) and "
              "C18_interleaving (the concurrent command: for every list of jobs with pairwise distinct targets and temporaries, "
              "every interleaving of their protocol traces - any fault per file, unparseable files included - and every prefix "
              "length, every target holds its old or its complete new contents; after the whole schedule it holds new iff the "
              "file parsed and nothing failed, old otherwise, and no temporary file exists; C18_interleaving_any_dir: the same in "
              "a directory with other files, which are never touched - the training file of `infer --inplace`) are "
              "proved in Coq, closed under the global context.  The tie to the binary: safe_trace (extracted) accepts the mapped "
              "strace trace of every run of `knut format` and of `knut infer --inplace`, and under injected faults every file "
              "ends bit-identical to old or to the expected new.")
LEVEL_NOTE = ("Partial: atomicity of rename(2) and the syscall-to-operation mapping are assumptions; that the goroutines' system "
              "calls reach the directory in SOME total order (an interleaving) is the model of concurrency assumed by "
              "C18_interleaving; `fetch` uses the same atomic.WriteFile call but is not exercised by this check (it needs the "
              "network).  Trusted: Coq kernel, extraction, drv_c18.ml, harness c18.go, strace, the kernel's "
              "RLIMIT_FSIZE behaviour.")
