"""C20 portfolio analytics agree with the valued balance (`knut portfolio weights`, `knut portfolio returns`)"""
import re

PID = "C20"
THEOREM_FILE = "Properties/C20.v"
NEEDS_KNUT = True

RULE = ("generated portfolio journals (2-5 commodities held in 2-4 asset/liability accounts, prices in a hub currency and "
        "chained, valuation in the hub or a second currency; external deposits/withdrawals against Equity/Income/Expenses, "
        "trades through Equity:Trading, transfers inside the portfolio, dividends and fees with @performance() of 0, 1 or 2 "
        "targets, liabilities; transactions cluster on few days so that most period ends carry no directive) x window "
        "(--from present or not, --to before or after the last directive, 6 intervals, --last) x account and commodity "
        "filters x universe files (classes of depth 1-3, unclassified commodities) x -m level[:suffix][,^prefix] x sort "
        "order.  Per journal: C20.weights (`portfolio weights --csv` + the same as a text table), C20.returns "
        "(`portfolio returns`), C20.cross (weights, `balance -v V --csv -a -s .` and returns on the same dates, window "
        "from the journal's start).  Model = exact rationals; compared within 1e-6 (weights) / 0.1 pp (returns).  Spec "
        "verdict on the binary's output: top level = 100% +- 1e-6, group = sum of members (without -m; with -m "
        "mapping_law_b: every row = its member rows + the commodities map_path folds into the row itself, read off the leaf "
        "rows of the table of the same command without -m), one row per commodity, columns "
        "are period ends, one return line per period of the extracted new_partition, weight x total = balance cell, "
        "0% for periods with unchanged prices and only external flows, V1/V0-1 for periods without transactions.  "
        "Non-trivial: >= 2 commodities in the report or >= 2 periods; distinct by input.")
TRUSTED_BASE = [
    "Coq 8.16.1 kernel, vm_compute (the *_refuted witnesses)",
    "extraction (ExtrOcamlBasic only), OCaml 4.13.1, drv_journal.ml/drv_c20.ml (decoding of the case line; parsers of the CSV, "
    "of the text table incl. indentation = depth, of the `returns` lines and of decimal literals; pairing of cells by date and label)",
    "harness c20.go/journal.go/knutrun.go (generator, journal text and universe YAML rendering, subprocess runner)",
    "FLOAT ROUNDING IS NOT MODELLED: the Go code computes values, flows, weights and returns in float64; Model/Perf.v and "
    "Model/Weights.v compute the same expressions over exact rationals; the tie is within tolerances (weights 1e-6 absolute, "
    "returns 0.1 percentage points); zero denominators (Go: Inf/NaN) are counted and skipped, not compared",
    "Model/*.v is a hand-written model, tied to the code only by this correspondence; yaml.v2, cobra flag parsing, fmt %f/%v are not modelled",
    "checks/c20.py compare(): numeric comparison of the two renderings",
]
ASSUMPTIONS = ["regular expressions on the command line are restricted to ^literal$ forms in generated cases",
               "--to is always passed explicitly (its default is today's date)",
               "Commodity.IsCurrency is false for every commodity (no command calls TagCurrency); the model keeps it as a parameter",
               "generated -m rules have level >= 1 (no commodity is hidden altogether); a rule may fold only part of a group "
               "(regex = a class prefix longer than the level), so that a row can be a collapsed leaf and a group at once",
               "no class of a generated universe is named like the path of a classified commodity (class A with commodity B "
               "and class A:B): mapping_law_b presupposes that in the table without -m every commodity is a leaf row "
               "(Spec/PortfolioMapSpec.prefix_free; Properties/C20.v C20_w4_needs_prefix_free shows the statement is false "
               "of correct tables otherwise)"]
TECHNIQUE = ("Coq proof over an executable Gallina model of ComputeValues/ComputeFlows/Performance/Perf/weights.Query/Report "
             "with rationals for float64 + correspondence within tolerances on generated journals + the property's executable "
             "statement evaluated on the binary's output, cross-checked against `knut balance -v`")
LEVEL_TEXT = ("C20_weights_match_balance (full: for days with ascending dates -- C20_command_days_ascending: those of the commands -- "
              "the V1 entry of commodity c on day d == Spec portfolio_value == portfolio_value_by_account, the sum over the A/L "
              "accounts passing the filter of their valued positions, for every account list that covers the bookings; window from the "
              "journal's first day), C20_weight_def, C20_group_sum, C20_top_100, C20_every_period (repaired wiring; "
              "C20_every_period_refuted for the pinned returns.go), C20_external_flows_zero (full, repaired flow filter: for every run of "
              "`portfolio returns`, every stretch of Performance records whose valued days carry only untargeted transactions -- no "
              "@performance, no value adjustment -- satisfies V1 = V0 + inflow + outflow day by day and reports 0 or an undefined number, C20_external_flows_zero_line: that number is the line printed for the period end, C20_external_flows_zero_source: the hypothesis read off the journal's days before the stages -- no price directive and no @performance annotation on the days of the period, C20_quiet_days_valued: such days get no value adjustment; "
              "_refuted for the pinned flow filter), C20_no_flow_ratio: Coq theorems over Q for every journal and configuration, closed "
              "under the global context; Examples C20_w5_deposit_period / C20_w5_weights_values (hypotheses hold of a journal with a "
              "deposit-only February and unchanged prices).  "
              "Mapping (-m): C20_mapped_entries (the query with -m books the entries of the query without -m on the paths map_path "
              "gives), C20_mapping_law (weight of the node at p of the mapped report = sum of the unmapped entries sent to p or below), "
              "C20_mapping_law_local (= entries folded into p itself + children), C20_mapping_law_table (the executable statement "
              "Spec/PortfolioSpec.mapping_law_b, which this check evaluates on the binary's two text tables, holds with tolerance 0 "
              "of the model's two tables, for every universe, mapping, sort order and journal -- zero totals included -- with "
              "prefix-free unmapped paths and no commodity hidden by a level-0 rule); Example C20_w3_partial_fold (`-m 1,^Equity:US`: "
              "the row Equity is leaf and group at once).")
LEVEL_NOTE = ("partial: float rounding is outside the theorems (rationals in the model); the model-to-code tie is sampled within "
              "tolerances. No theorem of Properties/C20.v is a _partial statement any more. C20_weights_match_balance: the by-account "
              "form assumes that the filter cannot tell apart equally named accounts (names_respected; proved for the command's "
              "filters on syntactically valid accounts, C20_names_respected). C20_external_flows_zero: the hypothesis is on the VALUED days (no transaction with targets, which includes Valuate's value adjustments); C20_external_flows_zero_source derives it from the builder's days (no price declared on the day, no annotated transaction); the step from the directive list to the builder's days (Spec no_price_in / only_external_in on the source text, as used in C20_external_flows_zero_refuted) is not proved. C20_mapping_law / _local (sum over a whole subtree) assume defined weights (no zero total), as "
              "C20_group_sum does; C20_mapping_law_table does not. mapping_law_b presupposes prefix-free paths in the table without "
              "-m (C20_w4_needs_prefix_free: false of correct tables otherwise). Trusted: kernel, extraction, harness, the parsers "
              "named in the trusted base.")

TOL_W = 1e-6 + 1e-9
TOL_R = 0.1 + 1e-9
SEP = " ## "
skipped = {"nonfinite_cells": 0, "nonfinite_returns": 0}


def plan(tier, seed):
    if tier == "quick":
        return [("C20", seed, 300, [])]
    return [("C20", seed + k, 2500, []) for k in range(8)]


def search_plan(seed):
    return [("C20", seed + 100 + k, 1000, []) for k in range(3)]


def _ok(s):
    """'OK <escaped>' -> text or None"""
    if s == "OK":
        return ""
    if not s.startswith("OK "):
        return None
    return s[3:].replace("\\n", "\n").replace("\\t", "\t").replace("\\\\", "\\")


def _num(s):
    s = s.strip()
    if s == "":
        return 0.0
    try:
        v = float(s)
    except ValueError:
        return None
    if v != v or v in (float("inf"), float("-inf")):
        return None
    return v


def _csv_rows(t):
    return [l.split(",") for l in t.split("\n") if l]


def cmp_weights(obs, model, ordered):
    """the two CSV renderings: same header, same rows (in order when sorted alphabetically), cells within TOL_W;
    blank = 0; a cell the model marks NaN (zero total) is skipped"""
    o, m = _ok(obs), _ok(model)
    if o is None or m is None:
        return obs.split(" ")[0] == model.split(" ")[0]      # both failed in the same class
    ro, rm = _csv_rows(o), _csv_rows(m)
    if not ro or not rm or ro[0] != rm[0] or len(ro) != len(rm):
        return False
    bo, bm = ro[1:], rm[1:]
    if not ordered:
        key = lambda r: (r[0], [(_num(x) if _num(x) is not None else 0.0) for x in r[1:]])
        bo, bm = sorted(bo, key=key), sorted(bm, key=key)
    for a, b in zip(bo, bm):
        if a[0] != b[0] or len(a) != len(b):
            return False
        for x, y in zip(a[1:], b[1:]):
            if y == "NaN":
                skipped["nonfinite_cells"] += 1
                continue
            vx, vy = _num(x), _num(y)
            # a weight far above 1 is a ratio with a total near zero (positions of opposite sign): float64 cancellation in
            # the total is magnified by the same factor, so the tolerance is relative there (found by a thorough run:
            # total 8e-8, weights +-606487.375, binary and model 4e-6 apart)
            if vx is None or vy is None or abs(vx - vy) > TOL_W * max(1.0, abs(vy)):
                return False
    return True


_line = re.compile(r"^(\d{4}-\d{2}-\d{2}) 00:00:00 \+0000 UTC: (\S+)%$")


def _returns(t):
    out = []
    for l in t.split("\n"):
        if not l:
            continue
        m = _line.match(l)
        if not m:
            return None
        out.append((m.group(1), m.group(2)))
    return out


def cmp_returns(obs, model):
    o, m = _ok(obs), _ok(model)
    if o is None or m is None:
        return obs.split(" ")[0] == model.split(" ")[0]
    ro, rm = _returns(o), _returns(m)
    if ro is None or rm is None or [d for d, _ in ro] != [d for d, _ in rm]:
        return False
    for (_, x), (_, y) in zip(ro, rm):
        if y == "NaN":
            skipped["nonfinite_returns"] += 1
            continue
        vx, vy = _num(x), _num(y)
        if vx is None or vy is None or abs(vx - vy) > TOL_R:
            return False
    return True


def compare(c):
    cfg = dict(kv.split("=", 1) for kv in c.input.split(" | ")[0].split())
    if c.op == "C20.weights":
        return cmp_weights(c.observed.split(SEP)[0], c.model, cfg.get("alpha") == "1")
    if c.op == "C20.returns":
        return cmp_returns(c.observed, c.model)
    if c.op == "C20.cross":
        po, pm = c.observed.split(SEP), (c.model or "").split(SEP)
        if len(po) != 3 or len(pm) != 3:
            return False
        return cmp_weights(po[0], pm[0], True) and cmp_returns(po[2], pm[2])
    return c.model == c.observed


def nontrivial(c):
    if not c.observed.startswith("OK "):
        return False
    first = c.observed.split(SEP)[0]
    return first.count("\\n") >= 3 or (c.op == "C20.returns" and first.count("\\n") >= 2)


def distribution(cases):
    d = {"ops": {}, "intervals": {}, "universe": 0, "mapped": 0, "acc_filter": 0, "com_filter": 0, "from": 0, "last": 0,
         "wfrom": 0, "perf_annotations": 0, "to_before_last_directive_or_period_end_without_directive": 0,
         "skipped_nonfinite_cells": skipped["nonfinite_cells"], "skipped_nonfinite_returns": skipped["nonfinite_returns"],
         "return_lines_observed": 0, "return_lines_model": 0}
    for c in cases:
        d["ops"][c.op] = d["ops"].get(c.op, 0) + 1
        cfg = dict(kv.split("=", 1) for kv in c.input.split(" | ")[0].split())
        d["intervals"][cfg["iv"]] = d["intervals"].get(cfg["iv"], 0) + 1
        d["universe"] += cfg["uni"] != "-"
        d["mapped"] += cfg["map"] != "-"
        d["acc_filter"] += cfg["acc"] != "-"
        d["com_filter"] += cfg["com"] != "-"
        d["from"] += cfg["from"] != "-"
        d["last"] += cfg["last"] != "0"
        d["wfrom"] += cfg["wfrom"] != "-"
        d["perf_annotations"] += "perf=" in c.input
        if c.op == "C20.returns":
            no, nm = c.observed.count("UTC"), (c.model or "").count("UTC")
            d["return_lines_observed"] += no
            d["return_lines_model"] += nm
            d["to_before_last_directive_or_period_end_without_directive"] += no != nm
    return d
