"""C16 transcode emits a balanced, self-consistent beancount ledger"""
PID = "C16"
THEOREM_FILE = "Properties/C16.v"
NEEDS_KNUT = True

RULE = ("generated accepted journals (5 account types, 2-4 commodities with direct/inverse/chained prices and several price "
        "changes, accruals, assertions, open/close) plus the variations that matter for the emitted ledger: the user's journal "
        "opens (early / late / opens and closes) the Income:... account that Valuate posts to; accounts below Equity:Valuation:; "
        "an account closed and opened again; V itself held; V with digits or multi-byte letters; V without prices; no -v; "
        "descriptions that span several lines (continuation lines that imitate a blank line, a posting, a directive). "
        "`knut transcode -v V FILE` on each; the model's text must be byte-identical, and the executable statement "
        "(Spec.BeancountSpec.c16_verdict: reader of the text, every transaction sums to exactly zero in one commodity, dates "
        "never go back, every posted account has an open directive in force and no earlier close, the transactions are the "
        "journal's transactions plus at most one value adjustment per day/account/commodity; Spec.BeancountMtmSpec.mtm_check: "
        "the postings on every asset/liability account add up to the account's market value on the journal's last day within "
        "one 10^-8 per booking and per (day, held commodity)) is evaluated on the BINARY's "
        "stdout.  Non-trivial: exit 0 and at least one 'Adjust value of' transaction in the output; distinct by input.")
TRUSTED_BASE = [
    "Coq 8.16.1 kernel",
    "extraction (ExtrOcamlBasic only), OCaml 4.13.1, drv_journal.ml/drv_c16.ml (decoding of the case line, unescaping of stdout)",
    "harness journal.go/knutrun.go/c16.go (generator, rendering of the structured journal as knut text, subprocess runner)",
    "Model/*.v is a hand-written model of knut's transcode pipeline, tied to the code only by this byte-exact correspondence",
    "knut's parser is not in the loop of the theorems: the model starts from structured directives (the parser is C07's)",
    "sort.Slice is modelled as a stable insertion sort (transaction.Compare ties print identically)",
]
ASSUMPTIONS = ["commodity names are valid UTF-8 (guaranteed by the commodity registry: letters and digits)",
               "map iteration order in Valuate does not matter: Transcode sorts each day's transactions again"]
TECHNIQUE = ("Coq proof about an executable Gallina model of `knut transcode` (posting-pair invariant through Sort, ComputePrices, "
             "Check, Valuate; sorted days from the builder; permutation/simulation of transactions through the stages; the "
             "checker's open-set invariant; for the account totals: C03's Abel-summation theorem for ComputePrices+Valuate over the "
             "sorted days, the builder's days carry the journal's quantities and prices, sum over the held commodities, count of the "
             "Multiply calls) + byte-exact model/implementation correspondence + executable spec on the binary's output")
LEVEL_TEXT = ("C16_balanced, C16_chronological, C16_complete, C16_open_before_use, C16_account_totals_mark_to_market and "
              "C16_ledger_mark_to_market (Coq, closed under the global context) for every "
              "journal and valuation commodity on which the model of `knut transcode -v V` succeeds: no value adjustment is lost "
              "or doubled -- the values posted to every asset/liability account add up to Sum_c quantity(a,c) * price(c) on the "
              "journal's last day within ValuationSpec.step_bound (over the journal's first..last date) * 10^-8, and the clause mtm_check of the executable verdict "
              "finds nothing on the model's ledger; per commodity C16_position_mark_to_market, "
              "C16_valuation_commodity_at_quantity, C16_unbooked_commodity_not_posted; C16_adjusted_account_open: every posting on "
              "an asset/liability account, value adjustments included, has an open directive in force and no earlier close; "
              "C16_valuation_open_refuted: the clause 'every posted account has an open directive' is FALSE for the accounts "
              "Valuate posts value adjustments to (Income:...; Transcode tests the stale prefix Equity:Valuation:) -- known "
              "finding F16, pinned by testdata/transcode/example.golden. "
              "Reader/writer round trip: C16_text_roundtrip -- for every valuation commodity and every list of items that satisfy the "
              "lexical side conditions (Spec/BeancountLex.v commodity_lex_b, entries_lex_b: years 0000..9999, account names non-empty "
              "without space/newline/double quote, descriptions without double quote, newlines allowed) the reader applied to the "
              "writer's text returns V as written and the erased items with every amount as it is after Decimal.String "
              "(DecNormalForm.reread; with the amounts themselves the statement is false: C16_text_roundtrip_exact_refuted); "
              "C16_emitted_items_lexical: the items of `knut transcode` satisfy the conditions whenever the journal's directives do "
              "(journal_lex_b); C16_model_text_roundtrip / C16_roundtrip_check: roundtrip_b is a theorem; C16_verdict_on_model_text: "
              "the verdict on the model's own text equals verdict_of (beancount_check ++ complete_check ++ mtm_check) on the erased "
              "items, the objects of the theorems above. "
              "C16_model_verdict (full strength, hypothesis on the INPUT): for every journal of syntax-level directives that "
              "satisfies C09's input_lex (what knut's parser guarantees: years 0000..9999, account segments and commodities non-empty "
              "runs of letters and digits, descriptions valid UTF-8 without double quote), every V with commodity_lex_b and both "
              "settings of the checker, if the model of the pipeline succeeds then c16_verdict_mtm on the model's text is `ok` or "
              "the rendering of a violation with v_known_shape = true and kind unopened-valuation-account / "
              "closed-valuation-account (F16/F16b); C16_model_verdict_cmd the same for transcode_cmd with V a run of letters and "
              "digits; C16_model_verdict_parsed / C16_model_violations with byte-level conditions on the parsed journal instead "
              "(journal_lex_b, Spec/BeancountAdjLex.v journal_adj_lex_b: posting accounts syntactic, commodities without space). "
              "Pieces: C16_violations_from_adjustments (mtm_check finds nothing; every violation of beancount_check comes from a "
              "posting of a value adjustment on a non-A/L account), C16_posting_violations_known_shape (check_posting classifies "
              "each as the known shape: adjusted_account reads the description back, the adjusted account is open), "
              "C16_valuate_adjustments (Valuate's position map has pairwise different keys pos_key a c; per day the adjustments "
              "have pairwise different descriptions), C16_complete_check_finds_nothing (no lost-transaction, spurious-transaction, "
              "duplicated-adjustment), C16_input_lexical (input_lex gives both side conditions on the parsed directives). "
              "C16_space_in_commodity_example: with a space in a commodity (impossible for the parser) the verdict on the model's "
              "own text is a plain `unopened`, so the second side condition is needed. C16_linewise_reader_refuted: the former line-wise reader rejected the correct ledger of a journal "
              "whose description contains a newline (knut accepts it); read_ledger now splits lines outside double-quoted strings only.")
LEVEL_NOTE = ("Trusted: kernel, extraction, harness; the model-to-code tie is sampled (quick ~300 journals). The theorems are about the "
              "emitted items; that the text reads back to those items is proved (C16_text_roundtrip, C16_model_text_roundtrip) under "
              "lexical side conditions on the journal (journal_lex_b, weaker than what knut's parser guarantees; stronger than "
              "postings_syntactic, which allows a space inside an account segment: C16_space_in_account_example) and on V "
              "(commodity_lex_b); the driver evaluates the side conditions on every case and falls back to the executable test "
              "roundtrip_b only outside them (no generated case is). Amounts are read back up to Decimal.String (reread: same value); "
              "no clause of the verdict can tell (Proofs/BeancountVerdict.v). That the verdict on the model's text is `ok` or "
              "F16/F16b's known shape is proved for every journal the parser can produce (C16_model_verdict; the hypothesis "
              "input_lex is C09's, on the syntax-level directives, satisfiable: C16_witness_input_lex); the binary's output is "
              "byte-identical to that text on every sampled case, and the verdict is evaluated on the binary's output. The model "
              "starts from structured directives, so that the parser yields input_lex journals is C07/C09's matter. Two repairs of the executable verdict came out of the "
              "proof: multi-line descriptions (split_lines; the generator now writes them) and the order clause for ledgers of the "
              "year 0000 (bst_init, C16_order_year0_example). "
              "Side condition of the mark-to-market theorems: account names as the parser guarantees them (postings_syntactic). "
              "The truncation steps are counted inside [first directive date, last directive date] (year-0000 dates are negative "
              "day numbers: C16_mtm_year0_example). "
              "That the A/L account of a value adjustment is still open is proved (C16_adjusted_account_open: coupling of Check's "
              "and Valuate's quantities); for its Income:... account the clause is false (F16).")


def plan(tier, seed):
    if tier == "quick":
        return [("C16", seed, 300, [])]
    return [("C16", seed + k, 2500, []) for k in range(8)]


def search_plan(seed):
    return [("C16", seed + 100 + k, 1500, []) for k in range(3)]


def compare(c):
    if c.model == c.observed:
        return True
    # without -v both sides panic (nil commodity); the panic text is Go's
    return c.model.startswith("PANIC") and (c.observed or "").startswith("PANIC")


def nontrivial(c):
    return c.observed.startswith("OK ") and "Adjust value of" in c.observed


def distribution(cases):
    d = {"ok": 0, "err": 0, "panic": 0, "with_adjustments": 0, "no_val": 0, "val": {}, "user_opens_valuation_account": 0,
         "equity_valuation_account": 0, "reopened": 0, "duplicate_open_lines": 0, "nonascii_or_digit_V": 0, "accrual": 0,
         "multiline_description": 0}
    for c in cases:
        o = c.observed or ""
        d["ok" if o.startswith("OK") else ("panic" if o.startswith("PANIC") else "err")] += 1
        d["with_adjustments"] += "Adjust value of" in o
        v = c.input.split(" | ")[0].replace("val=", "").strip()
        d["no_val"] += v == "-"
        d["val"][v] = d["val"].get(v, 0) + 1
        d["nonascii_or_digit_V"] += not v.isascii() or any(ch.isdigit() for ch in v)
        opened = set(p.split()[2] for p in c.input.split(" | ", 1)[-1].split(" ; ") if p.startswith("O ") and len(p.split()) > 2)
        d["user_opens_valuation_account"] += any(
            a.startswith(("Assets:", "Liabilities:")) and ("Income:" + a.split(":", 1)[1]) in opened for a in opened)
        d["equity_valuation_account"] += "Equity:Valuation:" in c.input
        d["reopened"] += "Assets:Reopened" in c.input
        d["accrual"] += "accrue=" in c.input
        d["multiline_description"] += any(
            p.startswith("T ") and len(p.split()) > 2 and "0a" in [p.split()[2][k:k + 2] for k in range(0, len(p.split()[2]), 2)]
            for p in c.input.split(" | ", 1)[-1].split(" ; "))
        if o.startswith("OK "):
            opens = [l for l in o.split("\\n") if " open " in l]
            d["duplicate_open_lines"] += len(opens) != len(set(opens))
    return d
