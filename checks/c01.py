"""C01 double-entry conservation: the Delta row of every complete balance report is zero"""
PID = "C01"
THEOREM_FILE = "Properties/C01.v"
NEEDS_KNUT = True

RULE = ("generated accepted journals (5 account types, 1-4 commodities with direct/inverse/chained prices, negative/zero/"
        "many-decimal amounts, accruals, performance annotations, assertions, open/close) x 3 complete flag sets each "
        "(window, 6 intervals, --last, --diff, --close on/off, valuation CHF/USD or none, remap, level>=1 mappings); "
        "`knut balance --csv -a` on each; the model's CSV must be byte-identical and the Delta rows of the binary's CSV "
        "must be zero (Spec.BalanceSpec.delta_zero_b).  Non-trivial: the report was produced (exit 0) and has at "
        "least one amount row; distinct by input.")
TRUSTED_BASE = [
    "Coq 8.16.1 kernel",
    "extraction (ExtrOcamlBasic only), OCaml 4.13.1, drv_journal.ml/drv_c01.ml (decoding of the case line, CSV splitting)",
    "harness journal.go/knutrun.go (generator, rendering of the structured journal as knut text, subprocess runner)",
    "Model/*.v is a hand-written model of knut's balance pipeline, tied to the code only by this correspondence",
    "knut's parser is not in the loop of the theorem: the model starts from structured directives (the parser is C07's)",
]
ASSUMPTIONS = ["regular expressions on the command line are restricted to ^literal$ forms in generated cases",
               "--to is always passed explicitly (its default is today's date)"]
TECHNIQUE = ("Coq proof: posting-pair invariant carried through every pipeline stage of an executable Gallina model of "
             "`knut balance`, report sums over rationals; + byte-exact model/implementation correspondence on generated journals")
LEVEL_TEXT = ("C01_delta_zero (Coq): for every journal and every complete configuration, every numeric cell of the Delta rows of "
              "the model's report table is zero. The model is the whole pipeline (directives -> accrual expansion -> days -> check, "
              "prices, valuate, filter, close, query -> report tree -> table). Tied to the code by byte-identical CSV on every run.")
LEVEL_NOTE = ("Trusted: kernel, extraction, harness; the model-to-code tie is sampled (quick ~900 reports). The theorem is about "
              "the model's table cells; CSV/text serialisation of cells is C17's.")


def plan(tier, seed):
    if tier == "quick":
        return [("C01", seed, 300, [])]
    return [("C01", seed + k, 2500, []) for k in range(8)]


def search_plan(seed):
    return [("C01", seed + 100 + k, 1500, []) for k in range(3)]


def nontrivial(c):
    return c.observed.startswith("OK ") and c.observed.count("\\n") > 6


def distribution(cases):
    d = {"ok": 0, "err": 0, "valued": 0, "close": 0, "diff": 0, "last": 0, "mapped": 0, "remap": 0, "accrual": 0, "intervals": {}}
    for c in cases:
        d["ok" if c.observed.startswith("OK") else "err"] += 1
        cfg = dict(kv.split("=", 1) for kv in c.input.split(" | ")[0].split())
        d["valued"] += cfg["val"] != "-"
        d["close"] += cfg["close"] == "1"
        d["diff"] += cfg["diff"] == "1"
        d["last"] += cfg["last"] != "0"
        d["mapped"] += cfg["map"] != "-"
        d["remap"] += cfg["remap"] != "-"
        d["accrual"] += "accrue=" in c.input
        d["intervals"][cfg["iv"]] = d["intervals"].get(cfg["iv"], 0) + 1
    return d
