"""C12 derived prices are consistent with declared prices (price.Prices Insert/Normalize, NormalizedPrices Price/Valuate)"""
PID = "C12"
THEOREM_FILE = "Properties/C12.v"

RULE = ("random declaration histories over at most 7 commodities (1-3 components, each a random tree / chain / star plus extra "
        "edges giving alternative paths and cycles, redeclarations of pairs in either direction, self declarations, shuffled "
        "order, prices with 0-14 decimals, tiny, huge and negative prices, 5% with a zero price) through the exported Go API "
        "in-process: Prices.Insert (op C12.ins, the stored map) and Normalize + Price + Valuate for one or two valuation "
        "commodities (op C12.norm, Normalize called 25 times, '!nondet' when two calls differ); plus the decimal primitives "
        "Div/Truncate/Mul/String on random pairs (op C12.dec); plus journals of prices, opens and transactions (price "
        "declarations before, on and after the first transaction day; days with only prices, only transactions, only opens) "
        "loaded with journal.FromPath and run through journal.ComputePrices, Day.Normalized rendered per day (op C12.days: "
        "the prices of day k must be valid prices of the declarations dated up to day k).  Non-trivial: the history has an alternative path or cycle "
        "(more declared pairs than a forest allows), a redeclaration, more than one component or a zero price; distinct by input.")

TRUSTED_BASE = [
    "Coq 8.16.1 kernel, vm_compute (C12_dfs_refuted, C12_example)",
    "extraction (ExtrOcamlBasic only) + OCaml 4.13.1 + drv_c12.ml (parsing of the case lines, rendering of decimals through the model's to_string)",
    "harness c12.go (generator, rendering of the Go maps sorted by commodity name)",
    "Model/Dec.v is shopspring/decimal v1.3.1 for Div(16 places)/Truncate/Mul/String: checked by correspondence only (op C12.dec)",
    "Model/Price.v normalize is the breadth-first Prices.Normalize of the repaired code: hand-written, checked by exact correspondence",
]
ASSUMPTIONS = ["decimal exponents stay within int32 (the overflow panics of shopspring Mul/QuoRem are not modelled)",
               "commodities are compared by name (the Go code compares *Commodity pointers handed out by one registry)"]


def plan(tier, seed):
    if tier == "quick":
        return [("C12", seed, 2000, []), ("C12dec", seed, 4000, []), ("C12days", seed, 600, [])]
    return [("C12", seed, 200000, []), ("C12dec", seed, 400000, []), ("C12days", seed, 40000, [])]


def search_plan(seed):
    return [("C12", seed + 1000 + k, 20000, []) for k in range(3)]


def _decls(c):
    if c.op == "C12.ins":
        h = c.input
    elif c.op == "C12.norm":
        h = c.input.split("|", 2)[2]
    else:
        return []
    return [d.split(" ") for d in h.split(",") if d]


def _shape(c):
    ds = _decls(c)
    names = set()
    pairs = set()
    redecl = False
    zero = False
    for d in ds:
        names.add(d[0]); names.add(d[2])
        k = frozenset((d[0], d[2]))
        if k in pairs:
            redecl = True
        pairs.add(k)
        if float(d[1]) == 0:
            zero = True
    # union-find for components
    parent = {n: n for n in names}

    def find(x):
        while parent[x] != x:
            parent[x] = parent[parent[x]]
            x = parent[x]
        return x
    real = [p for p in pairs if len(p) == 2]
    for p in real:
        a, b = tuple(p)
        parent[find(a)] = find(b)
    comps = len(set(find(n) for n in names))
    cyclic = len(real) > len(names) - comps
    return dict(n=len(names), comps=comps, cyclic=cyclic, redecl=redecl, zero=zero)


def nontrivial(c):
    if c.op == "C12.dec":
        return True
    if c.op == "C12.days":
        return " / " in (c.observed or "")
    s = _shape(c)
    return s["cyclic"] or s["redecl"] or s["comps"] > 1 or s["zero"]


def distribution(cases):
    d = {"histories": 0, "alternative_path_or_cycle": 0, "redeclaration": 0, "components>1": 0, "zero_price": 0,
         "norm_cases": 0, "unreachable_commodity": 0, "nondet": 0, "dec_cases": 0, "commodities": {}}
    for c in cases:
        if c.op == "C12.dec":
            d["dec_cases"] += 1
            continue
        if c.op == "C12.days":
            d["days_cases"] = d.get("days_cases", 0) + 1
            d["days_total"] = d.get("days_total", 0) + (c.observed or "").count(" / ") + 1
            continue
        if c.op == "C12.norm":
            d["norm_cases"] += 1
            if "=-" in (c.observed or ""):
                d["unreachable_commodity"] += 1
            if "!nondet" in (c.observed or ""):
                d["nondet"] += 1
            continue
        s = _shape(c)
        d["histories"] += 1
        d["alternative_path_or_cycle"] += 1 if s["cyclic"] else 0
        d["redeclaration"] += 1 if s["redecl"] else 0
        d["components>1"] += 1 if s["comps"] > 1 else 0
        d["zero_price"] += 1 if s["zero"] else 0
        d["commodities"][str(s["n"])] = d["commodities"].get(str(s["n"]), 0) + 1
    return d


TECHNIQUE = ("Coq proof over a hand-written Gallina model of lib/model/price (sorted association lists for the Go maps; induction on the "
             "history for Insert, a queue/result invariant for the breadth-first Normalize) + model/implementation correspondence on "
             "generated price graphs through extraction, with the executable statement valid_price_b evaluated on the Go output")
LEVEL_TEXT = ("Theorems C12_zero_rejected, C12_insert_total, C12_latest(_explicit), C12_reciprocal, C12_self, C12_direct, C12_chain, C12_chain_shortest, C12_reachable, "
              "C12_unreachable, C12_normalize_total, C12_order_independent, C12_day (ComputePrices: day k sees the history up to day k), C12_compute_prices_no_panic (Coq, closed under the global context) state the property for "
              "every declaration history, every order and every valuation commodity; C12_model_meets_spec proves that the executable "
              "statement evaluated on the Go output holds of the model; C12_dfs_refuted shows that the pinned depth-first traversal does "
              "not have the property.  The model is tied to prices.go by running both on the same histories on every check.")
LEVEL_NOTE = ("Trusted: Coq kernel + vm_compute; extraction and the OCaml driver; the Go harness; that Model/Price.v and Model/Dec.v are "
              "prices.go and shopspring/decimal (hand-written, validated by exact correspondence: quick 2000 histories / ~5000 cases + 4000 "
              "decimal pairs, thorough 200000 histories + 400000 decimal pairs)."
              "")
