"""C09 print emits a normal form that round-trips (knut print; journal.Print, printer.go, parser, model Create functions)"""
PID = "C09"
THEOREM_FILE = "Properties/C09.v"
NEEDS_KNUT = True

RULE = ("generated accepted journals (harness genJournal: 5 account types, 1-4 commodities, prices, negative/zero/trailing-zero/"
        "many-decimal amounts, accruals, @performance with 0/1/2 targets, open/close) extended locally with Unicode account and "
        "commodity names (non-ASCII letters and digits), multi-line / tab / CR / empty descriptions, several assertions per day "
        "(single- and multi-balance, in every order), duplicated transactions (identical, or differing in the annotation only). "
        "Per journal three cases: C09.print = the binary on its own output (P1 = `knut print J`; `knut print P1` must be P1; "
        "`knut check P1` must pass; `knut balance --csv -a` under two flag sets, one valued, must agree on J and P1), compared with "
        "the same line computed by the model (print_cmd, then the model's parser + ToModel on its own output); C09.tomodel = the "
        "model's parser + ToModel on the text the harness writes must give back the structured journal; C09.model = Go's parser + "
        "model.ParseDirective per directive against parse_text + ToModel + parse_directive.  Generator C09model mutates the text "
        "(impossible dates, non-ASCII digits, wrong account types, macros) to pin the error classes.  Non-trivial: print ran and "
        "the journal has at least one of: negative, zero or trailing-zero amount, accrual, annotation, multi-balance assertion; "
        "distinct by input.")
TRUSTED_BASE = [
    "Coq 8.16.1 kernel, vm_compute (C09_multi_assertion_refuted and the examples run the model's parser inside Coq)",
    "extraction (ExtrOcamlBasic only), OCaml 4.13.1, drv_c09.ml / drv_journal.ml (decoding of the case line, escaping)",
    "harness c09.go / journal.go / knutrun.go (generator, rendering of the structured journal as text, subprocess runner, "
    "the byte comparison of P1 with the second print and of the two balance outputs)",
    "Model/JPrinter.v, Model/ToModel.v, Model/Parser.v ... are hand-written models, tied to the code by byte equality of P1, by "
    "C09.tomodel / C09.model and by C07's tree correspondence",
]
ASSUMPTIONS = ["dates within years 0000..9999 (time.Parse layout 2006-01-02)",
               "regular expressions on the command line restricted to ^literal$ forms; --to always passed",
               "at most 12 transactions per day in generated journals (sort.Slice is modelled as a stable insertion sort, "
               "which is what pdqsort does below 13 elements)"]
TECHNIQUE = ("Coq: vm_compute refutation of the pinned printer; text-level proof for the repaired printer: journal.Print's text "
             "is a woven text of the format printer with newline gaps, read by C08's parser context lemmas "
             "(RoundTripFile.parse_woven), ToModel as a function of the meaning, Decimal.String as a normal form and a function of "
             "the value, C05's permutation invariance for the regrouping, a total-preorder proof for transaction.Compare (sort "
             "idempotence), a generic simulation of Processor.Process under value-equal quantities through the checker and the "
             "whole balance pipeline (integer arithmetic of big.Int.Quo for Truncate and DivRound).  Correspondence: the binary on "
             "its own print output, the model's parser+ToModel re-reading both the model's and the binary's output "
             "(normal_form_b, same_report_b)")
LEVEL_TEXT = ("Properties/C09.v, 32 theorems and examples closed under the global context.  Refuted for the pinned printer: "
              "C09_multi_assertion_refuted (an accepted journal whose printed form the model's parser rejects; vm_compute).  For the "
              "repaired printer, at full strength over the TEXT knut print writes, for every journal whose leaves are what the "
              "parser guarantees (input_lex: years 0000..9999, names = runs of Unicode letters/digits, quote-free UTF-8 "
              "descriptions, non-empty booking/balance lists; satisfiable: C09_input_lex_example) and both checkers: C09_accepted "
              "(the text is read back by parser+ToModel and knut check accepts it), C09_idem / C09_normal_form (knut print writes it "
              "again byte for byte), C09_same_reports (balance CSV and text bytes of the re-read journal are the journal's for every "
              "configuration incl. valuation, --close, --thousands -- or both commands fail; C05's price exclusion is not needed), "
              "C09_roundtrip (all three for one re-read journal).  Components: C09_reparse_printed (parser + ToModel on "
              "journal.Print's text = the printed sequence with re-read quantities), C09_decimal_normal_form, C09_reread, "
              "C09_decimal_string_of_value, C09_div_of_values, C09_check_sees_values, C09_balance_sees_values, "
              "C09_printed_is_permutation, C09_builder_of_printed, C09_printed_same_reports, C09_sort_idem, C09_lex_ok_of_input; layer 0 "
              "C09_multi_assertion_fixed, C09_example; layer 1 C09_txn_denoted / C09_directive_denoted, "
              "C09_date/account/decimal_roundtrip; model level C09_denote_accepted, C09_denote_printed, C09_denote_same_reports, "
              "C09_denote_idem; C09_printers_agree, C09_printed_accepted.")
LEVEL_NOTE = ("Trusted: kernel, extraction, drivers, harness; the model-to-code tie is sampled.  The pinned printer violated the "
              "property (finding F2: a multi-balance assertion followed by another assertion of the day); the check reported it with "
              "a replay, /repo carries the repair 20a0d05 and the model follows the repaired printer (the pinned one survives in "
              "C09_multi_assertion_refuted).  Caveats of the proved statements: failing balance runs are only shown to fail on both "
              "sides (the error may differ).  On "
              "every generated case the binary's print, check and balance outputs are compared byte for byte.")


def plan(tier, seed):
    if tier == "quick":
        return [("C09", seed, 400, []), ("C09model", seed, 300, [])]
    return [("C09", seed + k, 3000, []) for k in range(10)] + [("C09model", seed, 20000, [])]


def search_plan(seed):
    return [("C09", seed + 500 + k, 2000, []) for k in range(3)]


def _pars(line):
    head, _, flags = line.partition(" | ")
    return head.split("\\n\\n"), flags


def compare(c):
    """string equality, except that two transactions of one day which transaction.Compare calls equal (same date,
    description and postings: they can only differ in their @performance annotation) may appear in either order:
    Go sorts a day's transactions with an unstable sort (pdqsort beyond 12 elements), the model with a stable one
    (DESIGN section 9); found by a thorough run, 4 cases in 128 000"""
    if c.model == c.observed:
        return True
    if c.op != "C09.print" or not (c.observed or "").startswith("OK ") or not (c.model or "").startswith("OK "):
        return False
    po, fo = _pars(c.observed)
    pm, fm = _pars(c.model)
    key = lambda par: "\\n".join(l for l in par.split("\\n") if not l.startswith("@performance"))
    return fo == fm and sorted(po) == sorted(pm) and [key(x) for x in po] == [key(x) for x in pm]


def nontrivial(c):
    if c.op != "C09.print":
        return c.op == "C09.model" and "[" in (c.observed or "")
    if not (c.observed or "").startswith("OK "):
        return False
    j = c.input.split(" | ", 1)[1]
    f = j.split()
    return ("accrue=" in j or "perf=" in j or any(x.startswith("-") and len(x) > 1 for x in f)
            or " 0 " in j or any("." in x and x.endswith("0") for x in f) or _multi(j))


def _multi(j):
    for part in j.split(" ; "):
        f = part.split()
        if f and f[0] == "A" and len(f) > 5:
            return True
    return False


def distribution(cases):
    d = {"print_ok": 0, "print_err": 0, "accrual": 0, "perf": 0, "perf_empty": 0, "multi_assertion": 0, "unicode": 0,
         "multiline_desc": 0, "negative": 0, "flags_bad": 0, "model_err_classes": {}, "tomodel": 0}
    for c in cases:
        if c.op == "C09.print":
            o = c.observed or ""
            if o.startswith("OK "):
                d["print_ok"] += 1
                if not o.endswith("| reprint=same | check=ok | bal=same"):
                    d["flags_bad"] += 1
            else:
                d["print_err"] += 1
            j = c.input.split(" | ", 1)[1]
            d["accrual"] += "accrue=" in j
            d["perf"] += "perf=" in j
            d["perf_empty"] += " perf= " in j
            d["multi_assertion"] += _multi(j)
            d["unicode"] += any(ord(ch) > 127 for ch in j)
            d["multiline_desc"] += "0a" in j
            d["negative"] += any(x.startswith("-") and len(x) > 1 for x in j.split())
        elif c.op == "C09.tomodel":
            d["tomodel"] += 1
        elif c.op == "C09.model":
            for tok in (c.observed or "").split():
                if tok.startswith("ERR:") or tok in ("SYNTAX", "PANIC"):
                    d["model_err_classes"][tok] = d["model_err_classes"].get(tok, 0) + 1
    return d
