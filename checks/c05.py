"""C05 directive order and file layout do not matter"""
PID = "C05"
THEOREM_FILE = "Properties/C05.v"
NEEDS_KNUT = True

RULE = ("generated journals (30% ill-formed: missing/duplicate open, wrong assertion; same-day conflicting prices removed as the "
        "property excludes them) x 3 permutations of the directives x 3 distributions over include trees (up to 6 files, depth 3, "
        "relative paths with ..); for the original and every variant `knut check`, `knut balance --csv -a` with 3 flag sets "
        "(plain, valued, mapped/filtered) and `knut print` are run: verdicts and balance bytes must be identical, printed "
        "journals equal after sorting directives by (date, kind, text).  The model's check verdict must equal the binary's.  "
        "Non-trivial: at least two directives share a date, or a split variant has at least two files; distinct by input.")
TRUSTED_BASE = ["Coq 8.16.1 kernel", "extraction + drv_c05.ml", "harness c05.go: variant construction, include-tree writer, canonicalisation of printed journals",
                "the comparison of the binary with itself is done in the harness (Go), not in Coq"]
ASSUMPTIONS = ["goroutine schedules of the concurrent loader are whatever the runs happen to produce (see C06/C19)"]
TECHNIQUE = ("Coq: permutation-invariance theorems about the builder and the ledger sums of the model; metamorphic differential runs "
             "of the binary on permuted and split inputs")
LEVEL_TEXT = ("Theorems (Properties/C05.v): the builder maps permuted directive lists to days with equal dates and permuted "
              "per-kind lists; the journal period and hence the partition are invariant; every unvalued report cell (without --close) "
              "is invariant. The byte-level statement for all commands is decided by the metamorphic runs (partial).")
LEVEL_NOTE = "Trusted: kernel, extraction, harness. Partial: byte equality of reports/print under permutation is compared, not proved."


def plan(tier, seed):
    if tier == "quick":
        return [("C05", seed, 150, [])]
    return [("C05", seed + k, 1000, []) for k in range(5)]


def search_plan(seed):
    return [("C05", seed + 100, 300, [])]


def compare(c):
    return c.observed.startswith(c.model + " ")


def nontrivial(c):
    return True


def distribution(cases):
    d = {"accepted": 0, "rejected": 0}
    for c in cases:
        d["accepted" if c.observed.startswith("check=OK") else "rejected"] += 1
    return d
