"""C05 directive order and file layout do not matter"""
PID = "C05"
THEOREM_FILE = "Properties/C05.v"
NEEDS_KNUT = True

RULE = ("generated journals (30% ill-formed: missing/duplicate open, wrong assertion; same-day conflicting prices removed as the "
        "property excludes them) x 3 permutations of the directives x 3 distributions over include trees (up to 6 files, depth 3, "
        "relative paths with ..); for the original and every variant `knut check`, `knut balance --csv -a` with 3 flag sets "
        "(plain, valued, mapped/filtered) and `knut print` are run: verdicts and balance bytes must be identical, printed "
        "journals equal after sorting directives by (date, kind, text).  The model's check verdict must equal the binary's.  "
        "Non-trivial: at least two directives share a date, or a split variant has at least two files; distinct by input.")
TRUSTED_BASE = ["Coq 8.16.1 kernel", "extraction + drv_c05.ml", "harness c05.go: variant construction, include-tree writer, canonicalisation of printed journals",
                "the comparison of the binary with itself is done in the harness (Go), not in Coq"]
ASSUMPTIONS = ["goroutine schedules of the concurrent loader are whatever the runs happen to produce (see C06/C19)"]
TECHNIQUE = ("Coq: a generic lemma for monadic folds whose steps commute pairwise (fold_res_perm), instantiated for the builder, "
             "ParseDirective, the checker (all three variants) and the stages ComputePrices, Valuate, Filter, CloseAccounts of the model; "
             "the include loader returns a permutation of the visited files' directives; metamorphic differential runs of the binary "
             "on permuted and split inputs")
LEVEL_TEXT = ("Theorems (Properties/C05.v, all closed under the global context; hypotheses: account names as the parser produces them "
              "[sd_syntactic], and for balance the property's exclusion [no_conflicting_prices]). "
              "C05_verdict_perm: `knut check` (pinned, lenient and repaired checker, at the command level incl. accrual expansion) accepts a "
              "journal iff it accepts every permutation of it; C05_wellformed_perm / C05_check_model_perm / C05_parse_perm likewise for the "
              "specification, the directive-level checker and ParseDirective. "
              "C05_build_perm: permuted directive lists give builders with the same dates, the same period and, per day and kind, permuted lists. "
              "C05_balance_days_perm_partial (+ C05_balance_report_is_days_then_query): for every balance configuration the pipeline in front of "
              "Query.Into (check, prices, valuate, filter, close; --close's extra days) fails on both inputs or yields the same partition and "
              "day lists equal up to the order of each day's transactions (valued postings, value adjustments and closing transactions included). "
              "C05_print_equiv: both prints fail, or the texts are journal.Print of day lists with the same dates and per day and kind the same "
              "multiset of directives. C05_layout: a successful load is a permutation of the concatenated directives of the visited files "
              "(each file once per visit) for every include-tree shape. C05_error_depends_on_order: the reported error is not order-invariant, "
              "so failing runs agree only in failing. "
              "NOT proved: equality of the balance table/bytes (Query.Into + renderer: a node's amounts list is in first-insertion order); "
              "that part, and everything about the real binary, is decided by the metamorphic runs (partial).")
LEVEL_NOTE = ("Trusted: kernel, extraction, harness. Partial: byte equality of balance reports under permutation is proved up to the input of "
              "Query.Into and compared (binary vs binary, 3 flag sets) beyond it; print equivalence is proved for the model and compared for the binary; "
              "error class/detail of rejected journals is not invariant and not compared beyond accept/reject.")


def plan(tier, seed):
    if tier == "quick":
        return [("C05", seed, 150, [])]
    return [("C05", seed + k, 1000, []) for k in range(5)]


def search_plan(seed):
    return [("C05", seed + 100, 300, [])]


def compare(c):
    return c.observed.startswith(c.model + " ")


def nontrivial(c):
    return True


def distribution(cases):
    d = {"accepted": 0, "rejected": 0}
    for c in cases:
        d["accepted" if c.observed.startswith("check=OK") else "rejected"] += 1
    return d
