"""C05 directive order and file layout do not matter"""
PID = "C05"
THEOREM_FILE = "Properties/C05.v"
NEEDS_KNUT = True

RULE = ("generated journals (30% ill-formed: missing/duplicate open, wrong assertion; same-day conflicting prices removed as the "
        "property excludes them) x 3 permutations of the directives x 3 distributions over include trees (up to 6 files, depth 3, "
        "relative paths with ..); for the original and every variant `knut check`, `knut balance --csv -a` with 3 flag sets "
        "(plain, valued, mapped/filtered) and `knut print` are run: verdicts and balance bytes must be identical, printed "
        "journals equal after sorting directives by (date, kind, text).  The model's check verdict must equal the binary's.  "
        "Non-trivial: at least two directives share a date, or a split variant has at least two files; distinct by input.")
TRUSTED_BASE = ["Coq 8.16.1 kernel", "extraction + drv_c05.ml", "harness c05.go: variant construction, include-tree writer, canonicalisation of printed journals",
                "the comparison of the binary with itself is done in the harness (Go), not in Coq"]
ASSUMPTIONS = ["goroutine schedules of the concurrent loader are whatever the runs happen to produce (see C06/C19)"]
TECHNIQUE = ("Coq: a generic lemma for monadic folds whose steps commute pairwise (fold_res_perm: permuted lists give 'both fail or related "
             "states'), instantiated for ParseDirective, the builder, the checker (all variants) and the stages ComputePrices, Valuate, Filter, "
             "CloseAccounts, Query.Into of the model; sorted-map states are Leibniz-equal, report trees are equal up to the order of each node's "
             "amounts list and the renderer is shown blind to that order; the include loader returns a permutation of the visited files' "
             "directives; plus metamorphic differential runs of the binary on permuted and split inputs")
LEVEL_TEXT = ("Theorems (Properties/C05.v, all closed under the global context; hypotheses: account names as the parser produces them "
              "[sd_syntactic], and for balance the property's exclusion [no_conflicting_prices]: two price declarations of one day for the same "
              "unordered commodity pair are the same declaration). "
              "C05_verdict_perm: `knut check` (pinned, lenient and repaired checker, command level incl. accrual expansion) accepts a journal iff "
              "it accepts every permutation of it (also C05_wellformed_perm, C05_check_model_perm, C05_parse_perm). "
              "C05_build_perm: permuted directive lists give builders with the same dates, the same period and, per day and kind, permuted lists. "
              "C05_balance_perm / C05_balance_bytes_perm: for EVERY balance configuration, the table of a journal and of any permutation of it "
              "are equal (hence identical CSV and text bytes), or both commands fail; via C05_balance_days_perm (pipeline up to Query.Into), "
              "C05_balance_report_perm (report trees equal up to the order of amounts lists), C05_render_order_blind. "
              "C05_print_equiv: both prints fail, or the texts are journal.Print of day lists with the same dates and per day and kind the same "
              "multiset of directives. C05_layout: a successful load is a permutation of the concatenated directives of the visited files "
              "(each file once per visit) for every include-tree shape. C05_error_depends_on_order (witness): the reported error class and "
              "detail are NOT order-invariant, so failing runs agree only in failing. C05_example: hypotheses satisfiable, tables equal by vm_compute. "
              "The theorems are about the model; that the binary behaves like the model on permuted and split inputs, and the goroutine schedules "
              "of the concurrent loader, are covered by the metamorphic runs only.")
LEVEL_NOTE = ("Trusted: kernel, extraction, harness. Proved for the model at full strength for check/balance (bytes) and print (multiset equivalence); "
              "for the binary the same statements are compared on generated journals (binary vs binary on 3 permutations x 3 include layouts, 3 flag sets) "
              "and the model's check verdict is compared with the binary's. Print of the model has no source positions (Build() orders a day's "
              "directives by position since F15), so byte equality of print is not claimed. Schedules belong to C06/C19.")


def plan(tier, seed):
    if tier == "quick":
        return [("C05", seed, 150, [])]
    return [("C05", seed + k, 1000, []) for k in range(5)]


def search_plan(seed):
    return [("C05", seed + 100, 300, [])]


def compare(c):
    return c.observed.startswith(c.model + " ")


def nontrivial(c):
    return True


def distribution(cases):
    d = {"accepted": 0, "rejected": 0}
    for c in cases:
        d["accepted" if c.observed.startswith("check=OK") else "rejected"] += 1
    return d
