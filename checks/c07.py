"""C07 the parser is total and its tree is a lossless cover of the text
(lib/syntax/scanner, lib/syntax/parser, lib/syntax/directives; entry as in syntax.ParseFile)"""
PID = "C07"
THEOREM_FILE = "Properties/C07.v"

RULE = ("texts through parser.New(text).Advance().ParseFile() in-process: grammar-based journals in random layouts (all "
        "directive kinds, @performance/@accrue, multi-line assertions, comments, CRLF, tabs, Unicode names), 1-4 byte/"
        "span/line mutations and truncations of those, raw random bytes, invalid UTF-8 placed in every token class, "
        "tokens of 1-64 KiB, hand-written boundary snippets, and every leaf class (date, account, decimal, commodity, "
        "interval, quoted string) and directive keyword in every syntactic position, well-formed and in near-miss "
        "spellings, and every separator position (between the leaves of a booking, a balance line, a price, an @accrue "
        "line, inside the @performance list, at the line ends inside a directive) spelled with one blank, several, a "
        "tab, a CR, nothing, a newline, a non-breaking space, a comma, two commas, a leading or trailing comma "
        "(C07leaf, deterministic); thorough adds every string of length <= 4 over 12 relevant "
        "bytes, every 0-2 byte continuation of 7 directive prefixes, and unicode.IsLetter/IsDigit on every code point. "
        "Compared exactly: the tree of (kind start end) for every node, or the chain of (message kind, start, end, "
        "line:col) of every directives.Error, line:col being the RENDERED position Range.Location() that every "
        "diagnostic of knut prints; about one case in fourteen puts the error behind multi-byte characters on its "
        "own line (c07AfterMultibyte, half of them within the last runes of the line), counted in the distribution "
        "(error_after_valid_multibyte_on_line, bytecol_outside_line).  Non-trivial: the text parses with >= 1 directive, or fails after >= 1 complete "
        "line (error position > 0); distinct by input.")

TRUSTED_BASE = [
    "Coq 8.16.1 kernel",
    "extraction (ExtrOcamlBasic only) + OCaml 4.13.1 + drv_c07.ml (hex decoding, rendering, reading the Go tree back)",
    "harness c07.go (generator; rendering of the Go tree, of the error chain and of Range.Location() of every error; "
    "recover() around parser and error rendering)",
    "Model/Utf8.v is utf8.DecodeRuneInString and Model/UnicodeTables.v (generated from the toolchain by "
    "lib/gen_unicode_tables.go) is unicode.IsLetter/IsDigit: checked by correspondence only (the theorems hold for "
    "every letter/digit classification; decoder facts are proved for Model/Utf8.v)",
    "absence of Go runtime panics (index out of range, nil) is sampled by the harness, not proved (see C14)",
]
ASSUMPTIONS = ["the entry point is syntax.ParseFile's sequence New; Advance; ParseFile (ParseFile without the initial "
               "Advance rejects every text)",
               "on an error only the error chain is compared (callers of syntax.ParseFile ignore the partial tree)"]


def plan(tier, seed):
    if tier == "quick":
        return [("C07", seed, 3000, []),
                ("C07short", seed, 0, ["2"]),
                ("C07leaf", seed, 0, [])]
    return [("C07", seed, 300000, []),
            ("C07short", seed, 0, ["4"]),
            ("C07leaf", seed, 0, []),
            ("C07cls", seed, 0, [])]


def search_plan(seed):
    return [("C07", seed + 1000 + k, 20000, []) for k in range(3)]


def _first_err_pos(obs):
    # ERR (w:file 0 12) ...: the end of the outermost range is the failure offset
    # (an error is rendered as "(code start end @line:col)")
    try:
        return int(obs.split(")")[0].split()[3])
    except (ValueError, IndexError):
        return 0


def _err_ends(obs):
    # the End offsets of the errors of a rendered chain
    out = []
    for part in obs.split("(")[1:]:
        f = part.split()
        try:
            out.append(int(f[2]))
        except (ValueError, IndexError):
            pass
    return out


def _nonascii_before(raw, end):
    """number of non-ASCII bytes between the start of the line of byte `end` and `end`"""
    ls = raw.rfind(b"\n", 0, end) + 1
    return sum(1 for b in raw[ls:end] if b >= 0x80)


def nontrivial(c):
    if c.op != "C07.parse":
        return True
    if c.observed.startswith("(F"):
        return "(D " in c.observed
    if c.observed.startswith("ERR"):
        return _first_err_pos(c.observed) > 0
    return True


def distribution(cases):
    d = {"parsed": 0, "error": 0, "panic": 0, "bytes_total": 0, "max_bytes": 0, "directives_total": 0,
         "kinds": {}, "innermost_error": {}, "with_addons": 0, "invalid_utf8_inputs": 0, "crlf_inputs": 0,
         # rendered positions (Range.Location()): error cases in which some error of the chain ends after a
         # non-ASCII byte on its own line (byte column != rune column), after a VALID multi-byte character,
         # on a line > 1, and the largest difference between byte column and rendered column
         "error_after_nonascii_on_line": 0, "error_after_valid_multibyte_on_line": 0, "error_on_later_line": 0,
         "max_bytecol_minus_col": 0, "bytecol_outside_line": 0, "rendered_positions": 0}
    tags = {"(T ": "transaction", "(O ": "open", "(C ": "close", "(A ": "assertion", "(P ": "price", "(I ": "include"}
    for c in cases:
        if c.op != "C07.parse":
            continue
        n = len(c.input) // 2
        d["bytes_total"] += n
        d["max_bytes"] = max(d["max_bytes"], n)
        if "0d0a" in c.input:
            d["crlf_inputs"] += 1
        try:
            bytes.fromhex(c.input).decode("utf-8")
        except ValueError:
            d["invalid_utf8_inputs"] += 1
        o = c.observed
        if o.startswith("(F"):
            d["parsed"] += 1
            d["directives_total"] += o.count("(D ")
            for t, k in tags.items():
                if t in o:
                    d["kinds"][k] = d["kinds"].get(k, 0) + 1
            if "(ad " in o and o.count("(ad 0 0 ") < o.count("(ad "):
                d["with_addons"] += 1
        elif o.startswith("ERR"):
            d["error"] += 1
            k = o.rsplit("(", 1)[-1].split(" ")[0]
            d["innermost_error"][k] = d["innermost_error"].get(k, 0) + 1
            raw = bytes.fromhex(c.input)
            ends = set(_err_ends(o))
            d["rendered_positions"] += o.count("@")
            if any(_nonascii_before(raw, e) > 0 for e in ends):
                d["error_after_nonascii_on_line"] += 1
            multi = 0
            for e in ends:
                ls = raw.rfind(b"\n", 0, e) + 1
                try:
                    txt = raw[ls:e].decode("utf-8")
                    multi = max(multi, len(raw[ls:e]) - len(txt))
                except ValueError:
                    pass
            if multi > 0:
                d["error_after_valid_multibyte_on_line"] += 1
                d["max_bytecol_minus_col"] = max(d["max_bytecol_minus_col"], multi)
            # a byte-counting column (1 + bytes since the last newline) would exceed the line's runes + 1
            for e in ends:
                ls = raw.rfind(b"\n", 0, e) + 1
                le = raw.find(b"\n", e)
                le = len(raw) if le < 0 else le
                if e - ls + 1 > len(raw[ls:le].decode("utf-8", "replace")) + 1:
                    d["bytecol_outside_line"] += 1
                    break
            if any(b"\n" in raw[:e] for e in ends):
                d["error_on_later_line"] += 1
        else:
            d["panic"] += 1
    return d


TECHNIQUE = ("Coq proof over a hand-written Gallina model of scanner.go and parser.go (scanner invariant, every primitive "
             "monotone in the offset, ranges [scope start, offset) by construction, induction on loop fuel) + "
             "model/implementation correspondence on generated texts through extraction, with the executable "
             "specification (wf_tree_b, cover_b, wf_leaves_b, wf_keywords_b, wf_separators_b, determined_b, err_in_bounds_b, and "
             "for the rendered line:col of every error loc_inside_b and offset_of = End) evaluated on the Go parser's own output; "
             "Range.Location() is modelled as Go's loop over the runes (Spec/LocationSpec.v), its position proved inside the "
             "text for every offset and proved to denote the offset at every rune boundary by a prefix invariant of the loop "
             "(Proofs/LocationProofs.v), and every error of the parser proved to end at a rune boundary by a second invariant "
             "carried compositionally through the monadic model of scanner and parser (Proofs/LocationParserProofs.v); the "
             "lexical classes are proved by inversion of the parser (what each successful primitive consumed) and a "
             "decoding lemma from the scanner's rune chunks to the executable regular expressions over runes; the keywords by "
             "the windows of bytes readWhitespace1/ReadAlternative/ReadString consumed plus the first rune each parse "
             "function accepts; the separators by the same windows for ReadWhile1/ReadWhile/readRestOfWhitespaceLine, a "
             "loop invariant for the addon lines (tile_ad_b) and for the @performance list; the summary (every byte "
             "accounted for) by a proof about the specification alone: the five executable statements imply that the "
             "pieces of a tree chain from 0 to |t| (determined_of_specs)")
LEVEL_TEXT = ("Theorems C07_fuel, C07_err_in_bounds, C07_wf, C07_cover, C07_leaves, C07_keywords, C07_separators, C07_text_determined, C07_location_inside, C07_location_roundtrip, C07_error_ends_at_rune, C07_error_location_inside, C07_error_location_roundtrip (Coq, closed under the global context) state "
              "for every byte list and every letter/digit classification that the parser model terminates within its fuel, "
              "that every error range lies inside the text, that a returned tree is well-formed (wf_tree_b), that the text "
              "outside the directives is whitespace-only and comment lines (cover_b), so gaps and directives interleave to "
              "the input, and that every leaf's slice is in its lexical class (wf_leaves_b: the slice decodes into runes "
              "and is a date dddd-dd-dd, a decimal -?d+(.d+)?, a commodity, an account of ':'-separated segments or a "
              "$macro agreeing with the Macro flag, an interval keyword, a quoted string delimited by two quotes with "
              "none inside). C07_keywords adds, for classifications in which blanks, newline and the comment markers are not "
              "alphanumeric (proved of the Unicode tables; refuted without that hypothesis), that the kind of every node "
              "is justified by the text: blanks, the keyword open/close/price/balance and blanks between date and payload, "
              "`include` and blanks before a path, `@performance(`...`)` and `@accrue` blanks for present addons "
              "(wf_keywords_b). C07_separators adds, under the same hypothesis (refuted without it), the text between "
              "the leaves (wf_separators_b): blank+ between the leaves of a booking, a balance line, a price and an @accrue "
              "line; blank* and single commas in the @performance list; blank* newline after the description, every booking, "
              "every balance line of the multi-line form and every addon; every node starts with its first leaf and ends "
              "with its last leaf or the rest of its last line. C07_text_determined is the summary: the pieces of the tree "
              "(gaps, leaves, keyword windows, separators, in source order) follow each other without a hole from 0 to |t|, "
              "each slice is in the class of its piece, so the text is the concatenation of its pieces; "
              "C07_specs_determine proves this for ANY tree from the five executable statements, so it holds of the Go "
              "parser's tree whenever the check's verdict is ok. The model is tied to scanner.go/parser.go by running both "
              "on the same texts on every check, where wf_tree_b, cover_b, wf_leaves_b, wf_keywords_b, wf_separators_b "
              "and determined_b are also evaluated on the Go parser's own tree. "
              "The RENDERED position of an error (the line:col of Range.Location() that every diagnostic prints): "
              "C07_location_inside states for every text and every offset that the position Go's rune loop computes exists "
              "in the input (its line exists, its column is at most one past the runes of that line); C07_location_roundtrip "
              "that at every offset where a rune of the text starts, and at its end, the byte offset computed back from "
              "line:col is that offset (C07_location_line: the line is one more than the newline bytes in front of it; "
              "C07_location_off_rune: anywhere else Go renders the end of the text); C07_error_ends_at_rune that every error "
              "of a chain the parser returns ends at such an offset, hence C07_error_location_inside / "
              "C07_error_location_roundtrip: the position rendered for every error of the chain lies inside the input and "
              "identifies the byte the error points at. On every run the Go code's own line:col of every error is compared "
              "with the model's and evaluated with loc_inside_b and offset_of (verdict FAIL:location).")
LEVEL_NOTE = ("Trusted: Coq kernel; extraction and the OCaml driver; the Go harness; that Model/Scanner.v and Model/Parser.v "
              "are scanner.go and parser.go (hand-written, validated by the correspondence: exact equality of all ranges and "
              "error chains on every case). Go runtime panics are sampled, not excluded by proof. The lexical classes are "
              "stated in terms of the parser's own letter/digit predicates (unicode.IsLetter/IsDigit, so a date may consist "
              "of non-ASCII decimal digits: that such a date is rejected later is a matter of the model builder, not of "
              "the parser). One region of a text is described only loosely: the parser accepts @performance/@accrue lines in "
              "front of EVERY directive but keeps them only in a transaction; in front of open/close/balance/price/include "
              "they are inside the directive's range and belong to no node, and the executable statement says of them "
              "only that they start with `@` and end with a newline (class PDropped of C07_text_determined). "
              "Rendered positions: lines and columns are counted in the runes of Go's walk over the whole text (an invalid "
              "byte is one rune of width 1, as `range` over a string yields it); that the runes of a line are those of the "
              "line decoded on its own is not proved. Only Range.Location() as called on parser errors (in-process) is "
              "tied; the first line of stderr of `knut check`/`balance` is not captured by any op of C07 or C14.")
