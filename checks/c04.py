"""C04 check accepts exactly the well-formed journals (journal/check Checker, journal.Builder, Processor.Process)"""
PID = "C04"
THEOREM_FILE = "Properties/C04.v"
EXTRA_THEOREM_FILES = ["Properties/C04w.v"]
NEEDS_KNUT = True

RULE = ("lifecycle-stressing journals: (70%) a day-by-day simulation of the checker's rules over 2-6 accounts (assets, "
        "liabilities, income, expenses, equity), 1-3 commodities, 2-6 days: opens, transactions, flattening transactions, "
        "single- and multi-line assertions (true quantities incl. zero on untouched and on emptied positions, other "
        "spellings of the same value, arbitrary amounts on non-A/L accounts), closes, re-opens, same-day "
        "open/use/assert/close, then with probability 0.55 one mutation out of close-nonzero, use-after-close, "
        "double-open, missing-open, wrong-assert (one unit in the last decimal), assert-not-open, close-not-open, "
        "reopen-same-day; (10%) larger journals of the shared generator, half with a missing open or a wrong assertion; "
        "(10%) minimal targeted constructions (zero assertion on an untouched position, assertion on a non-A/L "
        "account, same-day lifecycle, reopen + zero assertion); directives in shuffled order.  `knut check FILE` on each: "
        "exit status must equal Spec.WellformedSpec.wellformed_b of the structured journal, a rejection must quote a "
        "directive with the date and account of the specification's first offending event, and the extracted model "
        "(repaired checker) must give the same verdict, error kind and account; every 4th file also through `knut "
        "balance`, every 8th through `knut print` (exit class = check's).  thorough adds all 1 086 007 multisets of at "
        "most 5 directives over {Assets:A, Income:I} x CHF x 3 days x amounts {0,1,-1}.  Non-trivial: the journal has "
        "an open, a transaction and an assertion or close; distinct by input.  `knut check --write FILE` (op C04.write, "
        "400 journals in quick, 4 x 5000 in thorough): 50% life-cycle journals (30% of them with one of the mutations above, "
        "30% with an added day that has a price and nothing else), 30% journals of the shared generator (prices, accruals, "
        "many decimals, Unicode account names, closes and assertions; 25% with a missing open or a wrong assertion), 20% the "
        "targeted constructions: stdout bytes and exit class must equal Model/CheckWrite.v check_write_cmd; on the "
        "binary's own output the extracted specification decides: the command fails exactly on the ill-formed journals "
        "(wellformed_b) and then prints nothing; the text parses (model's parser) to balance assertions only; the journal "
        "extended by them is accepted by check_cmd_fixed; Spec.CheckWriteSpec.write_spec_b (dates ascending and of the "
        "journal, lines strictly ordered by account and commodity, every line a live position with the running quantity of "
        "that day's end, every live position of every day asserted).")
TRUSTED_BASE = [
    "Coq 8.16.1 kernel, vm_compute (witnesses of the *_refuted theorems and examples)",
    "extraction (ExtrOcamlBasic only), OCaml 4.13.1, drv_journal.ml/drv_c04.ml (decoding of the case line, substring tests on the diagnostic)",
    "harness journal.go/knutrun.go/c04.go (generator, rendering of the structured journal as knut text, subprocess runner)",
    "Model/Journal.v, Model/Check.v, Model/Ledger.v model lib/journal and lib/journal/check by hand; tied to the code only by this correspondence",
    "knut's parser is not in the loop of the theorem: model and specification start from structured directives (the parser is C07's)",
    "C04.write: harness/c04w.go, drv_c04w.ml; Model/CheckWrite.v models Checker.dayEnd, checkRunner.writeFile and (Model/JPrinter.v) "
    "journal.Print by hand; the binary's text is read back with the model's parser (Model/Parser.v, ToModel.v: C07/C09's tie)",
]
ASSUMPTIONS = ["account segments contain no colon and no NUL byte, first segment is an account type (what the parser "
               "and registry accept; hypothesis `syntactic` of C04_iff)",
               "the journal is one file (include trees and arrival order are C05/C06)",
               "check --write: --no-check (Checker.NoCheck) is not modelled"]
TECHNIQUE = ("Coq proof: refinement between the checker's state (open list, sorted quantity map) and a stateless "
             "specification over the canonical event sequence (open_after, quantity as functions of the preceding events), "
             "decimal equality as an equivalence compatible with addition; + exit-status/diagnostic correspondence and the "
             "executable specification evaluated against the binary's exit status on generated journals")
LEVEL_TEXT = ("C04_iff (Coq): for every syntactically valid list of directives the repaired checker (check_proc_fixed run by "
              "process_days over builder_of's days) returns Ok iff the journal is well-formed in the property's words; "
              "C04_builder_canonical: the builder's days are the canonical order; C04_names_offender: an error carries the "
              "account and a true reason of the first offending event; C04_order_irrelevant: acceptance is invariant under "
              "permutations of the directive list; C04_zero_refuted / C04_nonAL_refuted: the pinned "
              "Checker.balance rejects well-formed journals (two defects).  check --write (Properties/C04w.v): "
              "C04_write_verdict / C04_write_fails_silently: it succeeds exactly when check does, fails with the same error and "
              "then has no output; C04_write_accepted: the journal extended by the printed assertions is accepted; "
              "C04_write_complete: the assertions are, per day of the journal in date order, all live asset/liability "
              "positions (booked after the account's last close; zero quantities and unchanged positions included, also on days "
              "with prices only), each once, ordered by account and commodity, with the running quantity of that day's end "
              "(write_spec; C04_write_spec_b_spec: = the executable form the check evaluates); C04_write_order_irrelevant: "
              "permuting the directives changes neither the assertions nor the printed bytes (C04_write_arrival, C04_write_map_order: "
              "nor do file arrival order or the enumeration of the Go map); C04_write_text_accepted: for an accepted journal as the "
              "parser delivers it, the printed text is read back by the model's parser as assertions only (the collected ones, "
              "quantities re-read) and the journal extended by them is accepted.")
LEVEL_NOTE = ("Trusted: kernel, extraction, harness; the model-to-code tie is sampled (quick ~1500 journals + 400 through check "
              "--write, thorough 200k + 20k + exhaustive small space). The theorem is about the repaired checker; against the pinned code the check reports "
              "the two defects as violations. C04_order_irrelevant: well-formedness is invariant under every permutation of the "
              "directive list (which directive is reported first is not).")

KINDS = {
    "alreadyopen": lambda l: l == "account is already open",
    "notopen": lambda l: l == "account is not open" or (l.startswith("account ") and l.endswith(" is not open")),
    "assertion": lambda l: l.startswith("failed assertion: "),
    "nonzero": lambda l: l.startswith("account has nonzero position: "),
}


def plan(tier, seed):
    if tier == "quick":
        return [("C04", seed, 1500, []), ("C04w", seed, 400, [])]
    p = [("C04", seed + k, 20000, []) for k in range(10)]
    p += [("C04w", seed + k, 5000, []) for k in range(4)]
    p += [("C04x", seed, 0, ["5", str(k), "8"]) for k in range(8)]
    return p


def search_plan(seed):
    return [("C04", seed + 100 + k, 3000, []) for k in range(3)] + [("C04w", seed + 100, 2000, [])]


def _unesc(s):
    out, i = [], 0
    while i < len(s):
        if s[i] == "\\" and i + 1 < len(s):
            out.append({"n": "\n", "t": "\t", "r": "\r"}.get(s[i + 1], s[i + 1]))
            i += 2
        else:
            out.append(s[i])
            i += 1
    return "".join(out)


def compare(c):
    """same verdict; for a rejection the same error kind, and the model's account occurs in the diagnostic"""
    if c.op != "C04.check":
        return c.model == c.observed
    if c.model == "OK" or not c.model.startswith("ERR "):
        return c.model == c.observed
    if not c.observed.startswith("ERR "):
        return False
    _, kind, acc = c.model.split(" ", 2)
    diag = _unesc(c.observed[4:])
    first = diag.split("\n", 1)[0]
    return kind in KINDS and KINDS[kind](first) and acc in diag


def nontrivial(c):
    j = c.input.split(" | ", 1)[1]
    parts = [p.split(" ", 1)[0] for p in j.split(" ; ")]
    return "O" in parts and "T" in parts and ("A" in parts or "C" in parts)


def distribution(cases):
    d = {"ops": {}, "accepted": 0, "rejected": 0, "class": {}, "mutation": {}, "mutation_rejected": {}, "features": {},
         "diagnostic": {}}
    for c in cases:
        d["ops"][c.op] = d["ops"].get(c.op, 0) + 1
        if c.op == "C04.write":
            w = d.setdefault("write", {"printed": 0, "empty": 0, "failed": 0, "class": {}, "assertions": 0})
            cfg = dict(kv.split("=", 1) for kv in c.input.split(" | ", 1)[0].split())
            w["class"][cfg["cls"]] = w["class"].get(cfg["cls"], 0) + 1
            if c.observed.startswith("OK "):
                w["printed" if len(c.observed) > 3 else "empty"] += 1
                w["assertions"] += c.observed.count(" balance")
            else:
                w["failed"] += 1
            continue
        if c.op != "C04.check":
            continue
        cfg = dict(kv.split("=", 1) for kv in c.input.split(" | ", 1)[0].split())
        ok = c.observed == "OK"
        d["accepted" if ok else "rejected"] += 1
        d["class"][cfg["cls"]] = d["class"].get(cfg["cls"], 0) + 1
        d["mutation"][cfg["mut"]] = d["mutation"].get(cfg["mut"], 0) + 1
        if not ok:
            d["mutation_rejected"][cfg["mut"]] = d["mutation_rejected"].get(cfg["mut"], 0) + 1
            first = _unesc(c.observed[4:]).split("\n", 1)[0] if c.observed.startswith("ERR ") else c.observed
            k = next((k for k, f in KINDS.items() if f(first)), "other")
            d["diagnostic"][k] = d["diagnostic"].get(k, 0) + 1
        if cfg["feats"] != "-":
            for f in cfg["feats"].split(","):
                d["features"][f] = d["features"].get(f, 0) + 1
    return d
