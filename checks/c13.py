"""C13 importers turn every statement row into a valid, faithful journal entry"""
import os

PID = "C13"
THEOREM_FILE = "Properties/C13.v"
NEEDS_KNUT = True

_HERE = os.path.dirname(os.path.abspath(__file__))
# group A (this file's generators): swisscard2, viac, cumulus, postfinance, swisscard, supercard.
# group B (revolut2, revolut, wise, swissquote, interactivebrokers) registers the generator "C13b"
# in harness/c13b.go; it is planned only when that file is present.
HAS_B = os.path.exists(os.path.join(_HERE, "..", "harness", "c13b.go"))

RULE = ("per importer (ch.swisscard2, ch.viac, ch.cumulus, ch.postfinance, ch.swisscard, ch.supercard) generated statements "
        "in the bank's format: 0-40 rows in either date order, dates across month/year ends and leap days, debits and "
        "credits, amounts with and without thousands separators where the format has them (plus the odd forms "
        "decimal.NewFromString accepts: +5, .5, 5., 1e2, 007), Cumulus payment/rounding/FX-comment rows, several currencies where the "
        "format has a currency column/header, free text with double quotes, semicolons, commas, Unicode, NBSP, leading/"
        "trailing blanks, backslashes, very long text and newlines inside quoted CSV fields; `knut import <cmd> -a <account> "
        "FILE` on each.  The model (Model/Imp/*.v run on the records that encoding/csv resp. encoding/json delivered, dumped "
        "by the harness with the importer's reader configuration) must produce byte-identical stdout and the same exit class. "
        "Spec on the binary's output: (a) stdout with `open` directives prepended is accepted by `knut print` and re-printed "
        "byte-identically; (b) the transactions parsed from stdout equal, as a multiset of (date, effect on the import "
        "account, currency), the booking rows the generator wrote down before rendering the file; line structure header/"
        "one posting/blank.  A second stream damages one row (impossible date, other date format, bad amount, wrong column "
        "count, bad currency) or the account flag (invalid, empty, omitted): exit 1, empty stdout, no panic is required.  Non-trivial: a well-formed "
        "statement with at least 3 rows; distinct by input.")
TRUSTED_BASE = [
    "Coq 8.16.1 kernel",
    "extraction (ExtrOcamlBasic only), OCaml 4.13.1, drv_c13a.ml (decoding of the case line, rendering)",
    "harness c13a.go: statement generators, the generator's own row facts, the regular-expression reader of the printed "
    "journal, the `knut print` round trip, the subprocess runner",
    "encoding/csv (Comma, LazyQuotes, TrimLeadingSpace, FieldsPerRecord as set by each importer), encoding/json "
    "(json.Number), utfbom.SkipOnly and charmap.ISO8859_1 are NOT modelled: the model starts from the records/values "
    "those readers delivered, which the harness obtains by running the same reader configuration (c13aReadItems cites "
    "the importer source lines)",
    "Go's time.Parse for the layouts 02.01.2006 and 2006-01-02, strings.TrimSpace/Trim/ReplaceAll/NewReplacer, regexp "
    "`\\d\\d.\\d\\d.\\d\\d\\d\\d` and `\\s+`, fmt.Sprintf/Println and decimal.NewFromString are hand-modelled in "
    "Model/ImpCommonA.v and tied to the code only by this correspondence",
    "Model/JPrinter.v (journal.Print) as validated by the print correspondence",
]
ASSUMPTIONS = [
    "statement text is valid UTF-8 (ISO 8859-1 for supercard); currency and account names are ASCII",
    "decimal exponents stay small (no 1e999999999 amounts)",
    "the theorems quantify over records, not over file bytes: CSV/JSON lexing is outside them",
]
TECHNIQUE = ("Coq proofs over hand-written Gallina models of six importers (per-importer row-to-transaction theorems against "
             "Spec/ImpSpecA.v) + byte-exact model/implementation correspondence on generated statements + executable "
             "specification (re-print through knut's own parser, independent row facts) evaluated on the binary's output")
LEVEL_TEXT = ("C13_<importer>_faithful and C13_<importer>_end_to_end (Coq): for every list of well-formed rows the importer model emits exactly one "
              "single-booking transaction per booking row, in order, on the row's date, whose effect on the import account is "
              "the row's signed amount in the row's currency (viac: one price per non-zero daily value), and nothing else; "
              "C13_print_balanced, C13_description_verbatim and the byte-level witness C13_quote_breaks_header for the "
              "shared back half.  Deviations of the code from the property's wording are stated as the relation the code "
              "implements and listed as findings.")
LEVEL_NOTE = ("Trusted: kernel, extraction, harness, Go's csv/json/charset readers (observed, not modelled). The tie between "
              "model and code is sampled (quick: 100 well-formed + 34 damaged statements per importer). The parser half of "
              "the round trip is checked on the binary (knut print), not proved (parser model: C07/C09).")


def plan(tier, seed):
    n = 100 if tier == "quick" else 5000
    p = [("C13a", seed, n, [])]
    if HAS_B:
        p.append(("C13b", seed, n, []))
    return p


def search_plan(seed):
    p = [("C13a", seed + 100 + k, 300, []) for k in range(2)]
    if HAS_B:
        p += [("C13b", seed + 100 + k, 300, []) for k in range(2)]
    return p


def _flags(c):
    return dict(kv.split("=", 1) for kv in c.input.split(" | ")[0].split() if "=" in kv)


def nontrivial(c):
    f = _flags(c)
    if f.get("kind") != "wf":
        return False
    facts = f.get("facts", "-")
    return facts != "-" and facts.count(",") >= 2


def distribution(cases):
    d = {}
    for c in cases:
        f = _flags(c)
        imp = f.get("imp", c.op)
        e = d.setdefault(imp, {"wf": 0, "mal": 0, "rows": 0, "OK": 0, "ERR": 0, "PANIC": 0, "newline_text": 0, "quote_in_output": 0})
        e["wf" if f.get("kind") == "wf" else "mal"] += 1
        facts = f.get("facts", "-")
        e["rows"] += 0 if facts == "-" else facts.count(",") + 1
        cls = (c.observed or "").split(" ", 1)[0].replace("+OUT", "")
        if cls in e:
            e[cls] += 1
        e["newline_text"] += f.get("nl") == "1"
        e["quote_in_output"] += "print=fail" in (c.observed or "")
    return d
