"""C13 importers turn every statement row into a valid, faithful journal entry"""
import os

PID = "C13"
THEOREM_FILE = "Properties/C13.v"
# group B theorems live in their own file (./check reads THEOREM_FILE; to be wired in by the maintainer)
EXTRA_THEOREM_FILES = ["Properties/C13b.v", "Properties/C13csv.v"]
NEEDS_KNUT = True

_HERE = os.path.dirname(os.path.abspath(__file__))
# group A (this file's generators): swisscard2, viac, cumulus, postfinance, swisscard, supercard.
# group B (revolut2, revolut, wise, swissquote, interactivebrokers: all modelled) registers the generator "C13b"
# in harness/c13b.go; it is planned only when that file is present.  Importers not modelled: none.
HAS_B = os.path.exists(os.path.join(_HERE, "..", "harness", "c13b.go"))
# the reader tie C13.csv (Go's encoding/csv against Model/Csv.v)
HAS_CSV = os.path.exists(os.path.join(_HERE, "..", "harness", "c13csv.go"))

RULE = ("per importer (ch.swisscard2, ch.viac, ch.cumulus, ch.postfinance, ch.swisscard, ch.supercard) generated statements "
        "in the bank's format: 0-40 rows in either date order, dates across month/year ends and leap days, debits and "
        "credits, amounts with and without thousands separators where the format has them (plus the odd forms "
        "decimal.NewFromString accepts: +5, .5, 5., 1e2, 007), Cumulus payment/rounding/FX-comment rows, several currencies where the "
        "format has a currency column/header, free text with double quotes, semicolons, commas, Unicode, NBSP, leading/"
        "trailing blanks, backslashes, very long text and newlines inside quoted CSV fields; `knut import <cmd> -a <account> "
        "FILE` on each.  The model (Model/Imp/*.v run on the records that encoding/csv resp. encoding/json delivered, dumped "
        "by the harness with the importer's reader configuration) must produce byte-identical stdout and the same exit class. "
        "Spec on the binary's output: (a) stdout with `open` directives prepended is accepted by `knut print` and re-printed "
        "byte-identically; (b) the transactions parsed from stdout equal, as a multiset of (date, effect on the import "
        "account, currency), the booking rows the generator wrote down before rendering the file; line structure header/"
        "one posting/blank; (c) the extracted statement-level specification Spec/ImpStmtA.v accepts the records "
        "(<importer>_statement_wf, the hypothesis of C13_<importer>_stdout) and <importer>_statement_output of the records "
        "(viac: of the decoded values and --from) is byte-identical to the binary's stdout.  A second stream damages one row (impossible date, other date format, bad amount, wrong column "
        "count, bad currency) or the account flag (invalid, empty, omitted): exit 1, empty stdout, no panic is required.  Non-trivial: a well-formed "
        "statement with at least 3 rows; distinct by input.  "
        "Group B (revolut2, revolut, com.wise, ch.swissquote, us.interactivebrokers; generator C13b, Model/Imp/{Revolut2,Revolut,Wise,"
        "Swissquote,Interactivebrokers}.v): statements of 0-40 rows in the bank's format with both signs, fees, several currencies, "
        "thousands separators, free text with quotes/semicolons/Unicode (newlines where the format quotes fields), and the row kinds "
        "each format has: revolut2 pending rows and per-row balances; revolut currency sales/purchases and per-day balances; wise "
        "OUT/IN/NEUTRAL rows with and without conversion, fees in either fee column, cancelled rows; swissquote purchases, sales, "
        "exchange row pairs, dividends with tax, custody fees, transfers, interest, unknown kinds; interactivebrokers activity "
        "statements with Trades (stocks, forex), Deposits & Withdrawals, Dividends, Withholding Tax, Interest, Open Positions, Forex "
        "Balances, header/total rows and other sections.  `knut import <cmd>` with all account flags; model stdout must be byte-identical. "
        "Spec on the binary's output: (a) stdout, with `open` directives and a transaction carrying the holdings before the statement "
        "prepended, is accepted by `knut print` (which also runs the balance assertions) and re-printed byte-identically; (b) the "
        "multiset of (date, change of the import account per commodity) over the printed transactions equals the generator's own "
        "account of the rows (per expected transaction: a wise conversion row stands for two, a swissquote exchange pair for one), "
        "the multiset of balance lines equals the balances the statement carries, and nothing else is printed; (c) all five: "
        "the extracted statement-level specification (Spec/ImpStmtB.v; interactivebrokers: Spec/ImpSpecIB.v) accepts the records "
        "(<importer>_statement_wf resp. ibs_wf) and <importer>_statement_output resp. ibs_statement_output of the "
        "records is byte-identical to the binary's stdout; (c) is evaluated whatever (a) and (b) say.  Damaged statements "
        "(date, date format, amount, column count, currency/direction, account flag invalid or omitted, a bare quote or text after a "
        "closing quote in a free-text field) are compared with the model "
        "only.  "
        "Reader (op C13.csv, generator C13csv, Model/Csv.v): 10^4 byte strings per quick run through Go's encoding/csv in-process "
        "(a loop of Read until io.EOF or the first error) and through the extracted model csv_read_all: texts written by the "
        "canonical writer (every field quoted), by Go's csv.Writer (LF and CRLF), grammar-directed texts (bare and quoted fields "
        "with commas, quotes, doubled quotes, newlines, CR, CRLF, leading ASCII and Unicode white space, non-ASCII, invalid UTF-8, "
        "NUL; blank, white and comment lines; every line ending incl. none and a lone CR at the end), damaged texts (a byte "
        "deleted, a quote or separator inserted, text after a closing quote) and random bytes; settings: those of the importers "
        "(7 of 10 cases) or free (Comma , ; tab | space :, Comment, FieldsPerRecord -1..4, LazyQuotes, TrimLeadingSpace, a few "
        "invalid delimiters).  Records must be equal field by field, byte by byte, or the error class (bare-quote, quote, "
        "field-count, invalid-delim) and the records read before it must be equal.  Spec on Go's result: every returned record has "
        "the field count FieldsPerRecord demands (C13_csv_field_count); where the generator wrote records canonically under the "
        "side conditions of C13_csv_roundtrip, the extracted csv_write of them is the text (verdict writer) and Go read back "
        "exactly them (verdict roundtrip).  In every importer case of swisscard2, swisscard, cumulus, postfinance (after skip_bom, "
        "Model/CsvImp.v: utfbom.SkipOnly), supercard (csv_items_supercard, Model/CsvLatin1.v: ISO 8859-1 decoder in front, FieldsPerRecord 2, 13, -1 per call), revolut2 (also the two-file cases), revolut, wise, swissquote, interactivebrokers the driver reads the statement's BYTES with the extracted "
        "csv_items under that importer's settings (Model/CsvImp.v) and demands the reader items the harness recorded from Go "
        "(verdict csv-records), so the importer model runs on what the model itself read.")
TRUSTED_BASE = [
    "Coq 8.16.1 kernel",
    "extraction (ExtrOcamlBasic only), OCaml 4.13.1, drv_c13a.ml (decoding of the case line, rendering)",
    "harness c13a.go: statement generators (what `kind=wf` is attached to), the subprocess runner; for the verdicts print/rows also "
    "the generator's own row facts, the regular-expression reader of the printed journal and the `knut print` round trip -- these "
    "row readers are a second opinion now: the verdict `spec` for all six importers is the extracted Coq definition "
    "<importer>_statement_output (Spec/ImpStmtA.v) compared with stdout byte for byte, and does not depend on them",
    "encoding/csv is modelled (Model/Csv.v; settings per importer in Model/CsvImp.v) and tied by op C13.csv; for swisscard2, "
    "swisscard, cumulus, postfinance (utfbom.SkipOnly = skip_bom in Model/CsvImp.v) and supercard (Model/CsvLatin1.v: "
    "charmap.ISO8859_1's decoder as latin1_decode in front, FieldsPerRecord assigned 2, 13, -1 before the first three calls of "
    "Read as read_all_set) the reader items are re-derived from the statement's bytes by the extracted model (verdict "
    "csv-records); latin1_decode is hand-modelled from the ISO 8859-1 table (byte b -> U+00b in UTF-8) and tied to "
    "golang.org/x/text/encoding/charmap only through the supercard cases (statements with bytes >= 0x80, 0xA0 and 0x85 as "
    "white space included).  Still observed, not modelled: encoding/json (viac: json.Number): there the model starts from "
    "the values json.Unmarshal delivered (c13aViacItems).  That the harness (c13aReadItems, c13bReadItems) and "
    "Model/CsvImp.v, Model/CsvLatin1.v use the settings the importer sets is by reading the importer source (lines cited in "
    "both); that the IMPORTER uses them is tied through the statements: in about one well-formed statement in twelve the "
    "generators put white space between the delimiter and the next field (TrimLeadingSpace readers: swisscard2, swisscard, "
    "postfinance, supercard, revolut2, revolut, wise), free text with the delimiter, doubled quotes and newlines inside quoted "
    "fields and CRLF line ends throughout, bare quotes in unquoted fields for the LazyQuotes readers (cumulus, postfinance, "
    "swissquote), and the damaged kind `quote` (a bare quote / text after a closing quote) for the strict readers.  Sensitivity "
    "(scratch copies of the clean tree): swisscard2 without TrimLeadingSpace: 26 spec failures (well-formed statement not "
    "imported; likewise revolut2 38, wise 24, postfinance 13, supercard 254 and 19 disagreements; swisscard and revolut "
    "statements carried blanks after the delimiter before); model mutations of Model/CsvLatin1.v: FieldsPerRecord kept at 13 "
    "after the header - 29, byte 0xA0 decoded to a blank - 42 spec failures csv-records on supercard; revolut2 with LazyQuotes = true: no spec failure - unobservable on every well-formed statement, since a text "
    "the strict reader accepts is read in the same way by the lazy one (proved: C13_csv_lazy_conservative, "
    "C13_csv_set_lazy_conservative in Properties/C13csv.v) - but 29 disagreements model/binary on the damaged kind `quote`",
    "Model/Csv.v restrictions: Comma/Comment ASCII (all importers), input from memory (no I/O error of the underlying reader), "
    "line/column of a ParseError not modelled, nothing read after the first error; harness c13csv.go (generator, the Read loop, "
    "the classification of the error by errors.Is) and drv_c13csv.ml (decoding, rendering, the field-count verdict)",
    "Go's time.Parse for the layouts 02.01.2006 and 2006-01-02, strings.TrimSpace/Trim/ReplaceAll/NewReplacer, regexp "
    "`\\d\\d.\\d\\d.\\d\\d\\d\\d` and `\\s+`, fmt.Sprintf/Println and decimal.NewFromString are hand-modelled in "
    "Model/ImpCommonA.v and tied to the code only by this correspondence",
    "Model/JPrinter.v (journal.Print) as validated by the print correspondence: the statement-level specifications render the "
    "prescribed directives with this printer model (print_directives), so the verdict `spec` trusts it (what is printed for a "
    "given list of directives) but not the importer models Model/Imp/*.v",
    "group B: drv_c13b.ml; harness c13b.go: statement generators and subprocess runner; its row readers (the generator's "
    "facts/assertions/opening holdings, the regular-expression reader of transactions, annotations and balance lines, the "
    "`knut print` round trip incl. the hand-formatted opening transaction) only for the verdicts print/rows, a second opinion: the "
    "verdict `spec` of all five importers is the extracted <importer>_statement_output (Spec/ImpStmtB.v, Spec/ImpSpecIB.v) compared "
    "with stdout byte for byte; encoding/csv with each importer's configuration is modelled (Model/Csv.v, Model/CsvImp.v) and the "
    "items of c13bReadItems are checked against the model's reading of the statement's bytes in every case (csv-records); Go's "
    "time.Parse for the layouts `2 Jan 2006`, `January 2, 2006`, `02-01-2006`, strings.Fields/Split/SplitN/NewReplacer, the regular "
    "expressions of revolut and interactivebrokers, decimal.Round and Decimal.String are hand-modelled in Model/ImpCommonB.v, "
    "Model/Imp/*.v, Model/Dec.v and tied to the code only by this correspondence",
]
ASSUMPTIONS = [
    "statement text is valid UTF-8 (ISO 8859-1 for supercard); currency and account names are ASCII",
    "decimal exponents stay small (no 1e999999999 amounts)",
    "the importer theorems quantify over records; the step from file bytes to records is Model/Csv.v (C13_csv_total, "
    "C13_csv_field_count, C13_csv_items_shape for every byte string; C13_csv_roundtrip / C13_csv_items_of_written for canonically "
    "written statements) for the nine importers whose csv reader is modelled (postfinance after BOM skipping); supercard: "
    "C13_latin1_decode_total/_ascii/_injective, C13_latin1_byte_utf8, C13_csv_set_total, C13_csv_items_supercard_shape "
    "(Model/CsvLatin1.v; no round-trip theorem through a writer for the reader with assigned FieldsPerRecord); JSON (viac) stays outside",
    "group B: every account flag is given and non-empty (an empty flag yields a nil account; not generated); revolut2 and revolut "
    "statements list rows in the order in which the Balance column is a running balance (revolut2: completion order, one currency "
    "per day; revolut: newest first) - see findings/C13-revolut2-balances.md, findings/C13-revolut-balances.md; swissquote exchange "
    "rows come in complete pairs",
]
TECHNIQUE = ("Coq proofs over hand-written Gallina models of all eleven importers (per-importer row-to-transaction theorems against "
             "Spec/ImpSpecA.v, Spec/ImpSpecB.v and, for interactivebrokers at statement level, Spec/ImpSpecIB.v) + byte-exact model/implementation correspondence on generated statements + executable "
             "specification evaluated on the binary's output: for all eleven importers the extracted statement-level definition "
             "<importer>_statement_output (Spec/ImpStmtA.v, Spec/ImpStmtB.v, Spec/ImpSpecIB.v: row readings of the specification + "
             "posting.Builder + printer, proved to be what the command prints) compared with stdout, plus re-print through knut's own "
             "parser and the harness' independent row facts as a second opinion; + a Gallina model of Go's encoding/csv reader "
             "(Model/Csv.v, following reader.go readLine/readRecord) with proofs of totality, field counts and the round trip "
             "through the canonical writer, tied to encoding/csv in-process on 10^4 generated byte strings per run and used by the "
             "drivers to re-derive the importers' records from the statement bytes")
LEVEL_TEXT = ("C13_<importer>_faithful and C13_<importer>_end_to_end (Coq): for every list of well-formed rows the importer model emits exactly one "
              "single-booking transaction per booking row, in order, on the row's date, whose effect on the import account is "
              "the row's signed amount in the row's currency (viac: one price per non-zero daily value), and nothing else; "
              "C13_print_balanced, C13_description_verbatim and the byte-level witness C13_quote_breaks_header for the "
              "shared back half; C13_<importer>_stdout for swisscard2, viac, supercard, swisscard, cumulus and "
              "C13_postfinance_statement_stdout (Coq): for every list of records that is a well-formed statement "
              "(<importer>_statement_wf, executable: header records, well-formed rows, for postfinance the key/value-header-rows-"
              "disclaimer shape cut up by pf_parts, for cumulus the reading of the records as entries by cum_entries) the command "
              "succeeds and its standard output IS <importer>_statement_output: journal.Print of one transaction per booking row, "
              "built from the specification's row fact and text as one booking with Expenses:TBD (charge_directive for the card "
              "statements swisscard2/swisscard, change_directive for postfinance/supercard/cumulus; they fix the printed decimal and "
              "which way round a zero amount is booked, which `books` leaves open; C13_change_directive_books / C13_charge_directive_books: each books its row fact), resp. of the "
              "prices (viac, with --from).  "
              "Deviations of the code from the property's wording are stated as the relation the code "
              "implements and listed as findings.  Group B (Properties/C13b.v): C13b_print_balanced / C13b_journal_balanced (what a group B importer hands to the printer consists of posting pairs), C13_revolut2_faithful (one transaction per completed row, "
              "Amount - Fee; one assertion per day and currency with the last row's Balance), C13_revolut_faithful (one transaction per row, "
              "exchange rows in two commodities; an assertion at every change of date), C13_wise_faithful (zero, one or two transactions per "
              "row as ws_entries lists them) with C13_wise_incoming_conversion_refuted (IN with conversion credits the target amount twice), "
              "C13_swissquote_faithful (one transaction per row except one per pair of exchange rows) with "
              "C13_swissquote_open_exchange_dropped, each with C13_<importer>_end_to_end (all account flags valid: the command succeeds and prints "
              "journal.Print of exactly those directives), and C13_interactivebrokers_faithful / _end_to_end / _stdout (for every well-formed activity "
              "statement - every record well-formed, Forex trades after the Base Currency record, balance rows after the Period record - the "
              "importer emits, in record order, exactly one transaction per booking row (stock and Forex trades with their commission "
              "bookings, deposits/withdrawals, dividends, withholding tax, interest), exactly one balance assertion, dated on the end of the "
              "period, per Open Positions/Summary and Forex Balances/Forex row, and nothing for any other record; the amounts are the row's "
              "amounts AS THE CODE ROUNDS THEM - quantity, proceeds, Forex commission, deposit amount and cash balance to two places, half "
              "away from zero (C13_interactivebrokers_rounding), which is the row's amount when it has at most two decimals "
              "(C13_interactivebrokers_two_places_exact) and otherwise the known finding C13-ib-rounding; _stdout is the executable form "
              "the check evaluates on the binary's output) with the row theorems C13_interactivebrokers_{deposit,dividend,interest,"
              "withholding,stock}_row (one record in any importer state): in each the transactions are dated on the row date, "
              "consist of exactly the row's bookings and change the import account by exactly the row's signed amounts (less fee) in "
              "every commodity.  C13_revolut2_stdout, C13_revolut_stdout, C13_wise_stdout, C13_swissquote_stdout (Spec/ImpStmtB.v): "
              "for every list of records that is a well-formed statement (header record as the importer demands it, well-formed "
              "rows; revolut: the currency read from the header by rvs_currency; swissquote: sqs_wf) the command with valid account "
              "flags prints exactly <importer>_statement_output: the transactions booking_directive builds from the specification's "
              "X_fact / X_legs / X_text (revolut2: of the completed rows, then the assertions of the closing balances r2s_closings "
              "sorted by day and currency name; revolut: rvs_weave; wise: of ws_entries; swissquote: of sqs_entries) -- no hypothesis "
              "on the accounts being different is needed for these; C13b_books_determines: a transaction that books a row under the "
              "row's text is the one booking_directive builds, so the transactions of the _faithful theorems are these.  "
              "Reader (Properties/C13csv.v, all at full strength): C13_csv_roundtrip: for every setting with valid delimiters and every "
              "list of records whose fields contain arbitrary bytes, csv_read_all of csv_write (every field quoted, quotes doubled, "
              "LF after each record) is exactly those records, provided no record is without fields (it would be an empty line; a "
              "record of one empty field is fine), no field contains CR directly before LF (Go turns that pair into LF also inside "
              "quotes; a lone CR or a CR at the end of a field is kept) and the field counts are what FieldsPerRecord demands "
              "(negative: any; positive: that many; 0: all as many as the first) - each condition shown necessary by an Example; "
              "C13_csv_total: on every byte string and setting the reader returns records, or the records before the first error and "
              "one of ErrBareQuote, ErrQuote, ErrFieldCount, ErrInvalidDelim - never fuel exhaustion; C13_csv_field_count: every "
              "returned record (also before an error) has at least one field and the required number; C13_csv_items_shape: what the "
              "importer models take (records, then at most one failure item at the end) is what the reader model yields on any "
              "file; C13_csv_items_of_written: for a canonically written statement the items are its records, so the importer "
              "theorems speak about the bytes of that file.  supercard's reader (Model/CsvLatin1.v): C13_latin1_decode_total (a "
              "byte string decodes to a byte string of one or two bytes per byte), C13_latin1_byte_utf8 (each byte to the UTF-8 "
              "encoding of the code point with its number), C13_latin1_decode_ascii (bytes below 0x80 unchanged), "
              "C13_latin1_decode_injective; C13_csv_set_total, C13_csv_set_nil, C13_csv_items_supercard_shape for the reader "
              "whose FieldsPerRecord is assigned before calls of Read (2, 13, then -1).  C13_csv_lazy_conservative / "
              "C13_csv_set_lazy_conservative: if a reader returns records (no error) on a text, the same reader with LazyQuotes = true "
              "returns the same records - LazyQuotes cannot be observed on a statement a strict reader accepts.")
LEVEL_NOTE = ("Trusted: kernel, extraction, the harness' generators and runner, Go's json reader (viac; observed, not modelled) and charmap.ISO8859_1 (hand-modelled since ext-sc, tied by csv-records on the supercard cases; "
              "encoding/csv is modelled since ext-csv: Model/Csv.v, tied by C13.csv on 10^4 byte strings per run - 450 000 more with "
              "three other seeds agreed - and by the verdict csv-records on every case of ten importers (supercard since ext-sc); model mutations `trailing "
              "CR kept`, `U+3000 no space`, `closing quote at end of input needs LazyQuotes` give 156, 234 and 68 disagreements in 10^4), the "
              "printer model.  The verdict that the output is right is, for all eleven importers, an extracted Coq definition proved "
              "equal to what the importer model prints (C13_<importer>_stdout), evaluated on every generated well-formed statement "
              "(all of which satisfy the theorems' hypotheses: none of 1500 further statements per importer, other seeds, fell outside <importer>_statement_wf); the harness' row "
              "readers remain as a second opinion (they are blind to descriptions, counter accounts and fee accounts: the mutations "
              "`swisscard2 description fields swapped` and `revolut2 fee booked to Expenses:TBD` pass print and rows and fail spec). "
              "The tie between "
              "model and code is sampled (quick: 100 well-formed + 34 damaged statements per importer). The parser half of "
              "the round trip is checked on the binary (knut print), not proved (parser model: C07/C09).  Group B: 100 well-formed + "
              "34 damaged statements per importer in the quick tier; for interactivebrokers the statement-level specification is also run: every "
              "generated well-formed statement must satisfy ibs_wf (the theorem's hypothesis) and the binary's stdout must equal "
              "ibs_statement_output of its records; every importer now has a _faithful theorem (importer function) and an _end_to_end theorem "
              "(valid account flags to journal.Print on stdout; viac also with --from: C13_viac_end_to_end_from).  Findings: the wise double credit of a converted incoming payment was "
              "repaired in /repo (0ec20cd; the model follows); interactivebrokers' rounding to two places (golden file pins it) and "
              "cumulus' dropped payment rows are known findings, printed as KNOWN-FINDING lines.")


def plan(tier, seed):
    n = 100 if tier == "quick" else 5000
    p = [("C13a", seed, n, [])]
    if HAS_B:
        p.append(("C13b", seed, n, []))
        p.append(("C13bfiles", seed, 40 if tier == "quick" else 2000, []))
    if HAS_CSV:
        p.append(("C13csv", seed, 10000 if tier == "quick" else 300000, []))
    return p


def search_plan(seed):
    p = [("C13a", seed + 100 + k, 300, []) for k in range(2)]
    if HAS_B:
        p += [("C13b", seed + 100 + k, 300, []) for k in range(2)]
    if HAS_CSV:
        p.append(("C13csv", seed + 100, 20000, []))
    return p


def _flags(c):
    return dict(kv.split("=", 1) for kv in c.input.split(" | ")[0].split() if "=" in kv)


def nontrivial(c):
    f = _flags(c)
    if c.op == "C13.csv":
        # at least two records read, one of them from a quoted field
        o = c.observed or ""
        return o.startswith("OK ") and o.count(";") >= 1 and "22" in c.input.split(" | ")[-1]
    if f.get("kind") != "wf":
        return False
    facts = f.get("facts", "-")
    return facts != "-" and facts.count(",") >= 2


def distribution(cases):
    d = {}
    for c in cases:
        f = _flags(c)
        if c.op == "C13.csv":
            e = d.setdefault("csv", {})
            for k in ("kind:" + f.get("kind", "?"), "outcome:" + (c.observed or "").split(" ", 1)[0],
                      "lazy=%s trim=%s" % (f.get("lazy"), f.get("trim")), "fpr:" + ("neg" if f.get("fpr", "0").startswith("-") else "zero" if f.get("fpr") == "0" else "pos"),
                      "roundtrip-checked" if f.get("exp", "-") != "-" else "no-exp"):
                e[k] = e.get(k, 0) + 1
            continue
        imp = f.get("imp", c.op)
        e = d.setdefault(imp, {"wf": 0, "mal": 0, "rows": 0, "OK": 0, "ERR": 0, "PANIC": 0, "newline_text": 0, "quote_in_output": 0})
        if f.get("note", "-") != "-":
            e["note:" + f["note"]] = e.get("note:" + f["note"], 0) + 1
        e["wf" if f.get("kind") == "wf" else "mal"] += 1
        facts = f.get("facts", "-")
        e["rows"] += 0 if facts == "-" else facts.count(",") + 1
        cls = (c.observed or "").split(" ", 1)[0].replace("+OUT", "")
        if cls in e:
            e[cls] += 1
        e["newline_text"] += f.get("nl") == "1"
        e["quote_in_output"] += "print=fail" in (c.observed or "")
    return d
