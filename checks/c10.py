"""C10 accruals move amounts in time without creating or losing money (transaction.Create / expand)"""
PID = "C10"
THEOREM_FILE = "Properties/C10.v"

RULE = ("one transaction with an @accrue annotation per case, as journal text through the real parser "
        "(parser.New/Advance/ParseFile) and transaction.Create: 1-5 bookings over all 25 credit/debit account-type "
        "combinations (equity included), amounts with up to 12 decimals, negative, zero, tiny; performance targets; "
        "intervals daily/weekly/monthly/quarterly through the parser plus once/yearly at library level; windows "
        "independent of the transaction date (single-day, leap days, month ends, far years, long); accrual account a "
        "fresh A/L account, an equity or income/expense account, or one of the transaction's own accounts; ~3% cases "
        "outside the hypothesis (end < start, start = 0001-01-01) to pin the panics.  thorough adds every window inside "
        "2019-12-01..2021-03-31 x 4 intervals (daily: windows <= 92 days) for one fixed transaction.  Non-trivial: the "
        "expansion produced at least two transactions; distinct by input.")

TRUSTED_BASE = [
    "Coq 8.16.1 kernel, vm_compute (C10_equity_refuted, examples; calendar sweeps behind the C11 partition facts)",
    "extraction (ExtrOcamlBasic only) + OCaml 4.13.1 + drv_c10.ml / drv_journal.ml string conversions",
    "harness c10.go (generator, rendering of dates, decimal.String(), account and commodity names)",
    "shopspring/decimal is modelled by Model/Dec.v (add, neg, quo_rem, String) and checked only by correspondence",
    "the executable statement accrual_verdict is proved sound (C10_verdict_sound, _targets, _dates) and complete for "
    "the model (C10_model_meets_spec); its clause 4 is the order-free form of C10_dates (multiset of date/description/"
    "leg account/commodity); the ordered statement C10_dates is proved of the model and tied to the code by string "
    "equality of model and Go output",
]
ASSUMPTIONS = ["window start <= end and start not 0001-01-01 (outside: C10_empty_window_panics / C10_zero_start_panics, C14)",
               "dates restricted to years 0001..9999 in generated cases (the theorems have no bound)",
               "decimal exponents stay within int32 (Model/Dec.v has unbounded exponents)"]


def plan(tier, seed):
    if tier == "quick":
        return [("C10", seed, 1500, [])]
    return [("C10", seed, 100000, []),
            ("C10sweep", seed, 0, ["2019-12-01", "2021-03-31"])]


def search_plan(seed):
    return [("C10", seed + 1000 + k, 20000, []) for k in range(3)]


def compare(c):
    if c.model == c.observed:
        return True
    # outside the hypothesis the model panics (division by zero periods / zero time); a tree in
    # which that was turned into a clean error still corresponds
    if c.model == "PANIC" and c.observed in ("PANIC", "ERR"):
        return True
    return False


def nontrivial(c):
    return ";" in (c.observed or "")


def _accrual(c):
    for f in c.input.split():
        if f.startswith("accrue="):
            return f[len("accrue="):].split(",")
    return None


def distribution(cases):
    d = {"intervals": {}, "bookings": {}, "generated_txns_total": 0, "panic": 0, "err": 0, "equity_leg": 0,
         "accrual_account_in_txn": 0, "accrual_account_type": {}, "negative_amount": 0, "single_day_window": 0,
         "max_parts": 0, "with_targets": 0}
    for c in cases:
        a = _accrual(c)
        if not a:
            continue
        d["intervals"][a[0]] = d["intervals"].get(a[0], 0) + 1
        f = c.input.split()
        book = f[5:]
        nb = len(book) // 4
        d["bookings"][str(nb)] = d["bookings"].get(str(nb), 0) + 1
        accs = book[0::4] + book[1::4]
        if any(x.startswith("Equity") for x in accs):
            d["equity_leg"] += 1
        if a[3] in accs:
            d["accrual_account_in_txn"] += 1
        t = a[3].split(":")[0]
        d["accrual_account_type"][t] = d["accrual_account_type"].get(t, 0) + 1
        if any(q.startswith("-") for q in book[2::4]):
            d["negative_amount"] += 1
        if a[1] == a[2]:
            d["single_day_window"] += 1
        if f[3].startswith("perf="):
            d["with_targets"] += 1
        if c.observed == "PANIC":
            d["panic"] += 1
        elif c.observed == "ERR":
            d["err"] += 1
        else:
            n = c.observed.count(";") + 1
            d["generated_txns_total"] += n
            d["max_parts"] = max(d["max_parts"], n)
    return d


TECHNIQUE = ("Coq proof over a hand-written Gallina model of transaction.go/posting.go (induction over the postings and over "
             "the period ends; exact rational semantics of decimal add/neg/QuoRem; partition facts from C11) + "
             "model/implementation correspondence and the executable conservation statement evaluated on the Go output")
LEVEL_TEXT = ("Theorems C10_each_balances, C10_each_is_pair, C10_conserve, C10_accrual_nets_zero, C10_accrual_account_in_source, "
              "C10_sum_parts, C10_dates, C10_no_panic_nonempty, C10_succeeds_nonempty, C10_targets_kept (Coq, closed under the "
              "global context) state the property for every transaction (any bookings, account types, signs, decimals), every "
              "interval and every window start <= end, about the repaired expansion txn_create_fixed; C10_equity_refuted shows "
              "that the pinned expansion violates conservation and accrual-nets-to-zero; C10_verdict_sound ties the executable "
              "clauses evaluated on the Go output to the statements and C10_model_meets_spec shows that the executable "
              "statement accepts everything the repaired model returns.")
LEVEL_NOTE = ("Trusted: Coq kernel + vm_compute; extraction and the OCaml driver; the Go harness; that Model/Ledger.v "
              "(expand_posting_gen rebook_fixed) is transaction.go after findings/C10-equity-dropped.patch and Model/Dec.v is "
              "shopspring/decimal (hand-written, validated by string equality of every generated transaction on each run). "
              "The parser is used but not modelled (C07).")
