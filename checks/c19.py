"""C19 concurrent loading and processing is race-free and terminates (cpr.Seq, journal.FromPath)"""
import os
import sys

PID = "C19"
THEOREM_FILE = "Properties/C19.v"
NEEDS_KNUT = True
NEEDS_RACE = True
RACE_IN_QUICK = True

RULE = ("generated journals (3-24 dated days, 9 accounts, CHF/USD with prices, 0-3 transactions per day, balance assertions "
        "that hold) spread at random over an include tree of 1-7 files in nested directories with shuffled lines; command "
        "drawn from balance (8 flag sets: valuation, periods, diff, last, mapping, csv, sort), print, check; failure kind "
        "drawn from ok (50%), failing assertion on a random day, missing price under -v, posting to an unopened account, "
        "syntax error in a random file, include of a missing file; schedule seed for KNUT_VERIF_SCHED (yield/sleep 0-200us at "
        "every Push/Pop and before a parsed file is pushed).  Each run: exit status (20 s timeout = HANG), stdout empty or "
        "not, number of journal.Builder.Add calls (hook census), directives printed by `knut print`, and the begin/end/fail "
        "events of every cpr.Seq stage; the extracted trace_ok (and trace_complete on success) is evaluated per Seq "
        "invocation with items indexed by date order.  C19.race repeats runs with a -race binary; any DATA RACE report "
        "fails.  Non-trivial: at least 2 stages x 3 days in the trace, or at least 3 files; distinct by input.")

TRUSTED_BASE = [
    "Coq 8.16.1 kernel, vm_compute (Examples)",
    "extraction (ExtrOcamlBasic only) + OCaml 4.13.1 + drv_c19.ml (trace parsing, date -> index by sorting)",
    "harness c19.go (generator, file layout, census by regular expression on `knut print` output)",
    "the hooks hooks/0001-verif-hooks.patch (VerifEvent writes one line per event under a mutex: the file order is a linearisation)",
    "Go's channel/select/context semantics are as modelled in Model/Pipe.v; the Go race detector for memory-level races",
]
ASSUMPTIONS = ["unbuffered channel send/receive is a rendezvous; select picks any ready case; context cancellation is observed by every select on ctx.Done()",
               "stage functions touch only their own processor state and the item they hold (checked only by the race detector)",
               "include graphs are acyclic (a cyclic graph does not terminate: C19_loader_cycle_unbounded, finding F12)"]


def _require_hooks():
    sys.path.insert(0, os.path.join(os.path.dirname(os.path.dirname(os.path.abspath(__file__))), "lib"))
    import vlib
    marker = os.path.join(vlib.REPO, "lib", "common", "cpr", "verif_on.go")
    if not os.path.exists(marker):
        print("C19: the verification hooks are missing in %s (no lib/common/cpr/verif_on.go).\n"
              "     Apply them with: git -C %s apply %s\n"
              "     or point VERIF_REPO at a worktree of knut that has them." % (
                  vlib.REPO, vlib.REPO, os.path.join(vlib.VERIF, "hooks", "0001-verif-hooks.patch")), file=sys.stderr)
        sys.exit(2)


def plan(tier, seed):
    _require_hooks()
    if tier == "quick":
        return [("C19", seed, 300, []), ("C19", seed + 7, 60, ["race"])]
    return [("C19", seed, 30000, []), ("C19", seed + 7, 3000, ["race"])]


def search_plan(seed):
    return [("C19", seed + 1000 + k, 1000, []) for k in range(3)]


def compare(c):
    """model output is the expected exit class / stdout class / census; the trace is for the spec verdict"""
    obs = (c.observed or "")
    if c.op == "C19.race":
        return " ".join(obs.split(" ")[:2]) == (c.model or "")
    head = obs.split(" trace=")[0]
    kv = dict(f.split("=", 1) for f in head.split(" ") if "=" in f)
    if (c.model or "").startswith("exit=1"):
        return "exit=%s out=%s" % (kv.get("exit"), kv.get("out")) == c.model
    return "exit=%s out=%s adds=%s printed=%s" % (kv.get("exit"), kv.get("out"), kv.get("adds"), kv.get("printed")) == c.model


def nontrivial(c):
    if c.op == "C19.race":
        return True
    nfiles = c.input.split(";files=")[-1].count("|") // 2 + 1
    tr = (c.observed or "").split(" trace=")[-1]
    evs = [e.split(":") for e in tr.split(",") if e.count(":") == 2]
    stages = set(e[0] for e in evs)
    days = set(e[2] for e in evs)
    return nfiles >= 3 or (len(stages) >= 2 and len(days) >= 3)


def distribution(cases):
    d = {"kind": {}, "cmd": {}, "files": {}, "exit": {}, "events_total": 0, "max_stages": 0, "max_days": 0,
         "race_runs": 0, "races": 0, "hangs": 0}
    for c in cases:
        kv = dict(f.split("=", 1) for f in c.input.split(";files=")[0].split(";") if "=" in f)
        if c.op == "C19.race":
            d["race_runs"] += 1
            d["races"] += 1 if "race=1" in (c.observed or "") else 0
            continue
        d["kind"][kv.get("kind")] = d["kind"].get(kv.get("kind"), 0) + 1
        d["cmd"][kv.get("cmd")] = d["cmd"].get(kv.get("cmd"), 0) + 1
        nf = str(c.input.split(";files=")[-1].count("|") // 2 + 1)
        d["files"][nf] = d["files"].get(nf, 0) + 1
        okv = dict(f.split("=", 1) for f in (c.observed or "").split(" trace=")[0].split(" ") if "=" in f)
        d["exit"][okv.get("exit", "?")] = d["exit"].get(okv.get("exit", "?"), 0) + 1
        d["hangs"] += 1 if okv.get("exit") == "HANG" else 0
        evs = [e.split(":") for e in (c.observed or "").split(" trace=")[-1].split(",") if e.count(":") == 2]
        d["events_total"] += len(evs)
        if evs:
            d["max_stages"] = max(d["max_stages"], len(set(int(e[0]) % 1000 for e in evs)))
            d["max_days"] = max(d["max_days"], len(set(e[2] for e in evs)))
    return d


TECHNIQUE = ("Coq proof about labelled transition systems of cpr.Seq (under conc's cancel-on-error/first-error pool) and of the "
             "loader, by induction over arbitrary schedules; a verified trace checker run on hook traces of the real binary under "
             "perturbed schedules; census of loaded directives; the Go race detector for memory-level races")
LEVEL_TEXT = ("Theorems C19_ownership, C19_order, C19_no_loss_dup, C19_deadlock_free, C19_terminates, C19_error, C19_seq_refines "
              "(for every number of stages and items, every failure oracle and every schedule) are proved in Coq, closed under "
              "the global context.  The trace checker is exact: trace_ok_sound / trace_ok_spec_accepts (it decides the "
              "declarative specification), trace_ok_complete (it accepts the trace of every run), C19_trace_ok_exact (every "
              "accepted event list is the trace of a run from the initial state, for some number of items and some oracle) "
              "and C19_trace_exact (for given n, m and oracle the traces of the runs are exactly the accepted lists that "
              "respect the oracle).  For that, trace_ok now also checks the back-pressure of the unbuffered channels (stage i "
              "begins item k only after stage i+j has ended k-j items); trace_ok_loose_exact_refuted exhibits an event list "
              "that the earlier checker accepted and no run emits.  The loader is modelled twice: with one consumer "
              "(C19_loader_terminates, C19_load_multiset, C19_loader_cycle_unbounded) and as journal.FromPath's three stages - "
              "parser tasks, model.FromStream's dispatcher with its inner pool of conversion tasks, the builder: "
              "C19_frompath_terminates (at most 3W+4 effective steps; no reachable state blocks and the workers all return, "
              "from closure alone, whatever fails in parsing and conversion), C19_frompath_loads_once (an error-free return "
              "has added every file's directives to the builder exactly once), C19_frompath_error (the returned error is that "
              "of a stage function that failed; any failure is reported), C19_frompath_nodrain_refuted (if FromStream returns "
              "at its first error a parser blocks in Push forever) and C19_frompath_builder_error_refuted (a failing "
              "Builder.Add would block the conversion tasks forever; unreachable today, findings/C19-builder-error-latent-hang.md).  "
              "The tie to the binary: the extracted trace_ok accepts the hook trace of every Seq invocation of every run, "
              "successful runs are complete (every stage saw every day) and load exactly the generated directives, failing "
              "runs exit non-zero with empty stdout within the timeout, and the race detector reports nothing.")
LEVEL_NOTE = ("Partial: data races on Go memory are only searched for (race detector, sampled schedules); Go channel, select and "
              "context semantics are assumed as modelled (unbuffered send/receive is a rendezvous: the back-pressure clause "
              "of trace_ok rests on it); C19_frompath_terminates assumes that Builder.Add does not fail (true of the code: "
              "Add rejects only directive types that ParseDirective never produces) - the refuted variant shows the "
              "assumption is needed; the include-cycle check of parseRec is not in the loader models (they assume an acyclic "
              "include graph).  Trusted: Coq kernel, extraction, drv_c19.ml, harness c19.go, the add-only hooks.")
