"""C19 concurrent loading and processing is race-free and terminates (cpr.Seq, journal.FromPath)"""
import os
import sys

PID = "C19"
THEOREM_FILE = "Properties/C19.v"
NEEDS_KNUT = True
NEEDS_RACE = True
RACE_IN_QUICK = True

RULE = ("generated journals (3-24 dated days, 9 accounts, CHF/USD with prices, 0-3 transactions per day, balance assertions "
        "that hold) spread at random over an include tree of 1-7 files in nested directories with shuffled lines; command "
        "drawn from balance (8 flag sets: valuation, periods, diff, last, mapping, csv, sort), print, check; failure kind "
        "drawn from ok (50%), failing assertion on a random day, missing price under -v, posting to an unopened account, "
        "syntax error in a random file, include of a missing file; schedule seed for KNUT_VERIF_SCHED (yield/sleep 0-200us at "
        "every Push/Pop and before a parsed file is pushed).  Each run: exit status (20 s timeout = HANG), stdout empty or "
        "not, number of journal.Builder.Add calls (hook census), directives printed by `knut print`, and the begin/end/fail "
        "events of every cpr.Seq stage; the extracted trace_ok (and trace_complete on success) is evaluated per Seq "
        "invocation with items indexed by date order.  C19.race repeats runs with a -race binary; any DATA RACE report "
        "fails.  Every seventh case is an include GRAPH that is not a tree (diamond, a file included three times, three "
        "routes to a file with an include of its own, mutual includes reachable over two routes, a longer cycle entered at "
        "two points, a cycle below a diamond, random graphs of 3-6 files with one or two parents per file and sometimes an "
        "include back; `./` prefixes and sub-directories in the include paths): kmodel runs the extracted transition "
        "system of FromPath with ancestor chains on the graph under two canonical schedulers and evaluates the extracted "
        "enumeration of simple paths; expected: a reachable cycle => exit 1, empty stdout, no hang; otherwise the number "
        "of Builder.Add calls is the sum over the simple include paths from the root of the directives of the path's last "
        "file (a file included from two places is loaded twice), also computed by depth-first search in the generator.  "
        "Non-trivial: at least 2 stages x 3 days in the trace, or at least 3 files; distinct by input.")

TRUSTED_BASE = [
    "Coq 8.16.1 kernel, vm_compute (Examples)",
    "extraction (ExtrOcamlBasic only) + OCaml 4.13.1 + drv_c19.ml (trace parsing, date -> index by sorting; include graph -> "
    "inc function, census = sum of per-file directive counts over the files the model loaded)",
    "harness c19.go (generator, file layout, include graphs with their census by depth-first search, census by regular "
    "expression on `knut print` output)",
    "the hooks hooks/0001-verif-hooks.patch (VerifEvent writes one line per event under a mutex: the file order is a linearisation)",
    "Go's channel/select/context semantics are as modelled in Model/Pipe.v; the Go race detector for memory-level races",
]
ASSUMPTIONS = ["unbuffered channel send/receive is a rendezvous; select picks any ready case; context cancellation is observed by every select on ctx.Done()",
               "stage functions touch only their own processor state and the item they hold (checked only by the race detector)",
               "include graphs are finite (cyclic or not: C19_frompath_cycle_terminates); the loader models without the ancestor chain "
               "(Model/PipeLoader.v, Model/PipeFromPath.v) assume an acyclic graph (C19_loader_cycle_unbounded, finding F12, describes "
               "the pinned code)"]


def _require_hooks():
    sys.path.insert(0, os.path.join(os.path.dirname(os.path.dirname(os.path.abspath(__file__))), "lib"))
    import vlib
    marker = os.path.join(vlib.REPO, "lib", "common", "cpr", "verif_on.go")
    if not os.path.exists(marker):
        print("C19: the verification hooks are missing in %s (no lib/common/cpr/verif_on.go).\n"
              "     Apply them with: git -C %s apply %s\n"
              "     or point VERIF_REPO at a worktree of knut that has them." % (
                  vlib.REPO, vlib.REPO, os.path.join(vlib.VERIF, "hooks", "0001-verif-hooks.patch")), file=sys.stderr)
        sys.exit(2)


def plan(tier, seed):
    _require_hooks()
    if tier == "quick":
        return [("C19", seed, 300, []), ("C19", seed + 7, 60, ["race"])]
    return [("C19", seed, 30000, []), ("C19", seed + 7, 3000, ["race"])]


def search_plan(seed):
    return [("C19", seed + 1000 + k, 1000, []) for k in range(3)]


def compare(c):
    """model output is the expected exit class / stdout class / census; the trace is for the spec verdict"""
    obs = (c.observed or "")
    if c.op == "C19.race":
        return " ".join(obs.split(" ")[:2]) == (c.model or "")
    head = obs.split(" trace=")[0]
    kv = dict(f.split("=", 1) for f in head.split(" ") if "=" in f)
    if (c.model or "").startswith("exit=1"):
        return "exit=%s out=%s" % (kv.get("exit"), kv.get("out")) == c.model
    return "exit=%s out=%s adds=%s printed=%s" % (kv.get("exit"), kv.get("out"), kv.get("adds"), kv.get("printed")) == c.model


def nontrivial(c):
    if c.op == "C19.race":
        return True
    nfiles = c.input.split(";files=")[-1].count("|") // 2 + 1
    tr = (c.observed or "").split(" trace=")[-1]
    evs = [e.split(":") for e in tr.split(",") if e.count(":") == 2]
    stages = set(e[0] for e in evs)
    days = set(e[2] for e in evs)
    return nfiles >= 3 or (len(stages) >= 2 and len(days) >= 3)


def _max_loads(graph):
    """the largest number of include paths from the root (file 0) to one file of an acyclic include graph"""
    inc = {}
    for item in graph.split(","):
        f, _, r = item.partition(">")
        inc[int(f)] = [int(x) for x in r.split(".") if x]
    count = {}

    def walk(f, depth):
        if depth > 50:
            return
        count[f] = count.get(f, 0) + 1
        for g in inc.get(f, []):
            walk(g, depth + 1)
    walk(0, 0)
    return max(count.values()) if count else 0


def distribution(cases):
    d = {"kind": {}, "cmd": {}, "files": {}, "exit": {}, "events_total": 0, "max_stages": 0, "max_days": 0,
         "race_runs": 0, "races": 0, "hangs": 0, "include_graphs": {"ok": 0, "cycle": 0, "max_loads_of_one_file": 0}}
    for c in cases:
        kv = dict(f.split("=", 1) for f in c.input.split(";files=")[0].split(";") if "=" in f)
        if c.op == "C19.race":
            d["race_runs"] += 1
            d["races"] += 1 if "race=1" in (c.observed or "") else 0
            continue
        d["kind"][kv.get("kind")] = d["kind"].get(kv.get("kind"), 0) + 1
        if "graph" in kv:
            g = d["include_graphs"]
            g[kv.get("kind")] = g.get(kv.get("kind"), 0) + 1
            if kv.get("kind") == "ok":
                g["max_loads_of_one_file"] = max(g["max_loads_of_one_file"], _max_loads(kv["graph"]))
        d["cmd"][kv.get("cmd")] = d["cmd"].get(kv.get("cmd"), 0) + 1
        nf = str(c.input.split(";files=")[-1].count("|") // 2 + 1)
        d["files"][nf] = d["files"].get(nf, 0) + 1
        okv = dict(f.split("=", 1) for f in (c.observed or "").split(" trace=")[0].split(" ") if "=" in f)
        d["exit"][okv.get("exit", "?")] = d["exit"].get(okv.get("exit", "?"), 0) + 1
        d["hangs"] += 1 if okv.get("exit") == "HANG" else 0
        evs = [e.split(":") for e in (c.observed or "").split(" trace=")[-1].split(",") if e.count(":") == 2]
        d["events_total"] += len(evs)
        if evs:
            d["max_stages"] = max(d["max_stages"], len(set(int(e[0]) % 1000 for e in evs)))
            d["max_days"] = max(d["max_days"], len(set(e[2] for e in evs)))
    return d


TECHNIQUE = ("Coq proof about labelled transition systems of cpr.Seq (under conc's cancel-on-error/first-error pool) and of the "
             "loader, by induction over arbitrary schedules; a verified trace checker run on hook traces of the real binary under "
             "perturbed schedules; census of loaded directives; the Go race detector for memory-level races")
LEVEL_TEXT = ("Theorems C19_ownership, C19_order, C19_no_loss_dup, C19_deadlock_free, C19_terminates, C19_error, C19_seq_refines "
              "(for every number of stages and items, every failure oracle and every schedule) are proved in Coq, closed under "
              "the global context.  The trace checker is exact: trace_ok_sound / trace_ok_spec_accepts (it decides the "
              "declarative specification), trace_ok_complete (it accepts the trace of every run), C19_trace_ok_exact (every "
              "accepted event list is the trace of a run from the initial state, for some number of items and some oracle) "
              "and C19_trace_exact (for given n, m and oracle the traces of the runs are exactly the accepted lists that "
              "respect the oracle).  For that, trace_ok now also checks the back-pressure of the unbuffered channels (stage i "
              "begins item k only after stage i+j has ended k-j items); trace_ok_loose_exact_refuted exhibits an event list "
              "that the earlier checker accepted and no run emits.  The loader is modelled twice: with one consumer "
              "(C19_loader_terminates, C19_load_multiset, C19_loader_cycle_unbounded) and as journal.FromPath's three stages - "
              "parser tasks, model.FromStream's dispatcher with its inner pool of conversion tasks, the builder: "
              "C19_frompath_terminates (at most 3W+4 effective steps; no reachable state blocks and the workers all return, "
              "from closure alone, whatever fails in parsing and conversion), C19_frompath_loads_once (an error-free return "
              "has added every file's directives to the builder exactly once), C19_frompath_error (the returned error is that "
              "of a stage function that failed; any failure is reported), C19_frompath_nodrain_refuted (if FromStream returns "
              "at its first error a parser blocks in Push forever) and C19_frompath_builder_error_refuted (a failing "
              "Builder.Add would block the conversion tasks forever; unreachable today, findings/C19-builder-error-latent-hang.md).  "
              "Model/PipeFromPathCycle.v is the same system on an arbitrary finite include graph, with parser tasks that carry "
              "their ancestor chain as syntax.parseRec does (a task whose file is among its ancestors fails with `include "
              "cycle`, which cancels the errgroup; no set of loaded files: a diamond spawns two tasks for the same file): "
              "C19_frompath_cycle_terminates (the visits are exactly the include paths from the root whose proper prefix is "
              "simple - simple paths and their one-edge cycle closings; every schedule makes at most 6|visits|+3 effective steps; "
              "never more parser tasks than visits; no reachable state blocks and the workers return), "
              "C19_frompath_cycle_is_error (a cycle reachable from the root: once the parser stage has returned the first "
              "error of the outer pool is a genuine parser-stage error, FromPath never returns the builder, and every "
              "reported cycle is the chain of a real include path from the root back into itself), "
              "C19_frompath_diamond_loads_twice (an error-free return: no cycle is reachable and the files added to the builder "
              "are, as a multiset, the last files of the simple paths from the root; _ranked: on an acyclic graph that is the "
              "include tree, i.e. the unique visit list of C05_layout, and nothing fails if no stage function does) and "
              "C19_frompath_load_once_refuted (with the global load-once set of seeded change C06c two schedules of one cyclic "
              "graph return `every file once` and `include cycle`).  "
              "The tie to the binary: the extracted trace_ok accepts the hook trace of every Seq invocation of every run, "
              "successful runs are complete (every stage saw every day) and load exactly the generated directives, failing "
              "runs exit non-zero with empty stdout within the timeout, include graphs that are not trees load every file once "
              "per simple path (census = the extracted model's) or fail on a reachable cycle, and the race detector reports nothing.")
LEVEL_NOTE = ("Partial: data races on Go memory are only searched for (race detector, sampled schedules); Go channel, select and "
              "context semantics are assumed as modelled (unbuffered send/receive is a rendezvous: the back-pressure clause "
              "of trace_ok rests on it); C19_frompath_terminates assumes that Builder.Add does not fail (true of the code: "
              "Add rejects only directive types that ParseDirective never produces) - the refuted variant shows the "
              "assumption is needed, and C19_frompath_cycle_terminates / _cycle_is_error make the same assumption for "
              "deadlock freedom and for `the first error is the parser stage's`; the step bound holds for every oracle.  In "
              "the graph model file identity is a number: that filepath.Clean/path.Join map two spellings of a path to one key "
              "is sampled by the generator (`./` prefixes, sub-directories) and modelled in Model/Loader.v (C14), not here.  "
              "Which of several errors FromPath returns when a cycle and other failures coincide is left open (some genuine "
              "parser-stage error).  Trusted: Coq kernel, extraction, drv_c19.ml, harness c19.go, the add-only hooks.")
