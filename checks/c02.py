"""C02 the balance report equals an independent ledger computation"""
PID = "C02"
THEOREM_FILE = "Properties/C02.v"
NEEDS_KNUT = True

RULE = ("generated accepted journals (accounts up to 5 levels deep, 1-4 commodities, accruals, negative/zero amounts) x 2 unvalued "
        "flag sets each: window/--last/6 intervals, --diff, --close, --account/--commodity filters, -m level[:suffix],regex with "
        "level 0..3 and suffix 0..2, --remap; `knut balance --csv -a`.  The spec verdict recomputes every CSV row from the flat list "
        "of dated postings with Spec.LedgerSpec.ledger_csv (closed form, no processors/report tree/renderer) and demands equality "
        "with the binary's CSV, row by row; the model's CSV must also be byte-identical.  Non-trivial: report produced and at least "
        "one non-default flag among map/remap/filter/close/diff/last; distinct by input.")
TRUSTED_BASE = [
    "Coq 8.16.1 kernel",
    "extraction (ExtrOcamlBasic only), OCaml 4.13.1, drv_journal.ml/drv_c02.ml",
    "harness journal.go/knutrun.go/c02.go",
    "Spec/LedgerSpec.v shares with the model: accounts, exact decimal addition, shorten/remap, the regex subset, new_partition (C11)",
    "Model/*.v hand-written, tied to the code by byte-identical CSV on every run",
]
ASSUMPTIONS = ["regular expressions restricted to ^literal$ forms", "--to always passed explicitly", "-a always passed (sibling order without -a is C06's concern)"]
TECHNIQUE = ("Coq: closed-form ledger specification + refinement proof of the stateful pipeline model to it; spec evaluated on the "
             "binary's CSV and byte-exact model/implementation correspondence on generated journals")
LEVEL_TEXT = ("Proved in Coq at full strength (Properties/C02.v): C02_cells -- every cell of the model's report equals the closed-form "
              "ledger sum -- and C02_rows -- the report has a row exactly for the accounts the ledger computation lists (ledger_row) -- for "
              "every journal, window, interval, --last, filter, mapping, remap, with and without --close.  With --close the stateful "
              "CloseAccounts processor is thereby proved equal to Spec.LedgerSpec.closing_entries (at each period start the amounts the "
              "non-A/L accounts accumulated since the previous period start move to Equity:Equity).  The --close case assumes the posting "
              "accounts are ones the parser can produce (no colon or NUL byte inside a segment; C02_cells_unsyntactic_refuted shows the "
              "model, not knut, needs it).  Not proved: the text of the CSV (order of the row blocks, commodity lines, totals, delta, "
              "printed numbers) = ledger_csv; that is compared with the real binary's CSV and the model's CSV on every run, which is how "
              "the Shorten aliasing defect (fixed in /repo 2f5b0b6) was found.")
LEVEL_NOTE = ("Trusted: kernel, extraction, harness, the hand-written model (sampled tie to the code). Parser not in the loop (C07). "
              "Cells are compared as rational values (decimal addition is exact); their printed form is part of the byte comparison only. "
              "Rows are the nodes of the report trees; that the renderer emits every node is part of the byte comparison only.")


def plan(tier, seed):
    if tier == "quick":
        return [("C02", seed, 350, [])]
    return [("C02", seed + k, 3000, []) for k in range(10)]


def search_plan(seed):
    return [("C02", seed + 100 + k, 1500, []) for k in range(3)]


def nontrivial(c):
    if not c.observed.startswith("OK "):
        return False
    cfg = dict(kv.split("=", 1) for kv in c.input.split(" | ")[0].split())
    return any([cfg["map"] != "-", cfg["remap"] != "-", cfg["acc"] != "-", cfg["com"] != "-", cfg["close"] == "1",
                cfg["diff"] == "1", cfg["last"] != "0"])


def distribution(cases):
    d = {"ok": 0, "err": 0, "close": 0, "diff": 0, "last": 0, "mapped": 0, "suffix": 0, "level0": 0, "remap": 0, "acc_filter": 0, "com_filter": 0}
    for c in cases:
        d["ok" if c.observed.startswith("OK") else "err"] += 1
        cfg = dict(kv.split("=", 1) for kv in c.input.split(" | ")[0].split())
        d["close"] += cfg["close"] == "1"
        d["diff"] += cfg["diff"] == "1"
        d["last"] += cfg["last"] != "0"
        d["mapped"] += cfg["map"] != "-"
        d["suffix"] += ":" in cfg["map"].split(",")[0]
        d["level0"] += any(m.split(",")[0].split(":")[0] == "0" for m in cfg["map"].split("|")) if cfg["map"] != "-" else 0
        d["remap"] += cfg["remap"] != "-"
        d["acc_filter"] += cfg["acc"] != "-"
        d["com_filter"] += cfg["com"] != "-"
    return d
