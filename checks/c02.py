"""C02 the balance report equals an independent ledger computation"""
PID = "C02"
THEOREM_FILE = "Properties/C02.v"
NEEDS_KNUT = True

RULE = ("generated accepted journals (accounts up to 5 levels deep, 1-4 commodities, accruals, negative/zero amounts) x 2 unvalued "
        "flag sets each: window/--last/6 intervals, --diff, --close, --account/--commodity filters, -m level[:suffix],regex with "
        "level 0..3 and suffix 0..2, --remap; `knut balance --csv -a`.  The spec verdict recomputes every CSV row from the flat list "
        "of dated postings with Spec.LedgerSpec.ledger_csv (closed form, no processors/report tree/renderer) and compares it with "
        "the binary's CSV in three steps: the header; the SET of rows in both directions (a ledger row -- named by its full account "
        "path from Spec.BalanceTableSpec.ledger_row_paths -- that the report does not have; a report row that no ledger row "
        "explains), including the Total (A+L), Total (E+I+E) and Delta rows; then every commodity line and every cell of every row "
        "(exact decimals).  The model's CSV must also be byte-identical.  input_distribution.checked counts the rows, lines and "
        "cells compared this run.  Non-trivial: report produced and at least one non-default flag among "
        "map/remap/filter/close/diff/last; distinct by input.")
TRUSTED_BASE = [
    "Coq 8.16.1 kernel",
    "extraction (ExtrOcamlBasic only), OCaml 4.13.1, drv_journal.ml/drv_c02.ml",
    "harness journal.go/knutrun.go/c02.go",
    "Spec/LedgerSpec.v shares with the model: accounts, exact decimal addition, shorten/remap, the regex subset, new_partition (C11)",
    "Model/*.v hand-written, tied to the code by byte-identical CSV on every run",
]
ASSUMPTIONS = ["regular expressions restricted to ^literal$ forms", "--to always passed explicitly", "-a always passed (sibling order without -a is C06's concern)"]
TECHNIQUE = ("Coq: closed-form ledger specification + refinement proof of the stateful pipeline model to it; spec evaluated on the "
             "binary's CSV and byte-exact model/implementation correspondence on generated journals")
LEVEL_TEXT = ("Proved in Coq at full strength (Properties/C02.v), for every journal, window, interval, --last, filter, mapping, remap, "
              "with and without --close.  Report TREE: C02_cells -- every cell of the model's report equals the closed-form ledger sum -- "
              "and C02_rows -- the report has a node exactly for the accounts the ledger computation lists (ledger_row).  With --close the "
              "stateful CloseAccounts processor is thereby proved equal to Spec.LedgerSpec.closing_entries.  TABLE that `balance` prints "
              "(row list of Renderer.Render before text/CSV rendering): C02_table_layout -- separator, header, separator, per top-level "
              "account the blocks of its sorted subtree and an empty line, Total (A+L), separator, the same for E/I/E, Delta, separator, "
              "for every report and render configuration; C02_table_rows -- one block per account row, pairwise distinct, in the order "
              "of the sorted trees, exactly for the accounts ledger_row lists; C02_table_cells -- the block of an account has one line "
              "per commodity with a non-zero cell (ascending; name = last segment, indent 2 per level) and the cell of column j is a "
              "decimal of the value sign * ledger period amount, accumulated over columns 0..j unless --diff (exact, before rounding: "
              "C17); C02_table_cells_render -- the same for the renderer alone, valued or not, with --show-commodities (per commodity) "
              "or without (the sum over commodities).  Hypothesis of the --close cases and of C02_table_cells: the posting accounts are "
              "ones the parser can produce (postings_syntactic; C02_cells_unsyntactic_refuted shows the model, not knut, needs it).  "
              "C02_table_totals -- the numbers of the Total (A+L) / Total (E+I+E) / Delta lines are the ledger amounts over all A/L "
              "accounts / all others (negated) / all accounts.  "
              "Which lines: C02_report_keys -- every amount of the report is stored under (end date of a shown period, commodity), never "
              "under the zero date or a date that is not a column; for --close this is C02_close_stage_dates (CloseAccounts only appends, "
              "on a period start, transactions dated on that day; a period start is aligned to its own period end).  "
              "C02_commodity_line_iff -- the block of an account lists commodity c iff the ledger has a non-zero PERIOD amount for "
              "(account, c) in some column (both directions; not: a non-zero cumulated cell).  C02_total_lines -- Total (A+L) / Total "
              "(E+I+E) list exactly the commodities with a non-zero period amount over all A/L / all other accounts in some column, "
              "ascending; Delta lists the union of the two lists, with the numbers of C02_table_totals.  "
              "CSV text (with and without -a; the check always passes -a): C02_number_text -- Decimal.String is a function of the value; "
              "C02_table_row_order -- the account rows are LedgerSpec.all_rows (A/L, then the others); C02_csv_records -- the records of "
              "the CSV renderer on the table are the rows of ledger_csv, field by field; C02_csv_is_ledger_csv -- balance_csv cfg ds = "
              "COk text -> text = the rows of ledger_csv joined by commas and newlines.  "
              "Without -a an unvalued report has no weights, the stable sort moves nothing and the order is the same (proved).  "
              "Not proved: encoding/csv quoting (outside the model, see Table.v), and -- as everywhere -- that the model is the code: the binary's CSV, "
              "the model's CSV and ledger_csv are compared on every run, which is how the Shorten aliasing defect (fixed in /repo 2f5b0b6) "
              "was found.")
LEVEL_NOTE = ("Trusted: kernel, extraction, harness, the hand-written model (sampled tie to the code). Parser not in the loop (C07). "
              "Cells are compared as rational values (decimal addition is exact); the table-level theorems give the decimal in the "
              "table cell up to cmp = 0, its printed form is part of the byte comparison (and of C17). "
              "The row set of the binary's CSV is checked against the ledger in both directions on every run, rows named by full path; "
              "rows carry only their last segment in the CSV, so a row is identified by its position in depth-first order and its name.")

def plan(tier, seed):
    if tier == "quick":
        return [("C02", seed, 350, [])]
    return [("C02", seed + k, 3000, []) for k in range(10)]


def search_plan(seed):
    return [("C02", seed + 100 + k, 1500, []) for k in range(3)]


def nontrivial(c):
    if not c.observed.startswith("OK "):
        return False
    cfg = dict(kv.split("=", 1) for kv in c.input.split(" | ")[0].split())
    return any([cfg["map"] != "-", cfg["remap"] != "-", cfg["acc"] != "-", cfg["com"] != "-", cfg["close"] == "1",
                cfg["diff"] == "1", cfg["last"] != "0"])


def distribution(cases):
    d = {"ok": 0, "err": 0, "close": 0, "diff": 0, "last": 0, "mapped": 0, "suffix": 0, "level0": 0, "remap": 0, "acc_filter": 0, "com_filter": 0}
    # what the spec verdict compared with the ledger computation (cases whose verdict is ok: every row, line and cell below was
    # found equal; the row set was compared in both directions)
    chk = {"reports": 0, "account_rows": 0, "total_and_delta_rows": 0, "lines": 0, "cells": 0, "nonblank_cells": 0,
           "max_rows_in_a_report": 0, "reports_without_account_rows": 0}
    for c in cases:
        d["ok" if c.observed.startswith("OK") else "err"] += 1
        cfg = dict(kv.split("=", 1) for kv in c.input.split(" | ")[0].split())
        d["close"] += cfg["close"] == "1"
        d["diff"] += cfg["diff"] == "1"
        d["last"] += cfg["last"] != "0"
        d["mapped"] += cfg["map"] != "-"
        d["suffix"] += ":" in cfg["map"].split(",")[0]
        d["level0"] += any(m.split(",")[0].split(":")[0] == "0" for m in cfg["map"].split("|")) if cfg["map"] != "-" else 0
        d["remap"] += cfg["remap"] != "-"
        d["acc_filter"] += cfg["acc"] != "-"
        d["com_filter"] += cfg["com"] != "-"
        if c.observed.startswith("OK ") and c.spec == "ok":
            lines = [l.split(",") for l in c.observed[3:].split("\\n") if l]
            chk["reports"] += 1
            rows = 0
            for l in lines[1:]:
                chk["lines"] += 1
                if l[0] in ("Total (A+L)", "Total (E+I+E)", "Delta"):
                    chk["total_and_delta_rows"] += 1
                elif l[0] != "":
                    rows += 1
                chk["cells"] += max(len(l) - 2, 0)
                chk["nonblank_cells"] += sum(1 for x in l[2:] if x != "")
            chk["account_rows"] += rows
            chk["max_rows_in_a_report"] = max(chk["max_rows_in_a_report"], rows)
            chk["reports_without_account_rows"] += rows == 0
    d["checked"] = chk
    return d
