"""C11 reporting periods partition the window (date.NewPartition / Align / StartOf / EndOf)"""
PID = "C11"
THEOREM_FILE = "Properties/C11.v"
NEEDS_KNUT = True

RULE = ("random windows (month ends, leap days, far years, inverted, single-day) x 6 intervals x --last in "
        "{0,1,2,3,5,12,100} through date.NewPartition, each with ~20 Align/Contains probes around the window and "
        "period boundaries; the requested period (--from/--to, with and without --from, inverted) against the journal's period "
        "in every relative position (nested, overlapping, touching, disjoint on either side) through Period.Clip followed by "
        "NewPartition, as cmd/flags Multiperiod.Partition combines them (op C11.clip: the clipped window must be the "
        "intersection and the periods must partition it); the header of `knut balance --csv` on small journals in shuffled, "
        "oldest-first and newest-first file order (op C11.cols: the columns must be the period ends of the requested window "
        "clipped to the journal's period as the directives define it); plus Go's AddDate/Weekday/StartOf/EndOf on a stride of calendar days; thorough adds every "
        "(s,e) in a 17-month range x 6 intervals x 5 last values and every day of years 0001-9998.  Non-trivial: the "
        "window spans at least one unit boundary (more than one period) or last > 0; distinct by input.")

TRUSTED_BASE = [
    "Coq 8.16.1 kernel, vm_compute (calendar sweeps in Proofs/CalendarSweep.v)",
    "extraction (ExtrOcamlBasic only) + OCaml 4.13.1 + drv_c11.ml string/int conversions",
    "harness c11.go (generator, time.Format of observed dates)",
    "Go's time package is modelled by Model/Date.v civil/of_civil/go_date/weekday and checked only by correspondence",
    "sort.Search modelled as first-match linear search (C11_bsearch proves the binary search equal on monotone predicates)",
]
ASSUMPTIONS = ["dates restricted to years 0001..9999 in generated cases (the theorems have no bound)",
               "time.Time values are midnight UTC, as knut's date.Date and the parser produce"]


def plan(tier, seed):
    if tier == "quick":
        return [("C11", seed, 4000, []),
                ("C11cal", seed, 6000, ["0001-01-01", "601"]),
                ("C11cal", seed + 1, 3000, ["1999-01-01", "1"]),
                ("C11clip", seed, 2000, []), ("C11cols", seed, 250, [])]
    return [("C11", seed, 60000, []),
            ("C11clip", seed, 100000, []), ("C11cols", seed, 10000, []),
            ("C11sweep", seed, 0, ["2019-11-01", "2021-03-31"]),
            ("C11cal", seed, 3651700, ["0001-01-01", "1"])]


def search_plan(seed):
    return [("C11", seed + 1000 + k, 20000, []) for k in range(3)]


def nontrivial(c):
    if c.op == "C11.part":
        return ("," in c.observed) or not c.input.endswith(" 0")
    if c.op == "C11.align":
        return True
    return True


def distribution(cases):
    d = {"intervals": {}, "last>0": 0, "inverted_or_empty": 0, "panic": 0, "periods_total": 0}
    for c in cases:
        if c.op != "C11.part":
            continue
        f = c.input.split()
        d["intervals"][f[2]] = d["intervals"].get(f[2], 0) + 1
        if f[3] != "0":
            d["last>0"] += 1
        if c.observed == "":
            d["inverted_or_empty"] += 1
        elif c.observed == "PANIC":
            d["panic"] += 1
        else:
            d["periods_total"] += c.observed.count(",") + 1
    return d

TECHNIQUE = "Coq proof over a hand-written Gallina model of date.go (induction on the NewPartition loop, calendar facts by an era sweep lifted by periodicity) + model/implementation correspondence on generated and swept inputs through extraction"
LEVEL_TEXT = ("Theorems C11_partition/C11_last/C11_align_all/C11_contains/C11_once/C11_no_fuel_exhaustion (Coq, closed under the "
              "global context) state the property for every window, interval and --last value with no bound on dates; "
              "C11_clip_intersection / C11_clip_empty: the window that is partitioned, the requested period clipped to the journal's, "
              "contains exactly the dates of both (no date when they do not meet); "
              "C11_model_meets_spec / C11_clip_meets_spec prove that the executable statements evaluated on the Go output hold of the model. "
              "The model is tied to lib/common/date/date.go and Go's time package by running both on the same inputs on every check.")
LEVEL_NOTE = ("Trusted: Coq kernel + vm_compute; extraction and the OCaml driver; the Go harness; that Model/Date.v is date.go "
              "(hand-written, validated by the correspondence: quick 4000 windows + 9000 calendar days, thorough 1.6M windows and "
              "every day of years 1-9998). Of cmd/flags only Multiperiod.Partition's Clip + NewPartition is modelled here (flag values: C14's Model/Flags.v); the journal's period is "
              "Spec.LedgerSpec.journal_period (proved equal to the builder's in C02's development).")
