"""C06 output is a function of the input alone"""
PID = "C06"
THEOREM_FILE = "Properties/C06.v"
EXTRA_THEOREM_FILES = ["Properties/C06reg.v"]
NEEDS_KNUT = True

RULE = ("tie-rich generated journals (few days, many same-day directives, duplicated transactions, several price paths) spread over "
        "an include tree of up to 5 files. C06.repeat: one of balance (valued or not, with and without -a), print, transcode, check is "
        "run 8 times with GOMAXPROCS in {1,2,16} and, when the verif hooks are present, different KNUT_VERIF_SCHED seeds; all stdouts "
        "and exit classes must be identical. C06.order: `knut print` is run 6 times in the same way (all runs identical), and its "
        "stdout must equal, byte for byte, the extracted model Source.print_tagged = Build with the source sort (build_sorted) + "
        "journal.Print, evaluated on the directives tagged with (path of their file, position) and handed over in REVERSED order. "
        "C06.reg: `knut register --color=false` with a generated flag combination (window, interval, --last, -v, -c -d -a -s, "
        "-m -r, --source --dest --commodity, --digits, -k) on a journal with few days, many same-day transactions and copies "
        "that share (date, Dest, commodity) but differ in source or description, descriptions longer than 100 bytes, spread over an "
        "include tree; run 6 times (all runs identical: stdout bytes and exit class) and the first run must equal, byte for byte, "
        "the extracted model Register.register_text on the directives in source order (for the nil-Dest panic of a level-0 -m rule, "
        "at most 5% of the cases: the exit class). "
        "Non-trivial: every C06.repeat case (the generator always produces same-day ties); a C06.order case when more than one file "
        "holds directives; distinct by input; a C06.reg case when the table has at least two data rows or the run panics.")
TRUSTED_BASE = ["Coq 8.16.1 kernel", "extraction + drv_c05.ml (C06.repeat) + drv_c06.ml (C06.order) + drv_c06reg.ml (C06.reg; parses nothing of knut's output) + drv_journal.ml (decoder)",
                "harness c05.go (obsC06: repeated runs, include-tree writer) and c06.go (obsC06Order; layoutPath = the path under which "
                "knut knows an included file) and c06reg.go (obsC06Reg; RegCfg <-> argv)",
                "register: Valuation is not part of the model's key (constant per run); a description cut inside a multi-byte "
                "character (desc[:100]) is not generated (Model/Table.v counts runes of valid UTF-8 only); --color and --cpuprofile "
                "are outside",
                "Go scheduler and map seeds are sampled, not enumerated"]
ASSUMPTIONS = ["float summation order in `portfolio weights` is outside this check (C20)"]
TECHNIQUE = ("Coq: (A) journal.Builder on directives tagged with their source position, Build with the stable source sort of "
             "69e47a8 (Model/Source.v); a stable sort by a strict weak order is the unique solution of its contract and depends only on "
             "the per-class subsequences (Proofs/StableSort.v); Build = the builder of Model/Journal.v on the source-ordered sequence "
             "(Proofs/DeterminismProofs.v). (B) permutation invariance of every model function that stands for a Go map range "
             "(Proofs/MapOrderProofs.v, InferOrder.v, PriceProofs.v). (C) `knut register`: an executable model of the command "
             "(Model/Register.v) on the pipeline stages of Model/Pipeline.v; the report is one association list sorted by an "
             "injective key encoding, so commuting insertions give Leibniz-equal reports and the generic fold-permutation lemma of "
             "C05 applies with equality; the stage relations of Proofs/OrderPipeline.v are reused; the row comparison is a good_cmp "
             "(Proofs/TxnOrder.v) and total on the keys of a node, so the stable sort is order-free (Proofs/StableSort.v). Check: repeated runs of the binary under varied GOMAXPROCS / "
             "schedule perturbation")
LEVEL_TEXT = ("Theorems (Properties/C06.v, all closed under the global context). "
              "A, arrival order: C06_arrival -- for every permutation of the tagged directives (equal source position => equal "
              "directive) Build() returns the same journal (Leibniz equality of all day lists and of the period); "
              "C06_arrival_classes / C06_arrival_files -- same for whole files arriving as batches in any order, accrual parts "
              "(several transactions at one offset) and files included twice covered; C06_build_is_source_order_load -- that journal "
              "is the one Model/Journal.v builds from the directives in (path, offset) order; C06_commands / "
              "C06_command_is_source_order -- balance (table, csv, text), check, print, transcode, portfolio weights and returns are "
              "functions of that journal (C06_*_factor: they are the commands of Model/Cli*.v after `load`), hence equal outputs; "
              "C06_single_file / C06_in_source_order -- one file keeps its textual order, the existing model is the canonical-order "
              "instance; C06_slice_stable_meets_contract / _unique -- the model's insertion sort is the unique list satisfying the "
              "contract of sort.SliceStable; C06_touch_then_build; C06_pinned_arrival_refuted -- without the sort two arrival orders "
              "print differently (F15). "
              "B, map iteration order (model functions that stand for a Go `range` over a map are invariant under permutation of the "
              "entries): C06_map_lookup; C06_prices_order (Normalize; pinned DFS: C06_dfs_refuted, F3); C06_valuate_loop and "
              "C06_close_loop (same adjustment / closing transactions as a multiset, same failure class); C06_report_totals, "
              "C06_children_order, C06_sort_total (every report total is independent of the insertion / children order, as "
              "rationals); C06_weight_order (weights are the same decimal); C06_sort_siblings, C06_sort_top (the sort with the name "
              "tie-break of bffd269 gives one list for every enumeration of the children map, and it is the model's list; "
              "C06_pinned_sort_refuted, F6); C06_infer_candidates; C06_weights_adds. "
              "C, knut register (Properties/C06reg.v, model Model/Register.v tied byte for byte by C06.reg): "
              "C06_register_order_irrelevant -- for every register and text configuration a journal and any permutation of it build the "
              "same table and print the same bytes, or both fail (hypotheses of C05: parser-shaped accounts, no conflicting same-day "
              "prices); C06_register_insert_commutes; C06_register_factor (flags, loader, a function of the journal: with C06_arrival "
              "the arrival order of the files does not matter); C06_register_map_order -- the rows of a date are the same for every "
              "enumeration of the node's map (repaired comparison of 4dc8b78: C06_register_cmp_good, C06_register_cmp_separates); "
              "C06_register_map_order_pinned_refuted (the comparison of a319b05: two enumerations, two tables -- the defect found and "
              "fixed); C06_register_total_partial -- without a level-0 -m rule the command returns bytes or an error, never a panic; "
              "C06_register_report_total; C06_register_panic_class; C06_register_total_refuted (-m 0,<rx> hides the Dest account and "
              "Render dereferences nil: an observation, register is not in C14's command list); C06_register_matches_balance -- for agreeing "
              "configurations (same window, valuation, mapping, remap; --dest/--commodity = balance's --account/--commodity; no "
              "--source; commodities shown; --close=false) the amounts shown in the register rows of a date, Dest and commodity sum "
              "to the amount the balance report stores for that account, commodity and period end (the `balance --diff` cell), by "
              "the posting-pair invariant with accounts (Proofs/PairAccounts.v); C06_register_rows_sum. "
              "Partial: the Go scheduler and map seeds are sampled by the check, not enumerated; for the Valuate/CloseAccounts loops "
              "byte equality of the final report is proved only through the totals (not through the renderer); which erroneous "
              "directive an error message names (stderr) is outside.")
LEVEL_NOTE = ("Trusted: kernel, extraction, harness; Go runtime sampled. Outside the rational model: float64 summation order in "
              "`portfolio weights`/`returns` (the commands are run repeatedly by this check -- the tie-break defect of SortWeighted was "
              "found that way and fixed in 68dd52f -- but their float arithmetic has no theorem). `knut register`: C06_register_total holds only without level-0 rules "
              "(_partial/_refuted); the error kinds are named in a comment, not proved exhaustive.")


def plan(tier, seed):
    if tier == "quick":
        return [("C06", seed, 200, []), ("C06order", seed, 80, []), ("C06imp", seed, 110, []), ("C06reg", seed, 300, [])]
    return [("C06", seed + k, 1500, []) for k in range(4)] + [("C06order", seed + k, 600, []) for k in range(4)] + \
        [("C06imp", seed + k, 1100, []) for k in range(4)] + [("C06reg", seed + k, 2500, []) for k in range(4)]


def search_plan(seed):
    return [("C06", seed + 100, 400, []), ("C06order", seed + 100, 200, []), ("C06imp", seed + 100, 330, []), ("C06reg", seed + 100, 600, [])]


def compare(c):
    if c.op == "C06.reg":
        # observed "<runs verdict> | <OK stdout | ERR | PANIC ..>": the binary's first run against Register.register_text;
        # for a panic the classes are compared (model "PANIC", observed "PANIC <runtime message>")
        parts = c.observed.split(" | ", 1)
        if len(parts) != 2:
            return False
        if c.model == "PANIC":
            return parts[1].startswith("PANIC")
        return c.model == parts[1]
    if c.op == "C06.order":
        # observed "<runs verdict> | <OK stdout | ERR | PANIC ..>": the binary's print against build_sorted + print_journal
        parts = c.observed.split(" | ", 1)
        return len(parts) == 2 and c.model == parts[1]
    return True


def _reg_class(c):
    parts = c.observed.split(" | ", 1)
    o = parts[1] if len(parts) == 2 else ""
    if o.startswith("OK "):
        # data rows = lines that start with "| " minus the header
        rows = o.count("\\n| ") + (1 if o.startswith("OK | ") else 0) - 1
        return "OK-empty" if rows <= 0 else ("OK-1row" if rows == 1 else "OK")
    return o.split(" ")[0] if o else "?"


def nontrivial(c):
    if c.op == "C06.reg":
        # a table with at least two data rows, or the nil-Dest panic
        return _reg_class(c) in ("OK", "PANIC")
    if c.op == "C06.order":
        # more than one file holds directives
        head = c.input.split(" | ")[0].split(" # ")
        return len(head) == 3 and len(set(head[2].split(","))) > 1
    return True


def distribution(cases):
    d = {}
    for c in cases:
        k = c.input.split(" ")[0]
        if c.op == "C06.reg":
            k = "register:" + _reg_class(c)
        d[k] = d.get(k, 0) + 1
    return d
