"""C06 output is a function of the input alone"""
PID = "C06"
THEOREM_FILE = "Properties/C06.v"
EXTRA_THEOREM_FILES = ["Properties/C06reg.v"]
NEEDS_KNUT = True

RULE = ("tie-rich generated journals (few days, many same-day directives, duplicated transactions, several price paths) spread over "
        "an include tree of up to 5 files. C06.repeat: one of balance (valued or not, with and without -a), print, transcode, check is "
        "run 8 times with GOMAXPROCS in {1,2,16} and, when the verif hooks are present, different KNUT_VERIF_SCHED seeds; all stdouts "
        "and exit classes must be identical. C06.order: `knut print` is run 6 times in the same way (all runs identical), and its "
        "stdout must equal, byte for byte, the extracted model Source.print_tagged = Build with the source sort (build_sorted) + "
        "journal.Print, evaluated on the directives tagged with (path of their file, position) and handed over in REVERSED order. "
        "Non-trivial: every C06.repeat case (the generator always produces same-day ties); a C06.order case when more than one file "
        "holds directives; distinct by input.")
TRUSTED_BASE = ["Coq 8.16.1 kernel", "extraction + drv_c05.ml (C06.repeat) + drv_c06.ml (C06.order) + drv_journal.ml (decoder)",
                "harness c05.go (obsC06: repeated runs, include-tree writer) and c06.go (obsC06Order; layoutPath = the path under which "
                "knut knows an included file)",
                "Go scheduler and map seeds are sampled, not enumerated"]
ASSUMPTIONS = ["float summation order in `portfolio weights` is outside this check (C20)"]
TECHNIQUE = ("Coq: (A) journal.Builder on directives tagged with their source position, Build with the stable source sort of "
             "69e47a8 (Model/Source.v); a stable sort by a strict weak order is the unique solution of its contract and depends only on "
             "the per-class subsequences (Proofs/StableSort.v); Build = the builder of Model/Journal.v on the source-ordered sequence "
             "(Proofs/DeterminismProofs.v). (B) permutation invariance of every model function that stands for a Go map range "
             "(Proofs/MapOrderProofs.v, InferOrder.v, PriceProofs.v). Check: repeated runs of the binary under varied GOMAXPROCS / "
             "schedule perturbation")
LEVEL_TEXT = ("Theorems (Properties/C06.v, all closed under the global context). "
              "A, arrival order: C06_arrival -- for every permutation of the tagged directives (equal source position => equal "
              "directive) Build() returns the same journal (Leibniz equality of all day lists and of the period); "
              "C06_arrival_classes / C06_arrival_files -- same for whole files arriving as batches in any order, accrual parts "
              "(several transactions at one offset) and files included twice covered; C06_build_is_source_order_load -- that journal "
              "is the one Model/Journal.v builds from the directives in (path, offset) order; C06_commands / "
              "C06_command_is_source_order -- balance (table, csv, text), check, print, transcode, portfolio weights and returns are "
              "functions of that journal (C06_*_factor: they are the commands of Model/Cli*.v after `load`), hence equal outputs; "
              "C06_single_file / C06_in_source_order -- one file keeps its textual order, the existing model is the canonical-order "
              "instance; C06_slice_stable_meets_contract / _unique -- the model's insertion sort is the unique list satisfying the "
              "contract of sort.SliceStable; C06_touch_then_build; C06_pinned_arrival_refuted -- without the sort two arrival orders "
              "print differently (F15). "
              "B, map iteration order (model functions that stand for a Go `range` over a map are invariant under permutation of the "
              "entries): C06_map_lookup; C06_prices_order (Normalize; pinned DFS: C06_dfs_refuted, F3); C06_valuate_loop and "
              "C06_close_loop (same adjustment / closing transactions as a multiset, same failure class); C06_report_totals, "
              "C06_children_order, C06_sort_total (every report total is independent of the insertion / children order, as "
              "rationals); C06_weight_order (weights are the same decimal); C06_sort_siblings, C06_sort_top (the sort with the name "
              "tie-break of bffd269 gives one list for every enumeration of the children map, and it is the model's list; "
              "C06_pinned_sort_refuted, F6); C06_infer_candidates; C06_weights_adds. "
              "Partial: the Go scheduler and map seeds are sampled by the check, not enumerated; for the Valuate/CloseAccounts loops "
              "byte equality of the final report is proved only through the totals (not through the renderer); which erroneous "
              "directive an error message names (stderr) is outside.")
LEVEL_NOTE = ("Trusted: kernel, extraction, harness; Go runtime sampled. Outside the rational model: float64 summation order in "
              "`portfolio weights`/`returns` (the commands are run repeatedly by this check -- the tie-break defect of SortWeighted was "
              "found that way and fixed in 68dd52f -- but their float arithmetic has no theorem).")


def plan(tier, seed):
    if tier == "quick":
        return [("C06", seed, 200, []), ("C06order", seed, 80, []), ("C06imp", seed, 110, []), ("C06reg", seed, 300, [])]
    return [("C06", seed + k, 1500, []) for k in range(4)] + [("C06order", seed + k, 600, []) for k in range(4)] + \
        [("C06imp", seed + k, 1100, []) for k in range(4)] + [("C06reg", seed + k, 2500, []) for k in range(4)]


def search_plan(seed):
    return [("C06", seed + 100, 400, []), ("C06order", seed + 100, 200, []), ("C06imp", seed + 100, 330, []), ("C06reg", seed + 100, 600, [])]


def compare(c):
    if c.op == "C06.reg":
        # observed "<runs verdict> | <OK stdout | ERR | PANIC ..>": the binary's first run against Register.register_text;
        # for a panic the classes are compared (model "PANIC", observed "PANIC <runtime message>")
        parts = c.observed.split(" | ", 1)
        if len(parts) != 2:
            return False
        if c.model == "PANIC":
            return parts[1].startswith("PANIC")
        return c.model == parts[1]
    if c.op == "C06.order":
        # observed "<runs verdict> | <OK stdout | ERR | PANIC ..>": the binary's print against build_sorted + print_journal
        parts = c.observed.split(" | ", 1)
        return len(parts) == 2 and c.model == parts[1]
    return True


def _reg_class(c):
    parts = c.observed.split(" | ", 1)
    o = parts[1] if len(parts) == 2 else ""
    if o.startswith("OK "):
        # data rows = lines that start with "| " minus the header
        rows = o.count("\\n| ") + (1 if o.startswith("OK | ") else 0) - 1
        return "OK-empty" if rows <= 0 else ("OK-1row" if rows == 1 else "OK")
    return o.split(" ")[0] if o else "?"


def nontrivial(c):
    if c.op == "C06.reg":
        # a table with at least two data rows, or the nil-Dest panic
        return _reg_class(c) in ("OK", "PANIC")
    if c.op == "C06.order":
        # more than one file holds directives
        head = c.input.split(" | ")[0].split(" # ")
        return len(head) == 3 and len(set(head[2].split(","))) > 1
    return True


def distribution(cases):
    d = {}
    for c in cases:
        k = c.input.split(" ")[0]
        if c.op == "C06.reg":
            k = "register:" + _reg_class(c)
        d[k] = d.get(k, 0) + 1
    return d
