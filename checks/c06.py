"""C06 output is a function of the input alone"""
PID = "C06"
THEOREM_FILE = "Properties/C06.v"
NEEDS_KNUT = True

RULE = ("tie-rich generated journals (few days, many same-day directives, duplicated transactions, several price paths) spread over "
        "an include tree of up to 5 files; one of balance (valued or not, with and without -a), print, transcode, check is run 8 "
        "times with GOMAXPROCS in {1,2,16} and, when the verif hooks are present, different KNUT_VERIF_SCHED seeds; all stdouts and "
        "exit classes must be identical.  Non-trivial: every case (the generator always produces same-day ties); distinct by input.")
TRUSTED_BASE = ["Coq 8.16.1 kernel", "extraction + drv_c05.ml", "harness c05.go (obsC06: repeated runs, include-tree writer)",
                "Go scheduler and map seeds are sampled, not enumerated"]
ASSUMPTIONS = ["float summation order in `portfolio weights` is outside this check (C20)"]
TECHNIQUE = ("Coq: invariance of every model function that stands for a Go map range under permutation of the entries; repeated runs of "
             "the binary under varied GOMAXPROCS / schedule perturbation")
LEVEL_TEXT = ("Theorems (Properties/C06.v): sums over report trees, totals and closing/adjustment generation are invariant under "
              "permutation of map entries (value level), sorting with the repaired tie-break is a function of the multiset. "
              "Schedules and map seeds of the real runtime are sampled (partial).")
LEVEL_NOTE = "Trusted: kernel, extraction, harness; Go runtime sampled."


def plan(tier, seed):
    if tier == "quick":
        return [("C06", seed, 200, [])]
    return [("C06", seed + k, 1500, []) for k in range(4)]


def search_plan(seed):
    return [("C06", seed + 100, 400, [])]


def compare(c):
    return True


def nontrivial(c):
    return True


def distribution(cases):
    d = {}
    for c in cases:
        k = c.input.split(" ")[0]
        d[k] = d.get(k, 0) + 1
    return d
