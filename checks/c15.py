"""C15 infer edits only the placeholder account
(lib/syntax/bayes/bayes.go, cmd/commands/infer.go, lib/syntax/printer/printer.go)"""
PID = "C15"
THEOREM_FILE = "Properties/C15.v"
NEEDS_KNUT = True

# The model follows the repaired code (/repo e8bd689, finding F10): variant Fixed of Model/Bayes.v.
# Against a tree without that commit the check reports the violations (output-does-not-parse,
# nondeterministic, infer_ok_b, model disagreement) -- as it did when it found them.
VARIANT = "fixed"


RULE = ("training/target journal pairs: training empty, without transactions, unparseable, with 1-6 transactions over a pool "
        "of 1-5 accounts (few distinct descriptions, so equal scores are frequent), with macro and placeholder sides; "
        "targets with the placeholder on the credit side, the debit side, both sides, several bookings per transaction, "
        "accounts unknown to the training file, other directives, comments, tabs, CRLF, @performance; default and custom "
        "placeholder (-a); training file = target file.  In half of the cases the training journal is spread over an include "
        "tree of 1-4 files (directories ., sub, sub/deep, other; file names that are tails of each other; include paths with "
        "detours through ..; the include directive at a random position in the including file), with variations: a file "
        "included a second time from another file, an include of a missing file, an include that closes a cycle, an "
        "unparseable file somewhere in the tree; 8% designed diamonds in which a file reached over two include paths decides "
        "a tie.  `knut infer -a PH -t TRAINING TARGET` is run 10 times (for trees under schedule perturbation and GOMAXPROCS "
        "1/2/16, so that the files reach the trainer in varying order); its stdout is re-parsed with the Go parser.  Model: "
        "Model/InferFs.v on the same file tree (Model/Loader.v resolves the includes: visited files, once per include path, "
        "or the error); the implementation's choices are handed to the model as the choice function, the bytes must be equal "
        "and every choice must be one of the model's candidates; if the model's load fails the command must fail and print "
        "nothing.  Spec on the Go output: infer_ok_b against the meanings of all visited files (only placeholder sides "
        "differ; each is a training account different from the other side of its booking, or unchanged if there is none), "
        "gaps equal, output parses, the 10 runs agree, and every choice of the binary is the choice of the model of the "
        "choice (Model/BayesScore.v, extracted, run with IEEE doubles and a transcription of Go's math.Log for amd64: first "
        "maximum of the scores over the sorted candidates).  Non-trivial: the target has at least one placeholder "
        "occurrence; distinct by input.")
TRUSTED_BASE = [
    "Coq 8.16.1 kernel",
    "extraction + OCaml drivers drv_c07/c08/c15.ml (hex, reading the Go tree back, reading the choices off the output)",
    "harness c15.go (generator, subprocess runner, 10 runs), c07.go/c08.go (Go parser, tree rendering)",
    "float64 arithmetic is abstract in the Coq model of the choice; for the comparison of the binary's choices with it the driver "
    "drv_c15.ml instantiates it with OCaml doubles, a hand transcription of Go's math.Log (log_amd64.s) and of strings.Fields / "
    "strings.ToLower for ASCII and Latin-1 (all the generator uses)",
    "the training journal's file tree is given to the model as path -> bytes; symbolic links, absolute include paths and "
    "paths leaving the training directory are not generated",
]
ASSUMPTIONS = ["-i (in place) is not exercised: the written bytes are the same FormatFile output (C08/C18)",
               "nondeterminism is searched for with 10 runs per case (include trees: under schedule perturbation)"]


def plan(tier, seed):
    if tier == "quick":
        return [("C15", seed, 400, [VARIANT])]
    return [("C15", seed + k, 4000, [VARIANT]) for k in range(4)]


def search_plan(seed):
    return [("C15", seed + 1000, 1500, [VARIANT])]


def compare(c):
    if c.observed.startswith("OK "):
        return c.observed.split(" ; ")[0] == c.model
    if c.observed.startswith("ERR"):
        return c.model == "ERR"
    return False


def nontrivial(c):
    f = c.input.split(" ")
    return len(f) == 4 and f[1] in f[3]


def distribution(cases):
    d = {"ok": 0, "err": 0, "other": 0, "nondet": 0, "output_unparseable": 0, "variant": VARIANT,
         "custom_placeholder": 0, "training_empty": 0, "training_is_target": 0, "placeholder_occurrences": 0,
         "training_tree": 0, "training_tree_files": {}, "training_tree_err": 0, "training_tree_ok_with_placeholder": 0,
         "spec": {}}
    for c in cases:
        f = c.input.split(" ")
        if len(f) != 4:
            continue
        if f[1] != "457870656e7365733a544244":
            d["custom_placeholder"] += 1
        if f[2] == "":
            d["training_empty"] += 1
        if f[2] == f[3]:
            d["training_is_target"] += 1
        d["placeholder_occurrences"] += f[3].count(f[1])
        if f[2].startswith("tree:"):
            d["training_tree"] += 1
            n = str(f[2].count("="))
            d["training_tree_files"][n] = d["training_tree_files"].get(n, 0) + 1
            if c.observed.startswith("ERR"):
                d["training_tree_err"] += 1
            elif c.observed.startswith("OK ") and f[1] in f[3]:
                d["training_tree_ok_with_placeholder"] += 1
        if c.observed.startswith("OK "):
            d["ok"] += 1
            if c.observed.endswith("nondet"):
                d["nondet"] += 1
            if "REPARSE-ERR" in c.observed:
                d["output_unparseable"] += 1
        elif c.observed.startswith("ERR"):
            d["err"] += 1
        else:
            d["other"] += 1
        d["spec"][c.spec] = d["spec"].get(c.spec, 0) + 1
    return d


TECHNIQUE = ("Coq proof over a Gallina model of the repaired bayes.go (e8bd689) on the meaning of the parsed files: candidate "
             "set, substitution, printing via the C08 result format = render(meaning, gaps); round trip of the output by C08's "
             "context lemmas (a candidate is an account text of the parse of a training file, so the substituted meaning is "
             "lexically valid and its rendering parses back to it); the choice (counts, tokenize, scoreCandidate in sorted "
             "token order, first maximum over the sorted candidates) modelled with abstract float64 operations and proved "
             "independent of map enumeration and training order; the training load over an include tree modelled by running "
             "the verified include loader of C05/C14 (Model/Loader.v) on the skeleton of the file tree, the result proved a "
             "function of the multiset of training transactions (layout and arrival order irrelevant, cycle = error); "
             "byte-exact correspondence with the binary given its own choices; the executable specification infer_ok_b "
             "evaluated on the Go parser's tree of the binary's output; repeated runs under schedule perturbation")
LEVEL_TEXT = ("see Properties/C15.v (43 theorems, closed under the global context), all about the repaired code (variant Fixed; "
              "Orig only in *_refuted). For every valid choice function: C15_only_placeholder, C15_candidate_valid, "
              "C15_candidates_from_training, C15_no_candidate_unchanged, C15_fixed_meets_spec; C15_parses / C15_roundtrip "
              "(class_ok as in C08; C15_parses_unicode without hypothesis): the output parses, the parse has exactly the "
              "inferred meaning (infer_ok_b holds of it) and the target's gaps and is in formatted form; C15_total (no "
              "failure on files that parse); C15_rest_is_format at full strength (output and `format` of the target parse "
              "to the same gaps and to meanings related by directive_rel, both are render of meaning and gaps, both are "
              "fixed points of format); C15_idempotent (a second run with the same training file prints the same text, "
              "unconditionally). The choice, modelled after the Go code (Model/BayesScore.v): C15_choice_valid, "
              "C15_choice_first_max + C15_first_max_unique (first maximum of the sorted candidates: the tie-break), "
              "C15_choice_invariant (a function of the multiset of training events, the set of tokens and the set of map "
              "keys: independent of Go's map order), C15_training_order_irrelevant, C15_scored_is_infer_with, "
              "C15_infer_correct (the whole property for the command with its real choice). The training journal over an "
              "include tree (Model/InferFs.v: syntax.ParseFileRecursively = Model/Loader.v on the skeleton of the file tree, "
              "training on every visited file), all at full strength: C15_training_files_are_visits (from C05_layout) and "
              "its converse C15_finite_tree_loads (a finite include tree of parseable files loads; Proofs/LoaderVisits.v), "
              "C15_training_load_terminates (C14), C15_training_layout_irrelevant (two file trees of any shape whose visited "
              "files hold permutations of the same transactions give the same result on every target: the output is a "
              "function of the multiset of training transactions), C15_training_arrival_irrelevant (any arrival order of the "
              "files), C15_training_tree_as_one_file, C15_training_without_includes (= the one-file command), "
              "C15_training_cycle_is_error and C15_training_bad_file_is_error (exit 1, nothing printed), and the one-file "
              "theorems restated for the command on a file tree: C15_fs_scored_is_infer_with, "
              "C15_fs_candidates_from_training, C15_fs_roundtrip (only placeholder sides change, infer_ok_b, gaps, formatted "
              "form), C15_fs_total, C15_fs_idempotent, C15_fs_rest_is_format, C15_fs_infer_correct(_unicode). Code before "
              "e8bd689: C15_no_candidate_unchanged_refuted, C15_parses_refuted, C15_differs_refuted (findings/C15-infer.md, F10).")
LEVEL_NOTE = ("Trusted: kernel, extraction, drivers, harness. The float64 operations (math.Log, +, >) and strings.Fields / "
              "strings.ToLower are abstract in the model of the choice: the theorems hold for any such functions. WHICH "
              "candidate wins is compared with the binary on every generated case by running the extracted model with IEEE "
              "doubles and a transcription of Go's amd64 math.Log (trusted, not proved; verdict choice-differs-from-model); "
              "for the byte comparison the binary's choices are handed to the model. That the Go runtime computes the same "
              "float64 values on every run is sampled with 10 runs per case. Includes in the training file are modelled "
              "(Model/InferFs.v on Model/Loader.v) and generated in half of the cases; the file system is a map from cleaned "
              "relative paths to bytes (no symbolic links; an unreadable file is a file that does not parse).")
