"""C15 infer edits only the placeholder account
(lib/syntax/bayes/bayes.go, cmd/commands/infer.go, lib/syntax/printer/printer.go)"""
import os

PID = "C15"
THEOREM_FILE = "Properties/C15.v"
NEEDS_KNUT = True

_REPO = os.environ.get("VERIF_REPO", "/repo")


def _variant():
    """which behaviour the model follows: the code as found ('orig') or the repaired code of
    findings/C15-infer.patch ('fixed'), recognised by its sorted candidate loop"""
    try:
        src = open(os.path.join(_REPO, "lib", "syntax", "bayes", "bayes.go")).read()
    except OSError:
        return "orig"
    return "fixed" if "sort.Strings(" in src else "orig"


RULE = ("training/target journal pairs: training empty, without transactions, unparseable, with 1-6 transactions over a pool "
        "of 1-5 accounts (few distinct descriptions, so equal scores are frequent), with macro and placeholder sides; "
        "targets with the placeholder on the credit side, the debit side, both sides, several bookings per transaction, "
        "accounts unknown to the training file, other directives, comments, tabs, CRLF, @performance; default and custom "
        "placeholder (-a); training file = target file.  `knut infer -a PH -t TRAINING TARGET` is run 10 times; its stdout "
        "is re-parsed with the Go parser.  Model: the implementation's choices are handed to the model as the choice "
        "function, the bytes must be equal and every choice must be one of the model's candidates.  Spec on the Go "
        "output: infer_ok_b (only placeholder sides differ; each is a training account different from the other side of "
        "its booking, or unchanged if there is none), gaps equal, output parses, the 10 runs agree.  Non-trivial: the "
        "target has at least one placeholder occurrence; distinct by input.")
TRUSTED_BASE = [
    "Coq 8.16.1 kernel",
    "extraction + OCaml drivers drv_c07/c08/c15.ml (hex, reading the Go tree back, reading the choices off the output)",
    "harness c15.go (generator, subprocess runner, 10 runs), c07.go/c08.go (Go parser, tree rendering)",
    "the score (math.Log, floating point) is not modelled: which candidate wins is taken from the implementation",
    "training files are read without includes in generated cases",
]
ASSUMPTIONS = ["-i (in place) is not exercised: the written bytes are the same FormatFile output (C08/C18)",
               "nondeterminism is searched for with 10 runs per case"]


def plan(tier, seed):
    v = _variant()
    if tier == "quick":
        return [("C15", seed, 400, [v])]
    return [("C15", seed + k, 4000, [v]) for k in range(4)]


def search_plan(seed):
    return [("C15", seed + 1000, 1500, [_variant()])]


def compare(c):
    if c.observed.startswith("OK "):
        return c.observed.split(" ; ")[0] == c.model
    if c.observed.startswith("ERR"):
        return c.model == "ERR"
    return False


def nontrivial(c):
    f = c.input.split(" ")
    return len(f) == 4 and f[1] in f[3]


def distribution(cases):
    d = {"ok": 0, "err": 0, "other": 0, "nondet": 0, "output_unparseable": 0, "variant": _variant(),
         "custom_placeholder": 0, "training_empty": 0, "training_is_target": 0, "placeholder_occurrences": 0, "spec": {}}
    for c in cases:
        f = c.input.split(" ")
        if len(f) != 4:
            continue
        if f[1] != "457870656e7365733a544244":
            d["custom_placeholder"] += 1
        if f[2] == "":
            d["training_empty"] += 1
        if f[2] == f[3]:
            d["training_is_target"] += 1
        d["placeholder_occurrences"] += f[3].count(f[1])
        if c.observed.startswith("OK "):
            d["ok"] += 1
            if c.observed.endswith("nondet"):
                d["nondet"] += 1
            if "REPARSE-ERR" in c.observed:
                d["output_unparseable"] += 1
        elif c.observed.startswith("ERR"):
            d["err"] += 1
        else:
            d["other"] += 1
        d["spec"][c.spec] = d["spec"].get(c.spec, 0) + 1
    return d


TECHNIQUE = ("Coq proof over a Gallina model of bayes.go on the meaning of the parsed files (candidate set, substitution, "
             "printing via the C08 result format = render(meaning, gaps)), for every choice function; byte-exact "
             "correspondence with the binary given its own choices; the executable specification infer_ok_b evaluated "
             "on the Go parser's tree of the binary's output; repeated runs for nondeterminism")
LEVEL_TEXT = ("see Properties/C15.v: for every choice function, only placeholder sides change, replacements are training "
              "accounts different from the other side, the rest is the format of the target (C15_only_placeholder, "
              "C15_candidate_valid, C15_rest_is_format, C15_meets_spec for the repaired code); for the code as found the "
              "statements about missing candidates, both-sided placeholders and parseability are REFUTED by witnesses "
              "(C15_*_refuted), matching findings/C15-*.md.")
LEVEL_NOTE = ("Trusted: kernel, extraction, drivers, harness. The winner among candidates is not modelled (floating point); "
              "determinism is sampled with 10 runs per case. C15_parses rests on C08's round trip, which is proved only for a fragment.")
