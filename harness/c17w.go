package main

// C17 (weights): the text table of `knut portfolio weights`.
//
//	C17.wtable   in-process: tables with percent cells (Row.AddPercent) built through the exported API of
//	             lib/common/table and rendered by TextRenderer{Color: false, Round: digits}; the floats are given
//	             by their bit patterns, so the model (Model/F64.v, Model/WeightsTable.v) must reproduce the bytes
//	C17.weights  the binary: `knut portfolio weights -a --color=false --digits n ...` on generated portfolios
//	             (the generators of c20.go) and on portfolios whose total is exactly zero at some period ends
//	             (weights +Inf / -Inf, NaN in the group rows)

import (
	"bytes"
	"fmt"
	"math"
	"strconv"
	"strings"
	"time"

	"github.com/sboehler/knut/lib/common/table"
)

func init() {
	gens["C17w"] = genC17w
	observers["C17.wtable"] = obsC17WTable
	observers["C17.weights"] = obsC17Weights
}

// ---------------------------------------------------------------- C17.wtable
//
// input: the encoding of C17.table (c17.go) with one more cell token, P<16 hex digits> = Row.AddPercent of the
// float64 with these bits; k is always 0.

type c17wCell struct {
	base c17Cell
	pct  bool
	f    float64
}

type c17wRow struct {
	kind  byte
	cells []c17wCell
	fill  bool
}

func c17wDecode(in string) (groups []int, digits int32, rows []c17wRow, err error) {
	hdr, body := splitInput(in)
	for _, kv := range strings.Fields(hdr) {
		i := strings.IndexByte(kv, '=')
		if i < 0 {
			return nil, 0, nil, fmt.Errorf("bad header field %q", kv)
		}
		key, v := kv[:i], kv[i+1:]
		switch key {
		case "groups":
			for _, g := range strings.Split(v, ",") {
				n, e := strconv.Atoi(g)
				if e != nil || n < 0 {
					return nil, 0, nil, fmt.Errorf("bad group %q", g)
				}
				groups = append(groups, n)
			}
		case "digits":
			n, e := strconv.ParseInt(v, 10, 32)
			if e != nil {
				return nil, 0, nil, fmt.Errorf("bad digits %q", v)
			}
			digits = int32(n)
		default:
			return nil, 0, nil, fmt.Errorf("unknown header field %q", kv)
		}
	}
	for _, rs := range strings.Split(body, " ; ") {
		f := strings.Fields(rs)
		if len(f) == 0 {
			continue
		}
		switch {
		case f[0] == "S" && len(f) == 1:
			rows = append(rows, c17wRow{kind: 'S'})
		case f[0] == "E" && len(f) == 1:
			rows = append(rows, c17wRow{kind: 'E'})
		case f[0] == "R":
			row := c17wRow{kind: 'R'}
			toks := f[1:]
			if len(toks) > 0 && toks[len(toks)-1] == "F" {
				row.fill = true
				toks = toks[:len(toks)-1]
			}
			for _, tok := range toks {
				if len(tok) == 17 && tok[0] == 'P' {
					bits, e := strconv.ParseUint(tok[1:], 16, 64)
					if e != nil {
						return nil, 0, nil, fmt.Errorf("bad cell %q", tok)
					}
					row.cells = append(row.cells, c17wCell{pct: true, f: math.Float64frombits(bits)})
					continue
				}
				c, e := c17DecodeCell(tok)
				if e != nil || c.kind == 'N' {
					return nil, 0, nil, fmt.Errorf("bad cell %q", tok)
				}
				row.cells = append(row.cells, c17wCell{base: c})
			}
			rows = append(rows, row)
		default:
			return nil, 0, nil, fmt.Errorf("bad row %q", rs)
		}
	}
	return groups, digits, rows, nil
}

// obsC17WTable: "<escaped text>", "PANIC <msg>", "RENDERERR <msg>" or "BADINPUT <msg>".
func obsC17WTable(in string) (res string) {
	groups, digits, rows, err := c17wDecode(in)
	if err != nil {
		return "BADINPUT " + esc(err.Error())
	}
	defer func() {
		if p := recover(); p != nil {
			msg := fmt.Sprint(p)
			if len(msg) > 160 {
				msg = strings.ToValidUTF8(msg[:160], "?")
			}
			res = "PANIC " + esc(msg)
		}
	}()
	t := table.New(groups...)
	for _, row := range rows {
		switch row.kind {
		case 'S':
			t.AddSeparatorRow()
		case 'E':
			t.AddEmptyRow()
		case 'R':
			r := t.AddRow()
			for _, c := range row.cells {
				switch {
				case c.pct:
					r.AddPercent(c.f)
				case c.base.kind == '_':
					r.AddEmpty()
				case c.base.kind == 'T':
					r.AddText(c.base.text, c.base.align)
				case c.base.kind == 'I':
					r.AddIndented(c.base.text, c.base.indent)
				}
			}
			if row.fill {
				r.FillEmpty()
			}
		}
	}
	var text bytes.Buffer
	if err := c17RenderText(t, digits, false, &text); err != nil {
		return "RENDERERR text " + esc(err.Error())
	}
	return esc(text.String())
}

// ---------------------------------------------------------------- floats

func c17wBits(f float64) string { return fmt.Sprintf("P%016x", math.Float64bits(f)) }

var c17wSpecial = []float64{0, math.Copysign(0, -1), math.NaN(), math.Inf(1), math.Inf(-1), 1, -1, 0.5, 0.25, 0.125, 0.375,
	0.005, 0.015, 0.025, 0.045, 0.285, 0.00005, 0.99995, 0.999995, 0.9999995, 0.99999999999, 1.0000001, 9.995, 9.99995, 99.995,
	999.99, 1000, 99999.995, 1e5, 1e6, 123456789.125, 1e15, 1e16, 1e21, 1e22, 1e23,
	1e-20, 1e-9, 4.9e-7, 5e-7, 5.1e-7, 0.1, 0.2, 0.3, 1.0 / 3, 2.0 / 3, 0.7, 1e-5}

// the ends of the range: expensive for the model (hundreds of decimal digits through inductive integers), so rare
var c17wExtreme = []float64{1.7976931348623157e308, 1e306, 2e306, 5e-324, 2.2250738585072014e-308, 1e-310, 8.98846567431158e307, 1e300, 1e-300}

// c17wFloat: a weight-like or a hostile float64
func c17wFloat(r *rng, digits int, tame bool) float64 {
	var f float64
	if tame { // a weight of a portfolio without short positions
		switch p := r.intn(100); {
		case p < 50:
			d := pick(r, []int{2, 3, 4, 5, 7, 8, 10, 16, 100, 1000, 365, 1 << 20})
			return float64(r.rangeInt(0, d)) / float64(d)
		case p < 60:
			return pick(r, []float64{1, 1, 0.5, 0.999995, 0.9999995, 0.99999999999, math.Nextafter(1, 0), 5e-324, 1e-9})
		default:
			return float64(r.next()>>11) / (1 << 53)
		}
	}
	switch p := r.intn(1000) / 10; {
	case p < 30: // a share n/d
		d := pick(r, []int{2, 3, 4, 5, 7, 8, 10, 16, 100, 1000, 365, 1 << 20})
		f = float64(r.rangeInt(0, d)) / float64(d)
	case p < 45: // random in [0,1)
		f = float64(r.next()>>11) / (1 << 53)
	case p < 65: // ties and near-ties of the printed percentage at the rounding digit: (k + 0.5) * 10^-digits / 100
		dg := digits
		if dg < 0 || dg > 1000000 {
			dg = 6
		}
		k := float64(r.rangeInt(0, 2000))
		if r.chance(30) {
			k = float64(pick(r, []int{9, 99, 999, 9999, 99999}))
		}
		f = (k + 0.5) / math.Pow(10, float64(dg)) / 100
		switch r.intn(4) {
		case 0:
			f = math.Nextafter(f, 2)
		case 1:
			f = math.Nextafter(f, -2)
		}
	case p < 80:
		f = pick(r, c17wSpecial)
	case p < 88: // log-uniform magnitudes
		f = math.Pow(10, float64(r.rangeInt(-12, 12))) * (1 + float64(r.intn(9000))/1000)
	case p < 98: // around the widths that outgrow the header: 10^k and 10^k - ulp
		f = math.Pow(10, float64(r.rangeInt(0, 9)))
		if r.chance(50) {
			f = math.Nextafter(f, 0)
		}
	case p < 99:
		f = pick(r, c17wExtreme)
	default: // any bit pattern
		f = math.Float64frombits(r.next())
	}
	if r.chance(20) {
		f = -f
	}
	return f
}

func genC17WTable(r *rng, id string, out *caseWriter) {
	digits := pick(r, []int{0, 0, 1, 2, 2, 2, 3, 4, 5, 6, 8})
	switch p := r.intn(100); {
	case p < 6:
		digits = -r.rangeInt(1, 3)
	case p < 10:
		digits = r.rangeInt(9, 30)
	case p < 11: // above fmt's limit for a precision argument
		digits = pick(r, []int{1000001, 2000000000})
	}
	// half of the tables are like the reports of a portfolio without short positions at --digits 0..5: every weight
	// in [0, 1]; by C17_weights_rect_unit these are rectangular
	tame := r.chance(50)
	if tame {
		digits = pick(r, []int{0, 1, 2, 2, 3, 4, 5, 5})
	}
	m := r.rangeInt(1, 5)
	groups := fmt.Sprintf("1,%d", m)
	header := c17HeaderRow(r, false, m)
	if r.chance(50) {
		header = strings.Replace(header, hexs("Account"), hexs("Commodity"), 1)
	}
	var rows []string
	switch {
	case tame || !r.chance(10):
		rows = append(rows, "S", header, "S")
	case r.chance(50):
		rows = append(rows, header, "S")
	default: // no header: the date columns have no minimal width of 10
	}
	nb := r.rangeInt(1, 8)
	for b := 0; b < nb; b++ {
		cells := []string{"R", fmt.Sprintf("I%d:%s", pick(r, c17Indents), hexs(pick(r, c17Names)))}
		nc, fill := m, false
		if r.chance(8) {
			nc, fill = r.intn(m), true
		}
		for i := 0; i < nc; i++ {
			switch p := r.intn(100); {
			case p < 12:
				cells = append(cells, "_")
			case p < 15:
				cells = append(cells, c17Text(r, pick(r, []byte{'R', 'C'}), c17Words))
			default:
				cells = append(cells, c17wBits(c17wFloat(r, digits, tame)))
			}
		}
		if fill {
			cells = append(cells, "F")
		}
		rows = append(rows, strings.Join(cells, " "))
		if r.chance(8) {
			rows = append(rows, pick(r, []string{"S", "E"}))
		}
	}
	rows = append(rows, "S")
	out.add(id, "C17.wtable", fmt.Sprintf("groups=%s digits=%d | %s", groups, digits, strings.Join(rows, " ; ")))
}

// ---------------------------------------------------------------- C17.weights

// obsC17Weights: input "digits=<n> <PfCfg> | <journal>"; the text table of the binary, always with -a
func obsC17Weights(in string) string {
	cfgS, jS := splitInput(in)
	cfg := DecodePfCfg(cfgS)
	digits := "0"
	for _, kv := range strings.Fields(cfgS) {
		if strings.HasPrefix(kv, "digits=") {
			digits = kv[len("digits="):]
		}
	}
	j := DecodeJournal(jS)
	var out string
	withTempDir(func(dir string) {
		f := writeFile(dir, "journal.knut", j.Text())
		args := cfg.weightsArgs(dir, true, cfg.From)
		args = append(args[:len(args)-1], "--color=false", "--digits="+digits, f)
		out = renderRun(runKnut(knutBin(), dir, nil, 20*time.Second, args...))
	})
	return out
}

// genZeroTotal: a portfolio whose value is exactly zero at some period ends: cash in CHF, optionally a security,
// and a liability in USD of the same value (integers, prices 1, 2 or 4: every float sum is exact); later deposits
// make the total positive, a later withdrawal may bring it back to zero
func genZeroTotal(r *rng) (Journal, PfCfg) {
	start := time.Date(2021, 1, 1, 0, 0, 0, 0, time.UTC).AddDate(0, 0, r.intn(600))
	d := func(k int) string { return dateStr(start.AddDate(0, 0, k)) }
	var j Journal
	for _, a := range []string{"Assets:Bank", "Assets:Broker", "Liabilities:Card", "Equity:Opening"} {
		j = append(j, Dir{Kind: 'O', Date: d(-3), Acc: a})
	}
	p := pick(r, []int{1, 2, 4})
	j = append(j, Dir{Kind: 'P', Date: d(-2), Com: "USD", Price: fmt.Sprint(p), Target: "CHF"})
	sec := r.chance(50)
	q := pick(r, []int{1, 8, 16, 100})
	if sec {
		j = append(j, Dir{Kind: 'P', Date: d(-2), Com: "AAPL", Price: fmt.Sprint(q), Target: "CHF"})
	}
	usd := r.rangeInt(1, 500)
	total := usd * p // the value of the liability in CHF
	nsec := 0
	if sec {
		nsec = r.rangeInt(1, total/q+1)
		if nsec*q >= total {
			nsec = 0
			sec = false
		}
	}
	chf := total - nsec*q
	j = append(j, Dir{Kind: 'T', Date: d(0), Desc: "Cash", Bookings: []Booking{{"Equity:Opening", "Assets:Bank", fmt.Sprint(chf), "CHF"}}})
	if nsec > 0 {
		j = append(j, Dir{Kind: 'T', Date: d(0), Desc: "Shares", Bookings: []Booking{{"Equity:Opening", "Assets:Broker", fmt.Sprint(nsec), "AAPL"}}})
	}
	j = append(j, Dir{Kind: 'T', Date: d(r.intn(2)), Desc: "Card", Bookings: []Booking{{"Liabilities:Card", "Equity:Opening", fmt.Sprint(usd), "USD"}}})
	span := pick(r, []int{10, 20, 40, 70})
	dep := r.rangeInt(1, 900)
	t1 := r.rangeInt(2, span/2)
	j = append(j, Dir{Kind: 'T', Date: d(t1), Desc: "Deposit", Bookings: []Booking{{"Equity:Opening", "Assets:Bank", fmt.Sprint(dep), "CHF"}}})
	if r.chance(50) {
		j = append(j, Dir{Kind: 'T', Date: d(r.rangeInt(t1+1, span)), Desc: "Withdrawal", Bookings: []Booking{{"Assets:Bank", "Equity:Opening", fmt.Sprint(dep), "CHF"}}})
	}
	r.shuffle(len(j), func(a, b int) { j[a], j[b] = j[b], j[a] })
	c := PfCfg{Val: "CHF", Uni: "-", WFrom: "-", From: "-", Alpha: true}
	c.To = d(span + r.intn(10))
	if r.chance(30) {
		c.From = d(r.rangeInt(-5, 3))
	}
	c.Interval = pick(r, []string{"daily", "weekly", "weekly", "monthly"})
	if span <= 20 {
		c.Interval = pick(r, []string{"daily", "weekly"})
	}
	switch r.intn(4) {
	case 0:
		c.Uni = "Cash=CHF,USD"
		if sec {
			c.Uni += ";Equities:US=AAPL"
		}
	case 1:
		c.Uni = "Cash:Home=CHF;Cash:Foreign=USD"
	case 2:
		c.Uni = "Liquid=CHF;Debt=USD"
	}
	if c.Uni != "-" && r.chance(30) {
		c.Map = []string{pick(r, []string{"1", "1,^Cash", "2"})}
	}
	return j, c
}

var c17wDigits = []int{0, 0, 1, 2, 2, 2, 3, 4, 5, 5, 6, 8, -1, 0, 2, 3, 4, 5, 1, 2000000}

func genC17w(out *caseWriter, seed uint64, n int, _ []string) error {
	// nine in ten cases are in-process tables; one in ten runs the binary
	var items []caseIn
	for i := 0; i < n; i++ {
		r := newRng(seed, "C17w", i)
		if i%10 != 9 {
			genC17WTable(r, fmt.Sprintf("C17w-%d-%d", seed, i), out)
			continue
		}
		digits := pick(r, c17wDigits)
		if r.chance(35) {
			j, c := genZeroTotal(r)
			items = append(items, caseIn{fmt.Sprintf("C17w-%d-%d-z", seed, i), "C17.weights", fmt.Sprintf("digits=%d %s | %s", digits, c.Enc(), j.Enc())})
			continue
		}
		p := genPfJournal(r)
		w := PfCfg{Val: p.val, Uni: "-", WFrom: "-"}
		genPfWindow(r, p, &w)
		genFilters(r, p, &w, true)
		if r.chance(60) {
			w.Uni = genUniverse(r, p)
		}
		w.Map = genMapping(r, w.Uni)
		w.Alpha = true
		items = append(items, caseIn{fmt.Sprintf("C17w-%d-%d-w", seed, i), "C17.weights", fmt.Sprintf("digits=%d %s | %s", digits, w.Enc(), p.j.Enc())})
	}
	out.addBatch(items)
	return nil
}
