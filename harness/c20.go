package main

// C20: portfolio analytics (`knut portfolio weights`, `knut portfolio returns`) against the
// valued balance.  Generator of portfolio journals and the three observers
//   C20.weights  stdout of `portfolio weights --csv ...`  ##  stdout of the same command as a text table
//                (the text table's indentation carries the tree structure the CSV drops)  ##  the text table of
//                the same command without -m (the commodities a mapping folds into a group are rows only there)
//   C20.returns  stdout of `portfolio returns ...`
//   C20.cross    weights CSV ## `balance -v V --csv -a -s .` CSV ## returns text, same journal and dates

import (
	"fmt"
	"sort"
	"strings"
	"time"
)

type PfCfg struct {
	From, To string // "-" when absent
	Interval string
	Last     int
	Val      string
	Acc      []string
	Com      []string
	Map      []string
	Alpha    bool
	Uni      string // class=c1,c2;class2=c3   or "-"
	WFrom    string // cross only: --from passed to `weights` alone
}

func (c PfCfg) Enc() string {
	u := c.Uni
	if u == "" {
		u = "-"
	}
	wf := c.WFrom
	if wf == "" {
		wf = "-"
	}
	return fmt.Sprintf("from=%s to=%s iv=%s last=%d val=%s acc=%s com=%s map=%s alpha=%s uni=%s wfrom=%s",
		c.From, c.To, c.Interval, c.Last, c.Val, listEnc(c.Acc), listEnc(c.Com), listEnc(c.Map), b2s(c.Alpha), u, wf)
}

func DecodePfCfg(s string) PfCfg {
	c := PfCfg{From: "-", To: "-", Interval: "once", Val: "-", Uni: "-", WFrom: "-"}
	for _, kv := range strings.Fields(s) {
		i := strings.Index(kv, "=")
		if i < 0 {
			continue
		}
		k, v := kv[:i], kv[i+1:]
		switch k {
		case "from":
			c.From = v
		case "to":
			c.To = v
		case "iv":
			c.Interval = v
		case "last":
			fmt.Sscanf(v, "%d", &c.Last)
		case "val":
			c.Val = v
		case "acc":
			c.Acc = listDec(v)
		case "com":
			c.Com = listDec(v)
		case "map":
			c.Map = listDec(v)
		case "alpha":
			c.Alpha = v == "1"
		case "uni":
			c.Uni = v
		case "wfrom":
			c.WFrom = v
		}
	}
	return c
}

// window flags shared by weights, returns and balance
func (c PfCfg) windowArgs(from string) []string {
	var a []string
	if from != "-" && from != "" {
		a = append(a, "--from", from)
	}
	if c.To != "-" && c.To != "" {
		a = append(a, "--to", c.To)
	}
	if f := ivFlag[c.Interval]; f != "" {
		a = append(a, f)
	}
	if c.Last != 0 {
		a = append(a, fmt.Sprintf("--last=%d", c.Last))
	}
	return a
}

func (c PfCfg) filterArgs() []string {
	var a []string
	if c.Val != "-" && c.Val != "" {
		a = append(a, "--val", c.Val)
	}
	for _, m := range c.Acc {
		a = append(a, "--account", m)
	}
	for _, m := range c.Com {
		a = append(a, "--commodity", m)
	}
	return a
}

// universeYAML renders the universe encoding as the YAML file `--universe` reads
func universeYAML(u string) string {
	var b strings.Builder
	for _, cl := range strings.Split(u, ";") {
		i := strings.LastIndex(cl, "=")
		if i < 0 {
			continue
		}
		fmt.Fprintf(&b, "%q: [%s]\n", cl[:i], strings.Join(strings.Split(cl[i+1:], ","), ", "))
	}
	return b.String()
}

func (c PfCfg) weightsArgs(dir string, csv bool, from string) []string {
	a := []string{"portfolio", "weights"}
	a = append(a, c.windowArgs(from)...)
	a = append(a, c.filterArgs()...)
	for _, m := range c.Map {
		a = append(a, "-m", m)
	}
	if c.Alpha {
		a = append(a, "-a")
	}
	if c.Uni != "-" && c.Uni != "" {
		a = append(a, "--universe", writeFile(dir, "universe.yaml", universeYAML(c.Uni)))
	}
	if csv {
		a = append(a, "--csv")
	} else {
		a = append(a, "--color=false", "--digits=6")
	}
	return a
}

func (c PfCfg) returnsArgs() []string {
	a := []string{"portfolio", "returns"}
	a = append(a, c.windowArgs(c.From)...)
	a = append(a, c.filterArgs()...)
	return a
}

func (c PfCfg) balanceArgs() []string {
	a := []string{"balance", "--color=false", "--csv", "-a", "-s", ".", "--close=false"}
	a = append(a, c.windowArgs(c.From)...)
	a = append(a, c.filterArgs()...)
	return a
}

const c20Sep = " ## "

func obsC20(which string) obsFunc {
	return func(in string) string {
		cfgS, jS := splitInput(in)
		cfg := DecodePfCfg(cfgS)
		j := DecodeJournal(jS)
		var out string
		withTempDir(func(dir string) {
			f := writeFile(dir, "journal.knut", j.Text())
			run := func(args []string) string {
				return renderRun(runKnut(knutBin(), dir, nil, 20*time.Second, append(args, f)...))
			}
			switch which {
			case "weights":
				plain := cfg
				plain.Map = nil
				out = run(cfg.weightsArgs(dir, true, cfg.From)) + c20Sep + run(cfg.weightsArgs(dir, false, cfg.From)) + c20Sep + run(plain.weightsArgs(dir, false, cfg.From))
			case "returns":
				out = run(cfg.returnsArgs())
			case "cross":
				wf := cfg.From
				if cfg.WFrom != "-" && cfg.WFrom != "" {
					wf = cfg.WFrom
				}
				out = run(cfg.weightsArgs(dir, true, wf)) + c20Sep + run(cfg.balanceArgs()) + c20Sep + run(cfg.returnsArgs())
			}
		})
		return out
	}
}

func init() {
	observers["C20.weights"] = obsC20("weights")
	observers["C20.returns"] = obsC20("returns")
	observers["C20.cross"] = obsC20("cross")
	gens["C20"] = genC20
}

// ---------------------------------------------------------------- generator

type pfJournal struct {
	j          Journal
	coms       []string // commodities held (first = hub currency)
	val        string
	start      time.Time
	days       int
	accounts   []string
	classes    map[string]string // commodity -> class (universe), possibly partial
	quietPrice bool
}

var pfSecurities = []string{"AAPL", "BTC", "NESN", "VT"}

func amt(r *rng, lo, hi int) string {
	switch r.intn(4) {
	case 0:
		return fmt.Sprintf("%d", r.rangeInt(lo, hi))
	case 1:
		return fmt.Sprintf("%d.%d", r.rangeInt(lo, hi), r.rangeInt(1, 9))
	default:
		return fmt.Sprintf("%d.%02d", r.rangeInt(lo, hi), r.rangeInt(0, 99))
	}
}

// genPfJournal: a portfolio held in Assets:Bank (cash), Assets:Broker (securities, cash),
// optionally Assets:Pillar3 and Liabilities:CreditCard; external counter-accounts of the types
// Equity, Income, Expenses; trades through Equity:Trading; prices for every commodity from
// before the first transaction.
func genPfJournal(r *rng) pfJournal {
	p := pfJournal{}
	p.start = time.Date(2021, 1, 1, 0, 0, 0, 0, time.UTC).AddDate(0, 0, r.intn(700))
	p.days = pick(r, []int{20, 45, 70, 100, 150, 220, 400})
	hub := "CHF"
	cur2 := pick(r, []string{"USD", "EUR"})
	nsec := r.rangeInt(1, 3)
	perm := r.perm(len(pfSecurities))
	p.coms = []string{hub}
	if r.chance(60) {
		p.coms = append(p.coms, cur2)
	}
	for i := 0; i < nsec; i++ {
		p.coms = append(p.coms, pfSecurities[perm[i]])
	}
	p.val = hub
	if r.chance(20) && contains(p.coms, cur2) {
		p.val = cur2
	}
	// drift: the report is valued in an expensive security whose price moves a little every day, so that the whole
	// portfolio is worth less than one unit and its daily changes are in the third decimal (seeded change
	// C20c-returns-epsilon treated |V1 - V0| < 0.005 as "nothing happened" and reported 0% for such periods; every
	// generated portfolio was worth thousands of units and prices jumped by percents)
	drift := r.chance(15)
	driftSec := ""
	if drift {
		driftSec = p.coms[len(p.coms)-1]
		p.val = driftSec
		p.days = pick(r, []int{20, 45, 70})
	}
	p.accounts = []string{"Assets:Bank", "Assets:Broker", "Equity:Opening", "Equity:Trading", "Income:Salary", "Income:Dividends", "Expenses:Fees", "Expenses:Rent"}
	if r.chance(40) {
		p.accounts = append(p.accounts, "Assets:Pillar3")
	}
	hasCC := r.chance(40)
	if hasCC {
		p.accounts = append(p.accounts, "Liabilities:CreditCard")
	}
	d0 := p.start
	var j Journal
	for _, a := range p.accounts {
		j = append(j, Dir{Kind: 'O', Date: dateStr(d0.AddDate(0, 0, -2-r.intn(3))), Acc: a})
	}
	// prices: quoted in the hub; the second currency sometimes is the quote of a security
	p.quietPrice = r.chance(30)
	base := map[string]float64{}
	target := map[string]string{}
	for _, c := range p.coms[1:] {
		target[c] = hub
		if c != cur2 && contains(p.coms, cur2) && r.chance(35) {
			target[c] = cur2
		}
		base[c] = float64(r.rangeInt(80, 40000)) / 100
		if c == driftSec {
			target[c] = hub
			base[c] = float64(r.rangeInt(2000000, 6000000)) / 100
		}
		j = append(j, Dir{Kind: 'P', Date: dateStr(d0.AddDate(0, 0, -2)), Com: c, Price: fmt.Sprintf("%.2f", base[c]), Target: target[c]})
		if c == driftSec {
			pr := base[c]
			for k := 0; k < p.days+30; k++ {
				if r.chance(85) {
					pr *= 1 + float64(r.rangeInt(-12, 12))/1000
					j = append(j, Dir{Kind: 'P', Date: dateStr(d0.AddDate(0, 0, k)), Com: c, Price: fmt.Sprintf("%.2f", pr), Target: hub})
				}
			}
			continue
		}
		if !p.quietPrice {
			n := r.rangeInt(0, 6)
			for k := 0; k < n; k++ {
				dt := d0.AddDate(0, 0, r.intn(p.days))
				pr := base[c] * (1 + float64(r.rangeInt(-25, 25))/100)
				j = append(j, Dir{Kind: 'P', Date: dateStr(dt), Com: c, Price: fmt.Sprintf("%.4f", pr), Target: target[c]})
			}
		}
	}
	secs := p.coms[1:]
	priceOf := func(c string) float64 {
		if c == hub {
			return 1
		}
		v := base[c]
		if target[c] != hub {
			v *= base[target[c]]
		}
		return v
	}
	assetsAcc := []string{"Assets:Bank", "Assets:Broker"}
	if contains(p.accounts, "Assets:Pillar3") {
		assetsAcc = append(assetsAcc, "Assets:Pillar3")
	}
	// opening deposit so that the portfolio is never empty in the window
	openLo, openHi := 5000, 90000
	if drift {
		openLo, openHi = 3000, 12000
	}
	j = append(j, Dir{Kind: 'T', Date: dateStr(d0), Desc: "Opening", Bookings: []Booking{{"Equity:Opening", "Assets:Bank", amt(r, openLo, openHi), hub}}})
	if r.chance(70) {
		c := pick(r, secs)
		q := fmt.Sprintf("%d", r.rangeInt(1, 40))
		j = append(j, Dir{Kind: 'T', Date: dateStr(d0.AddDate(0, 0, r.intn(3))), Desc: "Transfer in", Bookings: []Booking{{"Equity:Opening", "Assets:Broker", q, c}}})
	}
	nTxn := r.rangeInt(2, 18)
	// leave stretches without any directive: transactions cluster on few days
	for i := 0; i < nTxn; i++ {
		dt := d0.AddDate(0, 0, r.intn(p.days))
		t := Dir{Kind: 'T', Date: dateStr(dt)}
		switch r.intn(10) {
		case 0, 1: // external deposit
			t.Desc = "Deposit"
			t.Bookings = []Booking{{pick(r, []string{"Equity:Opening", "Income:Salary"}), pick(r, assetsAcc), amt(r, 100, 9000), pick(r, []string{hub, hub, pick(r, p.coms)})}}
		case 2: // external withdrawal
			t.Desc = "Withdrawal"
			t.Bookings = []Booking{{pick(r, assetsAcc), pick(r, []string{"Expenses:Rent", "Equity:Opening"}), amt(r, 50, 3000), hub}}
		case 3, 4: // trade through Equity:Trading
			c := pick(r, secs)
			n := r.rangeInt(1, 60)
			cost := float64(n) * priceOf(c) * (1 + float64(r.rangeInt(-3, 3))/100)
			t.Desc = "Buy " + c
			cash, sec := "Assets:Bank", "Assets:Broker"
			if r.chance(30) {
				cash = "Assets:Broker"
			}
			b1 := Booking{cash, "Equity:Trading", fmt.Sprintf("%.2f", cost), hub}
			b2 := Booking{"Equity:Trading", sec, fmt.Sprintf("%d", n), c}
			if r.chance(30) { // a sale
				t.Desc = "Sell " + c
				b1 = Booking{"Equity:Trading", cash, fmt.Sprintf("%.2f", cost), hub}
				b2 = Booking{sec, "Equity:Trading", fmt.Sprintf("%d", n), c}
			}
			t.Bookings = []Booking{b1, b2}
			switch r.intn(4) {
			case 0:
				t.HasPerf, t.Targets = true, []string{c, hub}
			case 1:
				t.HasPerf, t.Targets = true, []string{c}
			}
		case 5: // transfer inside the portfolio
			t.Desc = "Transfer"
			a := pick(r, assetsAcc)
			b := pick(r, assetsAcc)
			for b == a {
				b = pick(r, assetsAcc)
			}
			if r.chance(60) {
				t.Bookings = []Booking{{a, b, amt(r, 10, 2000), hub}}
			} else {
				t.Bookings = []Booking{{a, b, fmt.Sprintf("%d", r.rangeInt(1, 5)), pick(r, p.coms)}}
			}
		case 6: // dividend attributed to a security
			c := pick(r, secs)
			t.Desc = "Dividend " + c
			t.Bookings = []Booking{{"Income:Dividends", "Assets:Broker", amt(r, 1, 400), hub}}
			if r.chance(80) {
				t.HasPerf, t.Targets = true, []string{c}
			}
		case 7: // fee: performance effect on the whole portfolio
			t.Desc = "Fee"
			t.Bookings = []Booking{{"Assets:Broker", "Expenses:Fees", amt(r, 1, 90), hub}}
			if r.chance(70) {
				t.HasPerf = true
				if r.chance(30) {
					t.Targets = []string{hub}
				}
			}
		case 8: // liability
			t.Desc = "Card"
			if hasCC {
				t.Bookings = []Booking{{"Liabilities:CreditCard", "Expenses:Rent", amt(r, 10, 3000), hub}}
				if r.chance(40) {
					t.Bookings = []Booking{{"Assets:Bank", "Liabilities:CreditCard", amt(r, 10, 3000), hub}}
				}
			} else {
				t.Bookings = []Booking{{"Income:Salary", "Assets:Bank", amt(r, 1000, 9000), hub}}
			}
		default: // not a portfolio transaction at all
			t.Desc = "Accounting"
			t.Bookings = []Booking{{"Income:Salary", "Expenses:Rent", amt(r, 1, 500), hub}}
		}
		j = append(j, t)
	}
	if r.chance(35) {
		// full liquidation: on a day two thirds into the window one security's whole position in
		// Assets:Broker is sold (or, if it is short, bought back), so that its value is exactly zero
		// afterwards (seeded change C20-stale-liquidated-commodity needs a commodity that leaves
		// the portfolio while period ends follow)
		c := pick(r, secs)
		ld := d0.AddDate(0, 0, p.days*2/3)
		net := 0
		for _, d := range j {
			if d.Kind != 'T' || d.Date > dateStr(ld) {
				continue
			}
			for _, b := range d.Bookings {
				if b.Com != c {
					continue
				}
				var q int
				if _, err := fmt.Sscanf(b.Qty, "%d", &q); err != nil || fmt.Sprintf("%d", q) != b.Qty {
					net = 1 << 40 // a fractional quantity: give up
					break
				}
				if b.Debit == "Assets:Broker" {
					net += q
				}
				if b.Credit == "Assets:Broker" {
					net -= q
				}
			}
		}
		if net != 0 && net < 1<<30 && net > -(1<<30) {
			t := Dir{Kind: 'T', Date: dateStr(ld), Desc: "Liquidate " + c}
			if net > 0 {
				t.Bookings = []Booking{{"Equity:Trading", "Assets:Bank", fmt.Sprintf("%.2f", float64(net)*priceOf(c)), hub}, {"Assets:Broker", "Equity:Trading", fmt.Sprintf("%d", net), c}}
			} else {
				t.Bookings = []Booking{{"Assets:Bank", "Equity:Trading", fmt.Sprintf("%.2f", float64(-net)*priceOf(c)), hub}, {"Equity:Trading", "Assets:Broker", fmt.Sprintf("%d", -net), c}}
			}
			j = append(j, t)
		}
	}
	r.shuffle(len(j), func(a, b int) { j[a], j[b] = j[b], j[a] })
	p.j = j
	// universe: classes for some of the commodities
	p.classes = map[string]string{}
	return p
}

var pfClasses = map[string][]string{
	"CHF": {"Cash", "Cash:Home"}, "USD": {"Cash", "Cash:Foreign"}, "EUR": {"Cash", "Cash:Foreign"},
	"AAPL": {"Equities:US:Tech", "Equities:US", "Equities"}, "NESN": {"Equities:CH", "Equities"},
	"VT": {"Equities:World:Funds", "Equities:World", "Funds"}, "BTC": {"Crypto", "Alternatives:Crypto"},
}

func genUniverse(r *rng, p pfJournal) string {
	by := map[string][]string{}
	for _, c := range p.coms {
		if r.chance(15) {
			continue // unclassified: "Other"
		}
		cl := pick(r, pfClasses[c])
		by[cl] = append(by[cl], c)
	}
	var keys []string
	for k := range by {
		keys = append(keys, k)
	}
	sort.Strings(keys)
	var parts []string
	for _, k := range keys {
		parts = append(parts, k+"="+strings.Join(by[k], ","))
	}
	if len(parts) == 0 {
		return "-"
	}
	return strings.Join(parts, ";")
}

func genPfWindow(r *rng, p pfJournal, c *PfCfg) {
	c.To = dateStr(p.start.AddDate(0, 0, p.days+r.rangeInt(-5, 40)))
	c.From = "-"
	if r.chance(35) {
		c.From = dateStr(p.start.AddDate(0, 0, r.rangeInt(-10, p.days/2)))
	}
	switch {
	case p.days <= 45:
		c.Interval = pick(r, []string{"daily", "weekly", "weekly", "monthly", "once"})
	case p.days <= 150:
		c.Interval = pick(r, []string{"weekly", "monthly", "monthly", "quarterly", "once"})
	default:
		c.Interval = pick(r, []string{"monthly", "monthly", "quarterly", "quarterly", "yearly", "weekly"})
	}
	if r.chance(15) {
		c.Last = pick(r, []int{1, 2, 3, 5})
	}
}

func genFilters(r *rng, p pfJournal, c *PfCfg, comFilter bool) {
	if r.chance(25) {
		c.Acc = []string{pick(r, []string{"Broker", "^Assets", "Bank$", "^Assets:B", "Assets:Broker"})}
	}
	if comFilter && r.chance(20) {
		c.Com = []string{pick(r, p.coms)}
		if r.chance(30) {
			c.Com = append(c.Com, pick(r, p.coms))
		}
	}
}

// mappings: a rule without regex or anchored at a class prefix no longer than its level collapses whole sub-trees;
// one case in three the regex is anchored at a LONGER class path (or names a commodity), so that only part of a
// group is folded and the group's node is a leaf and a parent at once (seeded change C20b-leaf-group-not-propagated
// stopped summing the children of such a node; the generator used to avoid these mappings because the group law
// was checked on the visible rows only - it now reads the folded commodities off the run without -m)
func genMapping(r *rng, uni string) []string {
	if !r.chance(45) {
		return nil
	}
	if uni != "-" && r.chance(40) {
		// partial folding on purpose: two classes that share a prefix of k >= 1 segments; a rule of level <= k,
		// suffix 0, restricted to ONE of them folds its commodities into the shared group, which keeps the other
		// class as a member
		cls := strings.Split(uni, ";")
		r.shuffle(len(cls), func(a, b int) { cls[a], cls[b] = cls[b], cls[a] })
		for i := 0; i < len(cls); i++ {
			for k := 0; k < len(cls); k++ {
				a := strings.Split(cls[i][:strings.LastIndex(cls[i], "=")], ":")
				b := strings.Split(cls[k][:strings.LastIndex(cls[k], "=")], ":")
				if i == k || a[0] != b[0] {
					continue
				}
				shared := 0
				for shared < len(a) && shared < len(b) && a[shared] == b[shared] {
					shared++
				}
				rx := "^" + strings.Join(a, ":")
				if len(a) == shared { // a is a prefix of b: restrict the rule to one commodity of a
					rx += ":" + pick(r, strings.Split(cls[i][strings.LastIndex(cls[i], "=")+1:], ","))
				}
				return []string{fmt.Sprintf("%d,%s", r.rangeInt(1, shared), rx)}
			}
		}
	}
	level := r.rangeInt(1, 3)
	suffix := pick(r, []int{0, 0, 1, 1, 2})
	m := fmt.Sprintf("%d", level)
	if suffix > 0 {
		m = fmt.Sprintf("%d:%d", level, suffix)
	}
	if uni != "-" && r.chance(60) {
		cl := pick(r, strings.Split(uni, ";"))
		eq := strings.LastIndex(cl, "=")
		segs := strings.Split(cl[:eq], ":")
		switch {
		case r.chance(35):
			// the whole class path, or the class path and one of its commodities
			rx := "^" + strings.Join(segs, ":")
			if r.chance(40) {
				rx += ":" + pick(r, strings.Split(cl[eq+1:], ","))
			}
			m += "," + rx
		default:
			if len(segs) > level {
				segs = segs[:level]
			}
			m += ",^" + strings.Join(segs[:1+r.intn(len(segs))], ":")
		}
	}
	return []string{m}
}

func genC20(out *caseWriter, seed uint64, n int, args []string) error {
	var items []caseIn
	for i := 0; i < n; i++ {
		r := newRng(seed, "C20", i)
		p := genPfJournal(r)
		enc := p.j.Enc()

		// weights
		w := PfCfg{Val: p.val, Uni: "-", WFrom: "-"}
		genPfWindow(r, p, &w)
		genFilters(r, p, &w, true)
		if r.chance(60) {
			w.Uni = genUniverse(r, p)
		}
		w.Map = genMapping(r, w.Uni)
		w.Alpha = r.chance(60)
		items = append(items, caseIn{fmt.Sprintf("C20-%d-%d-w", seed, i), "C20.weights", w.Enc() + " | " + enc})

		if i%20 == 7 {
			// a pair trade: a long and a short position in one class of the universe that are worth the same, so that
			// the class's weight is exactly zero on every date while its members' weights are not (seeded change
			// C20g-skip-all-zero-rows dropped an all-zero row TOGETHER with the rows below it)
			d0 := time.Date(2021, 1, 4, 0, 0, 0, 0, time.UTC).AddDate(0, 0, r.intn(200))
			n1, p1 := r.rangeInt(2, 50)*2, r.rangeInt(5, 400)
			n2 := n1 / 2
			pj := Journal{
				{Kind: 'O', Date: dateStr(d0), Acc: "Assets:Bank"}, {Kind: 'O', Date: dateStr(d0), Acc: "Assets:Broker"}, {Kind: 'O', Date: dateStr(d0), Acc: "Equity:Opening"},
				{Kind: 'P', Date: dateStr(d0), Com: "AAPL", Price: fmt.Sprintf("%d", p1), Target: "CHF"},
				{Kind: 'P', Date: dateStr(d0), Com: "NESN", Price: fmt.Sprintf("%d", 2*p1), Target: "CHF"},
				{Kind: 'T', Date: dateStr(d0.AddDate(0, 0, 1)), Desc: "Opening", Bookings: []Booking{{"Equity:Opening", "Assets:Bank", amt(r, 1000, 90000), "CHF"}}},
				{Kind: 'T', Date: dateStr(d0.AddDate(0, 0, 2)), Desc: "Long", Bookings: []Booking{{"Equity:Opening", "Assets:Broker", fmt.Sprintf("%d", n1), "AAPL"}}},
				{Kind: 'T', Date: dateStr(d0.AddDate(0, 0, 2)), Desc: "Short", Bookings: []Booking{{"Assets:Broker", "Equity:Opening", fmt.Sprintf("%d", n2), "NESN"}}},
			}
			if r.chance(50) { // later the prices move apart: from then on the class has a weight
				pj = append(pj, Dir{Kind: 'P', Date: dateStr(d0.AddDate(0, 0, r.rangeInt(40, 90))), Com: "AAPL", Price: fmt.Sprintf("%d", p1+r.rangeInt(1, 4)), Target: "CHF"})
			}
			pw := PfCfg{Val: "CHF", Uni: pick(r, []string{"Equities=AAPL,NESN;Cash=CHF", "Equities:Pairs=AAPL,NESN", "Equities=AAPL,NESN,CHF"}), WFrom: "-", Alpha: r.chance(50),
				From: "-", To: dateStr(d0.AddDate(0, 0, r.rangeInt(20, 120))), Interval: pick(r, []string{"monthly", "weekly", "once"})}
			items = append(items, caseIn{fmt.Sprintf("C20-%d-%d-pair", seed, i), "C20.weights", pw.Enc() + " | " + pj.Enc()})
			pw.Alpha = true
			items = append(items, caseIn{fmt.Sprintf("C20-%d-%d-pairx", seed, i), "C20.cross", pw.Enc() + " | " + pj.Enc()})
		}

		// returns
		rt := PfCfg{Val: p.val, Uni: "-", WFrom: "-"}
		genPfWindow(r, p, &rt)
		genFilters(r, p, &rt, true)
		items = append(items, caseIn{fmt.Sprintf("C20-%d-%d-r", seed, i), "C20.returns", rt.Enc() + " | " + enc})

		// cross: same window for weights, balance and returns, from the journal's start
		x := PfCfg{Val: p.val, Uni: "-", WFrom: "-", Alpha: true}
		genPfWindow(r, p, &x)
		x.From, x.Last = "-", 0
		if r.chance(30) {
			x.WFrom = dateStr(p.start.AddDate(0, 0, r.rangeInt(1, p.days/2+1)))
		}
		genFilters(r, p, &x, true)
		items = append(items, caseIn{fmt.Sprintf("C20-%d-%d-x", seed, i), "C20.cross", x.Enc() + " | " + enc})
	}
	out.addBatch(items)
	return nil
}
