package main

// C05 (order and file layout do not matter) and C06 (output is a function of the input):
// metamorphic runs of the knut binary on permuted / split / repeated inputs.

import (
	"crypto/sha1"
	"fmt"
	"os"
	"path/filepath"
	"regexp"
	"sort"
	"strings"
	"time"
)

func init() {
	observers["C05.variants"] = obsC05
	observers["C06.repeat"] = obsC06
	gens["C05"] = genC05
	gens["C06"] = genC06
}

func shortHash(s string) string { return fmt.Sprintf("%x", sha1.Sum([]byte(s)))[:12] }

// layout of a journal over an include tree: file index per directive, parent per file,
// directory per file (relative to the root's directory); file 0 is the root
type layout struct {
	fileOf []int
	parent []int
	dir    []string
	names  []string
}

func genLayout(r *rng, n int, maxFiles int) layout {
	nf := 1 + r.intn(maxFiles)
	l := layout{fileOf: make([]int, n), parent: make([]int, nf), dir: make([]string, nf)}
	dirs := []string{".", "sub", "sub/deep", "other"}
	for f := 1; f < nf; f++ {
		l.parent[f] = r.intn(f)
		l.dir[f] = pick(r, dirs)
	}
	l.dir[0] = "."
	for i := range l.fileOf {
		l.fileOf[i] = r.intn(nf)
	}
	l.names = layoutNames(l, r)
	return l
}

func relPath(fromDir, toDir, name string, r *rng) string {
	// path of toDir/name relative to fromDir, sometimes with a detour through ".."
	up := 0
	if fromDir != "." {
		up = strings.Count(fromDir, "/") + 1
	}
	p := strings.Repeat("../", up)
	if toDir != "." {
		p += toDir + "/"
	}
	if r != nil && r.chance(25) && toDir != "." {
		base := toDir[strings.LastIndex(toDir, "/")+1:]
		p = strings.Repeat("../", up) + toDir + "/../" + base + "/"
	}
	return p + name
}

// layoutNames gives every file of a layout its name.  Two schemes: f<k>.knut, or names from a pool in which one
// name is the tail of another and the same base name occurs in several directories (accounts.knut below
// 2021/accounts.knut ...): a file layout a user would really have (seeded change C05b-cycle-check-substring compared
// include chains as strings and took such a tree for a cycle; it was missed with unique names and absolute paths).
func layoutNames(l layout, r *rng) []string {
	nf := len(l.parent)
	names := make([]string, nf)
	pool := []string{"accounts.knut", "myaccounts.knut", "prices.knut", "allprices.knut", "s.knut", "x-s.knut", "journal.knut"}
	scheme := 0
	if r != nil {
		scheme = r.intn(2)
	}
	used := map[string]bool{}
	for f := 0; f < nf; f++ {
		n := fmt.Sprintf("f%d.knut", f)
		if scheme == 1 {
			if c := pick(r, pool); !used[l.dir[f]+"/"+c] {
				n = c
			}
		}
		used[l.dir[f]+"/"+n] = true
		names[f] = n
	}
	return names
}

// writeLayout materialises the journal under dir according to l; returns the root file (absolute)
func writeLayout(dir string, j Journal, l layout, r *rng) string {
	nf := len(l.parent)
	content := make([]strings.Builder, nf)
	name := func(f int) string { return l.names[f] }
	for f := 1; f < nf; f++ {
		p := l.parent[f]
		fmt.Fprintf(&content[p], "include \"%s\"\n\n", relPath(l.dir[p], l.dir[f], name(f), r))
	}
	for i, d := range j {
		f := l.fileOf[i]
		content[f].WriteString(d.Text())
		content[f].WriteString("\n")
	}
	for f := 0; f < nf; f++ {
		writeFile(dir, l.dir[f]+"/"+name(f), content[f].String())
	}
	return dir + "/" + name(0)
}

// invocation varies how the root file is named on the command line: absolute, bare (cwd = its directory) or
// relative to the parent directory.  Returns (cwd, root argument).
func invocation(absRoot string, r *rng) (string, string) {
	d, b := filepath.Dir(absRoot), filepath.Base(absRoot)
	switch r.intn(3) {
	case 0:
		return d, absRoot
	case 1:
		return d, b
	}
	return filepath.Dir(d), filepath.Base(d) + "/" + b
}

var dateLine = regexp.MustCompile(`^\d{4}-\d{2}-\d{2} `)

// canonPrint sorts the printed directives by (date, kind, text): two printed journals that
// differ only in the relative order of directives sharing date and kind have equal canonical forms
func canonPrint(s string) string {
	var blocks []string
	var cur []string
	pendingPerf := ""
	flush := func() {
		if len(cur) > 0 {
			blocks = append(blocks, strings.Join(cur, "\n"))
			cur = nil
		}
	}
	for _, line := range strings.Split(s, "\n") {
		switch {
		case line == "":
			continue
		case strings.HasPrefix(line, "@performance"):
			flush()
			pendingPerf = line
		case dateLine.MatchString(line):
			flush()
			if pendingPerf != "" {
				cur = append(cur, line, pendingPerf) // keep the date line first for sorting
				pendingPerf = ""
			} else {
				cur = append(cur, line)
			}
		default:
			cur = append(cur, line)
		}
	}
	flush()
	kind := func(b string) int {
		first := strings.SplitN(b, "\n", 2)[0]
		f := strings.Fields(first)
		if len(f) < 2 {
			return 9
		}
		switch f[1] {
		case "price":
			return 0
		case "open":
			return 1
		case "balance":
			return 3
		case "close":
			return 4
		}
		return 2
	}
	sort.SliceStable(blocks, func(a, b int) bool {
		da, db := blocks[a][:10], blocks[b][:10]
		if da != db {
			return da < db
		}
		if kind(blocks[a]) != kind(blocks[b]) {
			return kind(blocks[a]) < kind(blocks[b])
		}
		return blocks[a] < blocks[b]
	})
	return strings.Join(blocks, "\n")
}

type c05Result struct {
	check      string
	printClass string
	bals       []string
	print      string
}

func runAll(root string, dir string, cfgs []BalCfg, env []string) c05Result {
	var res c05Result
	res.check = runKnut(knutBin(), dir, env, 20*time.Second, "check", root).class()
	for _, c := range cfgs {
		res.bals = append(res.bals, renderRun(runKnut(knutBin(), dir, env, 20*time.Second, append(c.Args(), root)...)))
	}
	pr := runKnut(knutBin(), dir, env, 20*time.Second, "print", root)
	res.printClass = pr.class()
	res.print = pr.Stdout
	return res
}

func splitCfgs(s string) []BalCfg {
	var out []BalCfg
	for _, p := range strings.Split(s, " & ") {
		out = append(out, DecodeBalCfg(p))
	}
	return out
}

// input: "<cfg> & <cfg> & <cfg> # <variant seed> <k perms> <k splits> | <journal>"
// observed: "check=<class> bal=<hash,hash,hash> print=<hash> | variants=same" or "... | diff <what> variant=<desc>"
func obsC05(in string) string {
	head, jS := splitInput(in)
	hp := strings.SplitN(head, " # ", 2)
	cfgs := splitCfgs(hp[0])
	var vseed uint64
	var kp, ks int
	fmt.Sscanf(hp[1], "%d %d %d", &vseed, &kp, &ks)
	j := DecodeJournal(jS)
	var out string
	withTempDir(func(dir string) {
		base := dir + "/base"
		os.MkdirAll(base, 0o755)
		root := writeFile(base, "journal.knut", j.Text())
		b := runAll(root, base, cfgs, nil)
		var hs []string
		for _, x := range b.bals {
			hs = append(hs, shortHash(x))
		}
		out = fmt.Sprintf("check=%s bal=%s print=%s", b.check, strings.Join(hs, ","), shortHash(canonPrint(b.print)))
		verdict := "variants=same"
		for v := 0; v < kp+ks && verdict == "variants=same"; v++ {
			r := newRng(vseed, "C05v", v)
			jv := append(Journal(nil), j...)
			r.shuffle(len(jv), func(a, c int) { jv[a], jv[c] = jv[c], jv[a] })
			vdir := fmt.Sprintf("%s/v%d", dir, v)
			os.MkdirAll(vdir, 0o755)
			var vroot, desc string
			if v < kp {
				vroot = writeFile(vdir, "journal.knut", jv.Text())
				desc = fmt.Sprintf("permutation#%d", v)
			} else {
				l := genLayout(r, len(jv), 6)
				vroot = writeLayout(vdir, jv, l, r)
				desc = fmt.Sprintf("split#%d(files=%d)", v, len(l.parent))
			}
			cwd, rootArg := vdir, vroot
			if v >= kp {
				cwd, rootArg = invocation(vroot, r)
				desc += " root=" + rootArg
			}
			var env []string
			if v >= kp {
				// the files of a layout are parsed and converted concurrently: vary the schedule too
				env = []string{fmt.Sprintf("KNUT_VERIF_SCHED=%d", vseed*31+uint64(v)), fmt.Sprintf("GOMAXPROCS=%d", []int{16, 2, 4}[v%3])}
			}
			x := runAll(rootArg, cwd, cfgs, env)
			switch {
			case x.check != b.check:
				verdict = fmt.Sprintf("diff check %s vs %s variant=%s", b.check, x.check, desc)
			case x.printClass != b.printClass || canonPrint(x.print) != canonPrint(b.print):
				verdict = fmt.Sprintf("diff print variant=%s", desc)
			default:
				for i := range x.bals {
					if x.bals[i] != b.bals[i] {
						verdict = fmt.Sprintf("diff balance[%d] variant=%s base=%s got=%s", i, desc, esc(trunc(b.bals[i], 300)), esc(trunc(x.bals[i], 300)))
						break
					}
				}
			}
		}
		out += " | " + verdict
	})
	return out
}

func trunc(s string, n int) string {
	if len(s) > n {
		return s[:n]
	}
	return s
}

func genC05(out *caseWriter, seed uint64, n int, args []string) error {
	var items []caseIn
	for i := 0; i < n; i++ {
		r := newRng(seed, "C05", i)
		o := defaultOpts(r)
		o.nTxn = r.rangeInt(3, 14)
		j := genJournal(r, o)
		j = dropConflictingPrices(j) // C05 excludes two different same-day prices of one pair
		if r.chance(30) {
			// an ill-formed journal: verdicts must agree too
			j = mutateInvalid(r, j)
		}
		var cs []string
		for k := 0; k < 3; k++ {
			c := genBalCfg(r, j, o, k == 1, k == 2)
			c.Alpha = true
			cs = append(cs, c.Enc())
		}
		in := fmt.Sprintf("%s # %d %d %d | %s", strings.Join(cs, " & "), r.next()%1000000, 3, 3, j.Enc())
		items = append(items, caseIn{fmt.Sprintf("C05-%d-%d", seed, i), "C05.variants", in})
	}
	out.addBatch(items)
	return nil
}

// mutateInvalid breaks the journal in one of a few lifecycle ways
func mutateInvalid(r *rng, j Journal) Journal {
	out := append(Journal(nil), j...)
	switch r.intn(5) {
	case 3, 4:
		// use after close, with a history: an income/expense account that has bookings is closed on the day of its
		// last booking; the next day has a booking on it AND an unrelated transaction, so that which of the two the
		// checker sees first depends on the order of the directives in the source (seeded change
		// C05d-checker-open-cache remembered the accounts it had looked up last and did not forget them at a close:
		// the verdict then depended on that order)
		last := map[string]string{}
		var others []string
		for _, d := range out {
			if d.Kind == 'T' && d.Accrual == nil {
				for _, b := range d.Bookings {
					for _, a := range []string{b.Credit, b.Debit} {
						if !isAL(a) && a != "Equity:Equity" && d.Date > last[a] {
							last[a] = d.Date
						}
					}
				}
			}
			if d.Kind == 'O' {
				others = append(others, d.Acc)
			}
		}
		var cands []string
		for a := range last {
			cands = append(cands, a)
		}
		sort.Strings(cands)
		if len(cands) > 0 && len(others) >= 3 {
			x := pick(r, cands)
			t, _ := time.Parse("2006-01-02", last[x])
			next := dateStr(t.AddDate(0, 0, 1))
			var o []string
			for _, a := range others {
				if a != x {
					o = append(o, a)
				}
			}
			com := "CHF"
			out = append(out, Dir{Kind: 'C', Date: last[x], Acc: x})
			k := r.rangeInt(1, 2)
			for q := 0; q < k; q++ {
				out = append(out, Dir{Kind: 'T', Date: next, Desc: "unrelated", Bookings: []Booking{{pick(r, o), pick(r, o), "1", com}}})
			}
			out = append(out, Dir{Kind: 'T', Date: next, Desc: "after close", Bookings: []Booking{{pick(r, o), x, "2", com}}})
			// no later directive on x: drop them
			var kept Journal
			for _, d := range out {
				drop := false
				if d.Date > last[x] && d.Desc != "after close" {
					if d.Kind == 'T' {
						for _, b := range d.Bookings {
							if b.Credit == x || b.Debit == x {
								drop = true
							}
						}
						if d.Accrual != nil && d.Accrual.Account == x {
							drop = true
						}
					}
				}
				if !drop {
					kept = append(kept, d)
				}
			}
			return kept
		}
	case 0: // drop an open
		for k, d := range out {
			if d.Kind == 'O' && r.chance(40) {
				return append(out[:k:k], out[k+1:]...)
			}
		}
	case 1: // duplicate an open
		for _, d := range out {
			if d.Kind == 'O' && r.chance(40) {
				return append(out, d)
			}
		}
	case 2: // wrong assertion
		for k, d := range out {
			if d.Kind == 'A' && len(d.Bals) > 0 {
				d.Bals = append([]Bal(nil), d.Bals...)
				d.Bals[0].Qty = d.Bals[0].Qty + "1"
				out[k] = d
				return out
			}
		}
	}
	return out
}

// ---------------------------------------------------------------- C06

// input: "<cmd> <runs> # <cfg> | <journal>"; cmd in {balance, print, check, transcode};
// the journal is spread over an include tree so that the loader runs concurrently.
// observed: "<class> <hash of stdout> | runs=same" or "| diff run=<i> ..."
func obsC06(in string) string {
	head, jS := splitInput(in)
	hp := strings.SplitN(head, " # ", 2)
	var cmd string
	var runs int
	var lseed uint64
	fmt.Sscanf(hp[0], "%s %d %d", &cmd, &runs, &lseed)
	cfg := DecodeBalCfg(hp[1])
	j := DecodeJournal(jS)
	var out string
	withTempDir(func(dir string) {
		r := newRng(lseed, "C06layout", 0)
		l := genLayout(r, len(j), 5)
		root := writeLayout(dir, j, l, r)
		var args []string
		switch cmd {
		case "balance":
			args = append(cfg.Args(), root)
		case "print":
			args = []string{"print", root}
		case "check":
			args = []string{"check", root}
		case "transcode":
			args = []string{"transcode", "-v", cfg.Val, root}
		case "weights", "returns":
			args = []string{"portfolio", cmd, "--color=false", "-v", cfg.Val, "--to", cfg.To}
			if f := ivFlag[cfg.Interval]; f != "" {
				args = append(args, f)
			}
			if cmd == "weights" && cfg.CSV {
				args = append(args, "--csv")
			}
			args = append(args, root)
		}
		var first runResult
		verdict := "runs=same"
		for i := 0; i < runs; i++ {
			env := []string{fmt.Sprintf("KNUT_VERIF_SCHED=%d", lseed*131+uint64(i)), fmt.Sprintf("GOMAXPROCS=%d", []int{1, 2, 16}[i%3])}
			x := runKnut(knutBin(), dir, env, 20*time.Second, args...)
			if i == 0 {
				first = x
				continue
			}
			if x.class() != first.class() || x.Stdout != first.Stdout {
				verdict = fmt.Sprintf("diff run=%d class %s/%s first=%s this=%s", i, first.class(), x.class(), esc(firstDiff(first.Stdout, x.Stdout)), "")
				break
			}
		}
		out = fmt.Sprintf("%s %s | %s", first.class(), shortHash(first.Stdout), verdict)
	})
	return out
}

func firstDiff(a, b string) string {
	la, lb := strings.Split(a, "\n"), strings.Split(b, "\n")
	for i := 0; i < len(la) && i < len(lb); i++ {
		if la[i] != lb[i] {
			return fmt.Sprintf("line %d: `%s` vs `%s`", i+1, trunc(la[i], 120), trunc(lb[i], 120))
		}
	}
	return fmt.Sprintf("length %d vs %d lines", len(la), len(lb))
}

// genC06: tie-rich inputs: equal amounts (equal sort weights), several price paths, same-day
// directives of every kind (they end up in different files), fully equal transactions.
func genC06(out *caseWriter, seed uint64, n int, args []string) error {
	var items []caseIn
	cmds := []string{"balance", "balance", "balance", "print", "print", "transcode", "check", "weights", "returns"}
	for i := 0; i < n; i++ {
		r := newRng(seed, "C06", i)
		o := defaultOpts(r)
		o.days = r.rangeInt(2, 12) // few days: many same-day directives
		o.nTxn = r.rangeInt(4, 16)
		j := genJournal(r, o)
		// duplicate some transactions exactly, and equalise amounts
		for k := 0; k < 3; k++ {
			d := j[r.intn(len(j))]
			if d.Kind == 'T' {
				j = append(j, d)
			}
		}
		cmd := pick(r, cmds)
		cfg := genBalCfg(r, j, o, r.chance(60), false)
		cfg.Alpha = r.chance(50)
		if cmd == "transcode" || cmd == "weights" || cmd == "returns" {
			cfg.Val = "CHF"
		}
		if i%8 == 6 {
			// portfolio weights with commodities of exactly equal weight (same quantity, same price)
			j, cfg = genC06WeightTies(r, o)
			cmd = "weights"
		}
		if i%4 == 3 {
			// exact ties between sibling report nodes in a valued report sorted by weight: a group with
			// 3-6 children holding fractional amounts and a sibling holding exactly their sum (the order
			// of equal-weight siblings and the summation order of the children's weights must not show;
			// seeded change C06-float-sort-weight was missed without this stream)
			j, cfg = genC06Ties(r, o)
			cmd = "balance"
		}
		if i%8 == 2 {
			// the same journals through `balance -v CHF -s <account>`: the per-commodity lines of an account whose
			// commodities have exactly equal valuated totals (seeded change C06e-commodity-lines-by-weight ordered them
			// by weight without reaching its tie-breaker; -v with -s was a flag pair no tie case used)
			j, cfg = genC06WeightTies(r, o)
			cmd = "balance"
			cfg.Show = []string{pick(r, []string{"Portfolio", "^Assets", "Assets:Portfolio"})}
			cfg.Alpha = false
		}
		runs := 8
		if i%4 == 3 || i%8 == 6 || i%8 == 2 {
			runs = 16
		}
		in := fmt.Sprintf("%s %d %d # %s | %s", cmd, runs, r.next()%1000000, cfg.Enc(), j.Enc())
		items = append(items, caseIn{fmt.Sprintf("C06-%d-%d", seed, i), "C06.repeat", in})
	}
	out.addBatch(items)
	return nil
}

// genC06Ties: Assets:<G1>:<k children> with two-decimal amounts, Assets:<G2> (leaf or one child) with exactly the
// sum, optionally a third group with the same sum again; CHF only, valued in CHF, weighted sort.
func genC06Ties(r *rng, o genOpts) (Journal, BalCfg) {
	groups := []string{"Deposits", "Liquid", "Alpha", "Zeta", "Bank", "Broker", "Cash", "Mid"}
	leaves := []string{"Holiday", "Car", "Gifts", "A1", "B2", "C3", "Xmas", "Tax", "Rent", "Zoo"}
	gp := r.perm(len(groups))
	d0 := dateStr(o.startDate)
	d1 := dateStr(o.startDate.AddDate(0, 0, 1))
	var j Journal
	j = append(j, Dir{Kind: 'O', Date: d0, Acc: "Equity:Equity"})
	ngroups := 2 + r.intn(2)
	k := r.rangeInt(3, 6)
	lp := r.perm(len(leaves))
	cents := 0
	for i := 0; i < k; i++ {
		c := r.rangeInt(1, 99999)
		if r.chance(50) {
			c = r.rangeInt(1, 9) * 1010 // 10.10, 20.20, ...
		}
		cents += c
		a := "Assets:" + groups[gp[0]] + ":" + leaves[lp[i]]
		j = append(j, Dir{Kind: 'O', Date: d0, Acc: a})
		j = append(j, Dir{Kind: 'T', Date: d1, Desc: "pot", Bookings: []Booking{{"Equity:Equity", a, fmt.Sprintf("%d.%02d", c/100, c%100), "CHF"}}})
	}
	for g := 1; g < ngroups; g++ {
		a := "Assets:" + groups[gp[g]]
		if r.chance(50) {
			a += ":" + leaves[lp[k+g]]
		}
		j = append(j, Dir{Kind: 'O', Date: d0, Acc: a})
		j = append(j, Dir{Kind: 'T', Date: d1, Desc: "same", Bookings: []Booking{{"Equity:Equity", a, fmt.Sprintf("%d.%02d", cents/100, cents%100), "CHF"}}})
	}
	r.shuffle(len(j), func(a, b int) { j[a], j[b] = j[b], j[a] })
	cfg := BalCfg{From: "-", To: dateStr(o.startDate.AddDate(0, 0, 5)), Interval: "once", Val: "CHF", Alpha: false, CSV: r.chance(50)}
	return j, cfg
}

// genC06WeightTies: k commodities held in equal quantity at equal prices (equal portfolio weights), CHF cash of
// the same value or not; `portfolio weights -v CHF` sorted by weight must not depend on map order.
func genC06WeightTies(r *rng, o genOpts) (Journal, BalCfg) {
	names := []string{"AAPL", "MSFT", "GOOG", "X1", "ZZZ", "BTC", "EUR", "USD"}
	np := r.perm(len(names))
	k := r.rangeInt(2, 5)
	d0 := dateStr(o.startDate)
	var j Journal
	j = append(j, Dir{Kind: 'O', Date: d0, Acc: "Equity:Equity"}, Dir{Kind: 'O', Date: d0, Acc: "Assets:Portfolio"}, Dir{Kind: 'O', Date: d0, Acc: "Assets:Bank"})
	price := fmt.Sprintf("%d", r.rangeInt(1, 500))
	qty := fmt.Sprintf("%d", r.rangeInt(1, 50))
	for i := 0; i < k; i++ {
		c := names[np[i]]
		j = append(j, Dir{Kind: 'P', Date: d0, Com: c, Price: price, Target: "CHF"})
		j = append(j, Dir{Kind: 'T', Date: dateStr(o.startDate.AddDate(0, 0, 1+r.intn(3))), Desc: "buy", Bookings: []Booking{{"Equity:Equity", "Assets:Portfolio", qty, c}}})
	}
	if r.chance(50) {
		j = append(j, Dir{Kind: 'T', Date: dateStr(o.startDate.AddDate(0, 0, 2)), Desc: "cash", Bookings: []Booking{{"Equity:Equity", "Assets:Bank", "1000", "CHF"}}})
	}
	r.shuffle(len(j), func(a, b int) { j[a], j[b] = j[b], j[a] })
	cfg := BalCfg{From: "-", To: dateStr(o.startDate.AddDate(0, 0, 40)), Interval: pick(r, []string{"once", "monthly", "weekly"}), Val: "CHF", CSV: r.chance(50)}
	return j, cfg
}

// dropConflictingPrices keeps the first price declaration per (date, unordered pair)
func dropConflictingPrices(j Journal) Journal {
	seen := map[string]bool{}
	var out Journal
	for _, d := range j {
		if d.Kind == 'P' {
			a, b := d.Com, d.Target
			if a > b {
				a, b = b, a
			}
			k := d.Date + "|" + a + "|" + b
			if seen[k] {
				continue
			}
			seen[k] = true
		}
		out = append(out, d)
	}
	return out
}
