package main

// C10: accrual expansion.  In-process: the journal text of ONE transaction with an @accrue
// annotation goes through the real parser and transaction.Create; the generated transactions
// are rendered for comparison with the model and for the executable specification.

import (
	"encoding/hex"
	"fmt"
	"strings"
	"time"

	"github.com/sboehler/knut/lib/model/registry"
	"github.com/sboehler/knut/lib/model/transaction"
	"github.com/sboehler/knut/lib/syntax"
	"github.com/sboehler/knut/lib/syntax/directives"
	"github.com/sboehler/knut/lib/syntax/parser"
)

func init() {
	gens["C10"] = genC10
	gens["C10sweep"] = genC10Sweep
	observers["C10.create"] = obsC10Create
}

var parserIntervals = map[string]bool{"daily": true, "weekly": true, "monthly": true, "quarterly": true}

// input: the encoding of one transaction directive (journal.go Dir.Enc, kind T)
// observed: transactions separated by ';', each
//
//	date|desc-hex|targets|acc other com qty,acc other com qty
//
// targets: "-" (nil) or "=" followed by the comma-separated commodities; "ERR" when the parser or
// transaction.Create return an error, "PANIC" when they panic.
func obsC10Create(in string) (res string) {
	defer func() {
		if r := recover(); r != nil {
			res = "PANIC"
		}
	}()
	j := DecodeJournal(in)
	if len(j) != 1 || j[0].Kind != 'T' {
		return "BADINPUT"
	}
	d := j[0]
	// the parser accepts four of the library's six intervals; the other two are reached by
	// parsing "monthly" and pointing the interval's range at the wanted word
	patch := ""
	if d.Accrual != nil && !parserIntervals[d.Accrual.Interval] {
		patch = d.Accrual.Interval
		a := *d.Accrual
		a.Interval = "monthly"
		d.Accrual = &a
	}
	p := parser.New(d.Text(), "")
	if err := p.Advance(); err != nil {
		return "ERR"
	}
	f, err := p.ParseFile()
	if err != nil {
		return "ERR"
	}
	var trx *syntax.Transaction
	for _, w := range f.Directives {
		if t, ok := w.Directive.(syntax.Transaction); ok {
			if trx != nil {
				return "BADINPUT"
			}
			t := t
			trx = &t
		}
	}
	if trx == nil {
		return "BADINPUT"
	}
	if patch != "" {
		trx.Addons.Accrual.Interval.Range = directives.Range{Start: 0, End: len(patch), Text: patch}
	}
	ts, err := transaction.Create(registry.New(), trx)
	if err != nil {
		return "ERR"
	}
	var out []string
	for _, t := range ts {
		desc := "-"
		if t.Description != "" {
			desc = hex.EncodeToString([]byte(t.Description))
		}
		targets := "-"
		if t.Targets != nil {
			var cs []string
			for _, c := range t.Targets {
				cs = append(cs, c.Name())
			}
			targets = "=" + strings.Join(cs, ",")
		}
		var ps []string
		for _, p := range t.Postings {
			ps = append(ps, fmt.Sprintf("%s %s %s %s", p.Account.Name(), p.Other.Name(), p.Commodity.Name(), p.Quantity.String()))
		}
		out = append(out, fmt.Sprintf("%s|%s|%s|%s", t.Date.Format("2006-01-02"), desc, targets, strings.Join(ps, ",")))
	}
	return strings.Join(out, ";")
}

var c10Descs = []string{"rent", "Insurance 2020", "Währung", "a (b) c", "x", "Salary / bonus", "accrual 1/2", "évaluation"}

func c10Amount(r *rng) string {
	var s string
	switch r.intn(15) {
	case 14:
		// the decimal expansion of a float64 sum, as an export of a float-based system writes it: 16-17 significant
		// digits just below or above a round number (seeded change C10g-accrual-div-instead-of-quorem divided with
		// 16 places of precision and was off by a whole step for such amounts)
		s = pick(r, []string{"0.8999999999999999", "1.1999999999999999", "0.30000000000000004", "2.6999999999999997", "0.5999999999999999",
			"11.999999999999998", "1.0999999999999999", "0.7999999999999999", "3.5999999999999996", "0.09999999999999999", "89.99999999999999"})
	case 0:
		s = "0"
	case 1:
		s = fmt.Sprintf("%d", r.rangeInt(1, 20000))
	case 2:
		s = fmt.Sprintf("%d.%d0", r.rangeInt(0, 500), r.rangeInt(0, 9))
	case 3, 4:
		// many decimals (up to 12)
		n := r.rangeInt(3, 12)
		frac := ""
		for k := 0; k < n; k++ {
			frac += fmt.Sprint(r.intn(10))
		}
		s = fmt.Sprintf("%d.%s", r.rangeInt(0, 999), frac)
	case 5:
		s = fmt.Sprintf("%d", r.rangeInt(100000, 99999999))
	case 6:
		s = fmt.Sprintf("0.%0*d", r.rangeInt(1, 12), r.rangeInt(1, 9)) // tiny
	case 7:
		s = pick(r, []string{"1", "100", "1000", "7", "0.1", "0.01", "10.0", "0.0", "0.05", "99.99"})
	default:
		s = fmt.Sprintf("%d.%02d", r.rangeInt(0, 3000), r.rangeInt(0, 99))
	}
	if r.chance(25) && s != "0" {
		s = "-" + s
	}
	return s
}

func c10Account(r *rng, typ string) string {
	return pick(r, accountPool[typ])
}

// window: independent of the transaction date; the number of periods is kept moderate
func c10Window(r *rng, iv string) (time.Time, time.Time) {
	var s time.Time
	switch r.intn(8) {
	case 0: // around leap days
		s = time.Date(pick(r, []int{2016, 2020, 2024, 2000, 1900, 2100}), 2, r.rangeInt(26, 29), 0, 0, 0, 0, time.UTC)
	case 1: // month / year ends
		s = time.Date(r.rangeInt(2015, 2025), time.Month(r.rangeInt(1, 12)+1), 0, 0, 0, 0, 0, time.UTC).AddDate(0, 0, r.rangeInt(-1, 1))
	case 2: // far
		s = time.Date(r.rangeInt(2, 9900), time.Month(r.rangeInt(1, 12)), r.rangeInt(1, 28), 0, 0, 0, 0, time.UTC)
	default:
		s = time.Date(r.rangeInt(2015, 2025), time.Month(r.rangeInt(1, 12)), r.rangeInt(1, 31), 0, 0, 0, 0, time.UTC)
	}
	maxDays := map[string]int{"once": 4000, "daily": 120, "weekly": 800, "monthly": 3000, "quarterly": 6000, "yearly": 12000}[iv]
	var e time.Time
	switch r.intn(10) {
	case 0:
		e = s // single day
	case 1:
		e = s.AddDate(0, 0, r.rangeInt(1, 6))
	case 2: // long
		e = s.AddDate(0, 0, r.rangeInt(maxDays/2, maxDays))
	case 3: // ends at a month end / leap day
		e = time.Date(s.Year(), s.Month()+time.Month(r.rangeInt(1, 14)), 0, 0, 0, 0, 0, time.UTC)
	default:
		e = s.AddDate(0, 0, r.rangeInt(0, maxDays/4+10))
	}
	if int(e.Sub(s).Hours()/24) > maxDays {
		e = s.AddDate(0, 0, maxDays)
	}
	if e.Year() > 9999 {
		e = s
	}
	return s, e
}

func genC10Case(r *rng) Dir {
	txDate := time.Date(r.rangeInt(2015, 2025), time.Month(r.rangeInt(1, 12)), r.rangeInt(1, 28), 0, 0, 0, 0, time.UTC)
	t := Dir{Kind: 'T', Date: dateStr(txDate), Desc: pick(r, c10Descs)}
	if r.chance(4) {
		t.Desc = ""
	}
	nb := r.rangeInt(1, 5)
	if r.chance(40) {
		nb = 1
	}
	// account-type combinations: every pair of types occurs, equity included
	for k := 0; k < nb; k++ {
		ct, dt := pick(r, typeOrder), pick(r, typeOrder)
		if r.chance(35) { // the typical shape: A/L or equity against income/expense
			ct = pick(r, []string{"Assets", "Liabilities", "Equity"})
			dt = pick(r, []string{"Income", "Expenses"})
			if r.chance(50) {
				ct, dt = dt, ct
			}
		}
		c, d := c10Account(r, ct), c10Account(r, dt)
		if c == d && r.chance(90) {
			k--
			continue
		}
		t.Bookings = append(t.Bookings, Booking{c, d, c10Amount(r), pick(r, allComs[:r.rangeInt(1, 4)])})
	}
	if r.chance(30) {
		t.HasPerf = true
		n := r.intn(3)
		for k := 0; k < n; k++ {
			t.Targets = append(t.Targets, pick(r, allComs))
		}
	}
	iv := pick(r, []string{"daily", "weekly", "monthly", "monthly", "quarterly", "quarterly"})
	if r.chance(8) {
		iv = pick(r, []string{"once", "yearly"}) // library level only
	}
	s, e := c10Window(r, iv)
	// accrual account: usually a balance-sheet account that is not in the transaction; sometimes
	// equity or income/expense; sometimes one of the transaction's own accounts
	var acc string
	switch x := r.intn(20); {
	case x < 2:
		b := pick(r, t.Bookings)
		acc = pick(r, []string{b.Credit, b.Debit})
	case x < 4:
		acc = c10Account(r, pick(r, []string{"Equity", "Income", "Expenses"}))
	default:
		acc = pick(r, []string{"Assets:Accruals", "Liabilities:Accruals", "Assets:Receivables", "Liabilities:Payables:Rent"})
	}
	switch r.intn(60) {
	case 0: // outside C10's hypothesis: inverted window (F8)
		e = s.AddDate(0, 0, -r.rangeInt(1, 40))
	case 1: // outside C10's hypothesis: window starts at the zero time (F19)
		s = time.Date(1, 1, 1, 0, 0, 0, 0, time.UTC)
		e = s.AddDate(0, r.rangeInt(0, 3), r.rangeInt(0, 20))
	}
	t.Accrual = &Accrual{iv, dateStr(s), dateStr(e), acc}
	return t
}

// genC10: random transactions x intervals x windows
func genC10(out *caseWriter, seed uint64, n int, _ []string) error {
	// the reproducer of findings/C10-equity-dropped.md always runs first
	out.add(fmt.Sprintf("C10-%d-fixed0", seed), "C10.create", Dir{Kind: 'T', Date: "2020-01-15", Desc: "rent",
		Bookings: []Booking{{"Equity:Opening", "Expenses:Rent", "300", "CHF"}},
		Accrual:  &Accrual{"monthly", "2020-01-01", "2020-03-31", "Assets:Receivables"}}.Enc())
	for i := 0; i < n; i++ {
		r := newRng(seed, "C10", i)
		out.add(fmt.Sprintf("C10-%d-%d", seed, i), "C10.create", genC10Case(r).Enc())
	}
	return nil
}

// genC10Sweep: one fixed transaction (asset, expense, equity and income legs, a remainder, a
// negative amount with 12 decimals), every window inside [args[0], args[1]] x the four parser
// intervals (daily: windows of at most 92 days, to bound the output)
func genC10Sweep(out *caseWriter, seed uint64, _ int, args []string) error {
	from, to := pd(args[0]), pd(args[1])
	t := Dir{Kind: 'T', Date: "2020-06-15", Desc: "sweep", Bookings: []Booking{
		{"Assets:Bank", "Expenses:Rent", "1000", "CHF"},
		{"Equity:Opening", "Income:Salary", "-77.123456789012", "USD"},
	}}
	i := 0
	for s := from; !s.After(to); s = s.AddDate(0, 0, 1) {
		for e := s; !e.After(to); e = e.AddDate(0, 0, 1) {
			for _, iv := range []string{"daily", "weekly", "monthly", "quarterly"} {
				if iv == "daily" && e.Sub(s).Hours()/24 > 92 {
					continue
				}
				t.Accrual = &Accrual{iv, dateStr(s), dateStr(e), "Assets:Receivables"}
				out.add(fmt.Sprintf("C10s-%d-%d", seed, i), "C10.create", t.Enc())
				i++
			}
		}
	}
	return nil
}
