package main

// Structured journals: generated as data, rendered as knut journal text for the
// implementation and as a one-line encoding for the model (kmodel parses the same data, so
// both sides start from the same directives).

import (
	"encoding/hex"
	"fmt"
	"math/big"
	"sort"
	"strings"
	"time"
)

type Booking struct{ Credit, Debit, Qty, Com string }
type Bal struct{ Acc, Qty, Com string }
type Accrual struct{ Interval, Start, End, Account string }

type Dir struct {
	Kind     byte // 'P' price, 'O' open, 'C' close, 'A' assertion, 'T' transaction
	Date     string
	Com      string // P
	Price    string // P
	Target   string // P
	Acc      string // O, C
	Bals     []Bal  // A
	Desc     string // T
	Targets  []string
	HasPerf  bool
	Accrual  *Accrual
	Bookings []Booking
}

// Text renders the directive in knut's journal syntax (canonical layout).
func (d Dir) Text() string {
	var b strings.Builder
	switch d.Kind {
	case 'P':
		fmt.Fprintf(&b, "%s price %s %s %s\n", d.Date, d.Com, d.Price, d.Target)
	case 'O':
		fmt.Fprintf(&b, "%s open %s\n", d.Date, d.Acc)
	case 'C':
		fmt.Fprintf(&b, "%s close %s\n", d.Date, d.Acc)
	case 'A':
		if len(d.Bals) == 1 {
			fmt.Fprintf(&b, "%s balance %s %s %s\n", d.Date, d.Bals[0].Acc, d.Bals[0].Qty, d.Bals[0].Com)
		} else {
			fmt.Fprintf(&b, "%s balance\n", d.Date)
			for _, x := range d.Bals {
				fmt.Fprintf(&b, "%s %s %s\n", x.Acc, x.Qty, x.Com)
			}
		}
	case 'T':
		if d.HasPerf {
			fmt.Fprintf(&b, "@performance(%s)\n", strings.Join(d.Targets, ","))
		}
		if d.Accrual != nil {
			fmt.Fprintf(&b, "@accrue %s %s %s %s\n", d.Accrual.Interval, d.Accrual.Start, d.Accrual.End, d.Accrual.Account)
		}
		fmt.Fprintf(&b, "%s \"%s\"\n", d.Date, d.Desc)
		for _, k := range d.Bookings {
			fmt.Fprintf(&b, "%s %s %s %s\n", k.Credit, k.Debit, k.Qty, k.Com)
		}
	}
	return b.String()
}

func hexs(s string) string {
	if s == "" {
		return "-"
	}
	return hex.EncodeToString([]byte(s))
}

// Enc renders the directive for the model: space-separated tokens; free text is hex.
func (d Dir) Enc() string {
	switch d.Kind {
	case 'P':
		return fmt.Sprintf("P %s %s %s %s", d.Date, d.Com, d.Price, d.Target)
	case 'O':
		return fmt.Sprintf("O %s %s", d.Date, d.Acc)
	case 'C':
		return fmt.Sprintf("C %s %s", d.Date, d.Acc)
	case 'A':
		var p []string
		for _, x := range d.Bals {
			p = append(p, x.Acc, x.Qty, x.Com)
		}
		return fmt.Sprintf("A %s %s", d.Date, strings.Join(p, " "))
	case 'T':
		perf := "-"
		if d.HasPerf {
			perf = "perf=" + strings.Join(d.Targets, ",")
		}
		acc := "-"
		if d.Accrual != nil {
			acc = fmt.Sprintf("accrue=%s,%s,%s,%s", d.Accrual.Interval, d.Accrual.Start, d.Accrual.End, d.Accrual.Account)
		}
		var p []string
		for _, k := range d.Bookings {
			p = append(p, k.Credit, k.Debit, k.Qty, k.Com)
		}
		return fmt.Sprintf("T %s %s %s %s %s", d.Date, hexs(d.Desc), perf, acc, strings.Join(p, " "))
	}
	return ""
}

type Journal []Dir

func (j Journal) Text() string {
	var b strings.Builder
	for _, d := range j {
		b.WriteString(d.Text())
		b.WriteString("\n")
	}
	return b.String()
}

func (j Journal) Enc() string {
	var p []string
	for _, d := range j {
		p = append(p, d.Enc())
	}
	return strings.Join(p, " ; ")
}

// DecodeJournal parses the encoding back (used by observers: the input line is the only
// source of truth for a case).
func DecodeJournal(s string) Journal {
	var j Journal
	for _, part := range strings.Split(s, " ; ") {
		f := strings.Fields(part)
		if len(f) == 0 {
			continue
		}
		switch f[0] {
		case "P":
			j = append(j, Dir{Kind: 'P', Date: f[1], Com: f[2], Price: f[3], Target: f[4]})
		case "O":
			j = append(j, Dir{Kind: 'O', Date: f[1], Acc: f[2]})
		case "C":
			j = append(j, Dir{Kind: 'C', Date: f[1], Acc: f[2]})
		case "A":
			d := Dir{Kind: 'A', Date: f[1]}
			for i := 2; i+2 < len(f); i += 3 {
				d.Bals = append(d.Bals, Bal{f[i], f[i+1], f[i+2]})
			}
			j = append(j, d)
		case "T":
			d := Dir{Kind: 'T', Date: f[1]}
			if f[2] != "-" {
				b, _ := hex.DecodeString(f[2])
				d.Desc = string(b)
			}
			if strings.HasPrefix(f[3], "perf=") {
				d.HasPerf = true
				if t := strings.TrimPrefix(f[3], "perf="); t != "" {
					d.Targets = strings.Split(t, ",")
				}
			}
			if strings.HasPrefix(f[4], "accrue=") {
				a := strings.Split(strings.TrimPrefix(f[4], "accrue="), ",")
				d.Accrual = &Accrual{a[0], a[1], a[2], a[3]}
			}
			for i := 5; i+3 < len(f); i += 4 {
				d.Bookings = append(d.Bookings, Booking{f[i], f[i+1], f[i+2], f[i+3]})
			}
			j = append(j, d)
		}
	}
	return j
}

// ---------------------------------------------------------------- decimals (harness side)

// rat parses a decimal literal exactly.
func rat(s string) *big.Rat {
	r, ok := new(big.Rat).SetString(s)
	if !ok {
		panic("bad decimal " + s)
	}
	return r
}

func ratStr(r *big.Rat, places int) string {
	s := r.FloatString(places)
	if strings.Contains(s, ".") {
		s = strings.TrimRight(s, "0")
		s = strings.TrimSuffix(s, ".")
	}
	if s == "-0" {
		s = "0"
	}
	return s
}

// ---------------------------------------------------------------- generation

type genOpts struct {
	nAccounts   int
	nTxn        int
	commodities []string
	prices      bool // declare prices so that every commodity has a price in CHF/USD from the start
	accruals    bool
	perf        bool
	assertions  bool
	closes      bool
	startDate   time.Time
	days        int
	manyDec     bool
}

// the last names of every type repeat a type name inside a later segment (FixedAssets, InterestIncome, ...): names
// a chart of accounts really has, and the ones on which a string operation on the whole name goes wrong where one
// on the first segment is meant (seeded change C02c-swaptype-replaceall rewrote every occurrence of the type name
// in --remap and was missed with the plain names)
var accountPool = map[string][]string{
	"Assets":      {"Assets", "Assets:Bank", "Assets:Bank:Checking", "Assets:Bank:Savings", "Assets:Portfolio", "Assets:Cash", "Assets:Broker:Acc1", "Assets:Receivables", "Assets:Broker:Acc2:Sub:Leaf", "Assets:FixedAssets:Machinery", "Assets:LiabilitiesPrepaid"},
	"Liabilities": {"Liabilities", "Liabilities:CreditCard", "Liabilities:Mortgage", "Liabilities:Loans:Car", "Liabilities:CurrentLiabilities:Tax"},
	"Equity":      {"Equity:Equity", "Equity:Opening", "Equity:Valuation:Misc", "Equity:OwnersEquity"},
	"Income":      {"Income:Salary", "Income:Dividends", "Income:Interest:Bank", "Income:Portfolio", "Income:InterestIncome"},
	"Expenses":    {"Expenses:Rent", "Expenses:Groceries", "Expenses:Fees", "Expenses:Taxes:Federal", "Expenses:Insurance", "Expenses:Taxes:Cantonal:Direct:Y2020", "Expenses:TravelExpenses:Hotel"},
}
var typeOrder = []string{"Assets", "Liabilities", "Equity", "Income", "Expenses"}

func randAmount(r *rng, manyDec bool) string {
	var s string
	switch r.intn(12) {
	case 0:
		s = "0"
	case 1:
		s = fmt.Sprintf("%d", r.rangeInt(1, 20000))
	case 2:
		s = fmt.Sprintf("%d.%d0", r.rangeInt(0, 500), r.rangeInt(0, 9)) // trailing zero
	case 3:
		if manyDec {
			s = fmt.Sprintf("%d.%08d", r.rangeInt(0, 99), r.rangeInt(1, 99999999))
		} else {
			s = fmt.Sprintf("%d.%03d", r.rangeInt(0, 99), r.rangeInt(1, 999))
		}
	case 4:
		s = fmt.Sprintf("%d", r.rangeInt(100000, 99999999))
		if r.chance(15) {
			// 18-21 digits: beyond int64 (seeded change C04e-short-decimal-fast-path read literals of up to 19
			// characters into an int64 mantissa; 19 digits from 9223372036854775808 on wrapped around)
			s = pick(r, []string{"9223372036854775807", "9223372036854775808", "9999999999999999999", "18446744073709551615",
				"18446744073709551616", "1000000000000000000", "4611686018427387904",
				fmt.Sprintf("%d%d", r.rangeInt(923, 999), r.rangeInt(1000000000000000, 9999999999999999)),
				fmt.Sprintf("%d%d", r.rangeInt(90, 9999), r.rangeInt(1000000000000000, 9999999999999999))})
		}
	default:
		s = fmt.Sprintf("%d.%02d", r.rangeInt(0, 3000), r.rangeInt(0, 99))
	}
	if r.chance(12) && s != "0" {
		s = "-" + s
	}
	return s
}

func dateStr(t time.Time) string { return t.Format("2006-01-02") }

// genSpan picks the first day and the length in days of a generated journal.  One case in five sits on a
// calendar corner - the last days of a year (leap and common, century years) or the end of February - with
// only a few days, so that directives fall on consecutive dates across the boundary (seeded change
// C04b-daykey-collision merged 31 December of a leap year with 1 January and was missed without this).
func genSpan(r *rng, lo, hi int) (time.Time, int) {
	if r.chance(20) {
		y := pick(r, []int{2019, 2020, 2023, 2024, 2000, 2100, 2016, 2096})
		var s time.Time
		if r.chance(70) {
			s = time.Date(y, 12, r.rangeInt(27, 31), 0, 0, 0, 0, time.UTC)
		} else {
			s = time.Date(y, 2, r.rangeInt(26, 28), 0, 0, 0, 0, time.UTC)
		}
		return s, r.rangeInt(3, 9)
	}
	return time.Date(2020, 1, 1, 0, 0, 0, 0, time.UTC).AddDate(0, 0, r.intn(400)), r.rangeInt(lo, hi)
}

// genJournal builds a journal that knut accepts (unless later mutated): every account is
// opened before use, prices cover every commodity from the first day, assertions state the
// running quantities.
func genJournal(r *rng, o genOpts) Journal {
	var accounts []string
	for _, t := range typeOrder {
		pool := accountPool[t]
		n := 1 + r.intn(2)
		if t == "Assets" {
			n = 2 + r.intn(2)
		}
		perm := r.perm(len(pool))
		for i := 0; i < n && i < len(pool); i++ {
			accounts = append(accounts, pool[perm[i]])
		}
	}
	for len(accounts) > o.nAccounts && o.nAccounts >= 5 {
		i := r.intn(len(accounts))
		// keep at least one account per type
		t := strings.Split(accounts[i], ":")[0]
		cnt := 0
		for _, a := range accounts {
			if strings.HasPrefix(a, t+":") {
				cnt++
			}
		}
		if cnt > 1 {
			accounts = append(accounts[:i], accounts[i+1:]...)
		} else {
			break
		}
	}
	if r.chance(8) {
		// an account that differs from another one only in the case of a letter of an inner segment (two distinct
		// accounts: names are case-sensitive; seeded change C05e-account-names-case-insensitive merged them under
		// whichever spelling was mentioned first)
		for _, a := range accounts {
			segs := strings.Split(a, ":")
			if len(segs) >= 3 {
				segs[1] = strings.ToLower(segs[1][:1]) + segs[1][1:]
				segs[len(segs)-1] = "Vault"
				accounts = append(accounts, strings.Join(segs, ":"))
				break
			}
		}
	}
	if r.chance(5) {
		// one name in two Unicode-equivalent spellings (precomposed Hangul syllables / conjoining jamo; the letter
		// A-with-ring / the Angstrom sign): two distinct accounts for knut, which compares bytes (seeded change
		// C09g-account-names-stored-in-nfc printed both in the composed form)
		if r.chance(50) {
			accounts = append(accounts, "Expenses:\uc2dd\ube44", "Expenses:\u1109\u1175\u11a8\u1107\u1175")
		} else {
			accounts = append(accounts, "Assets:\u00c5bo", "Assets:\u212bbo")
		}
	}
	var j Journal
	d0 := o.startDate
	early := 0 // accrual windows may start before the first transaction: open and price earlier
	if o.accruals {
		early = 110
	}
	for _, a := range accounts {
		j = append(j, Dir{Kind: 'O', Date: dateStr(d0.AddDate(0, 0, -early-r.intn(3))), Acc: a})
	}
	coms := o.commodities
	chain3 := false
	_ = chain3
	if o.prices {
		// CHF is the hub; USD, EUR quoted in CHF; others quoted in USD (chain) or CHF
		for _, c := range coms {
			if c == "CHF" {
				continue
			}
			target := "CHF"
			if c != "USD" && c != "EUR" && r.chance(60) && contains(coms, "USD") {
				target = "USD"
				if r.chance(35) && contains(coms, "EUR") {
					// a chain of three: c in USD, USD in EUR (below), EUR in CHF
					chain3 = true
				}
			}
			if c == "USD" && chain3later(coms) && r.chance(35) {
				target = "EUR"
			}
			n := 1 + r.intn(6)
			base := float64(r.rangeInt(50, 30000)) / 100
			lastPs := ""
			for k := 0; k < n; k++ {
				dt := d0.AddDate(0, 0, -early-3)
				if k > 0 {
					dt = d0.AddDate(0, 0, r.intn(o.days))
				}
				p := base * (1 + float64(r.rangeInt(-20, 20))/100)
				ps := fmt.Sprintf("%.4f", p)
				if k > 0 && lastPs != "" && r.chance(22) {
					// a quote that is stated again unchanged on a later day (a price feed repeats the last close), next to
					// quotes of other pairs that do move on that day (seeded change C05f-price-table-dirty-flag-overwritten
					// skipped the day's re-normalisation when the LAST price of the day equalled the stored one)
					j = append(j, Dir{Kind: 'P', Date: dateStr(dt), Com: c, Price: lastPs, Target: target})
					continue
				}
				lastPs = ps
				if r.chance(8) {
					// a price with 7-10 significant decimal places (a weak currency quoted in a strong one); every other
					// generated price had at most 6 (seeded change C09d-print-rounds-prices printed prices rounded to 6)
					p = p / 100000
					ps = fmt.Sprintf("%.*f", r.rangeInt(7, 10), p)
				}
				if k > 0 && len(coms) > 2 && r.chance(25) {
					// the price graph changes over time: a later quote of c against ANOTHER commodity
					// (an alternative, often shorter, path between commodities that are already
					// connected; seeded change C03-cached-price-traversal was missed without this)
					alt := pick(r, coms)
					if alt != c && alt != target {
						j = append(j, Dir{Kind: 'P', Date: dateStr(dt), Com: c, Price: fmt.Sprintf("%.4f", float64(r.rangeInt(50, 30000))/100), Target: alt})
						continue
					}
				}
				if k > 0 && r.chance(6) {
					// a hyperinflation quote: a price above 10^8, whose reciprocal (stored for the reverse direction)
					// truncates to 0 at 8 places; later quotes of the pair follow at ordinary or huge levels (seeded change
					// C03c-skip-zero-reciprocal kept the stale reverse price in that case and was missed without these)
					j = append(j, Dir{Kind: 'P', Date: dateStr(dt), Com: c, Price: fmt.Sprintf("%d.%02d", r.rangeInt(100000001, 90000000000), r.intn(100)), Target: target})
					continue
				}
				if r.chance(20) && k > 0 {
					// inverse declaration
					j = append(j, Dir{Kind: 'P', Date: dateStr(dt), Com: target, Price: fmt.Sprintf("%.6f", 1/p), Target: c})
				} else {
					j = append(j, Dir{Kind: 'P', Date: dateStr(dt), Com: c, Price: ps, Target: target})
				}
			}
		}
	}
	// descriptions on both sides of the texts knut generates itself ("Adjust value of ...", "Closing ..."): transactions
	// of a day are ordered by description in several places (seeded change C16b-merge-drops-late-adjustments lost the
	// generated transactions that sort after the day's last user transaction; every description used to sort after them)
	descs := []string{"Salary", "Rent", "Groceries", "Transfer", "Buy shares", "Dividend", "Fees", "Währung", "Misc",
		"AAPL dividend", "1st instalment", "ATM", "Adjust", "Account fee", "a lower-case start", "Zoo"}
	accrualAcc := ""
	for _, a := range accounts {
		if strings.HasPrefix(a, "Assets:") {
			accrualAcc = a
		}
	}
	for i := 0; i < o.nTxn; i++ {
		dt := d0.AddDate(0, 0, r.intn(o.days))
		t := Dir{Kind: 'T', Date: dateStr(dt), Desc: pick(r, descs)}
		nb := 1
		if r.chance(30) {
			nb = 2 + r.intn(2)
		}
		if r.chance(5) {
			// a payslip: one transaction that touches many positions (seeded change C01e-netting-array-of-eight
			// netted a transaction's postings in a fixed array of 8 keys and lost the ninth)
			nb = r.rangeInt(5, 12)
		}
		for k := 0; k < nb; k++ {
			c := accounts[r.intn(len(accounts))]
			d := accounts[r.intn(len(accounts))]
			for d == c {
				d = accounts[r.intn(len(accounts))]
			}
			t.Bookings = append(t.Bookings, Booking{c, d, randAmount(r, o.manyDec), pick(r, coms)})
		}
		if o.perf && r.chance(15) {
			t.HasPerf = true
			if r.chance(80) {
				t.Targets = []string{pick(r, coms)}
			}
		}
		if o.accruals && r.chance(12) && accrualAcc != "" {
			ivs := []string{"daily", "weekly", "monthly", "quarterly"}
			s := dt.AddDate(0, r.rangeInt(-2, 2), r.rangeInt(-10, 10))
			if s.Before(d0.AddDate(0, 0, -100)) {
				s = d0.AddDate(0, 0, -100)
			}
			e := s.AddDate(0, r.rangeInt(0, 5), r.rangeInt(0, 20))
			iv := pick(r, ivs)
			if iv == "daily" {
				e = s.AddDate(0, 0, r.rangeInt(0, 20))
			}
			t.Accrual = &Accrual{iv, dateStr(s), dateStr(e), accrualAcc}
		}
		j = append(j, t)
		if t.Accrual == nil && r.chance(6) {
			// the same purchase twice on one day (two coffees), or once more with a further booking: transactions that
			// compare equal, or equal up to the length of the shorter one, wherever a day's transactions are ordered
			// (mechanical mutants of transaction.Compare - `i < len(a) || i < len(b)`, `i <= len` - ran past the end of the
			// postings only for such pairs and survived every check)
			dup := t
			dup.Bookings = append([]Booking{}, t.Bookings...)
			if r.chance(40) {
				b0 := t.Bookings[0]
				dup.Bookings = append(dup.Bookings, Booking{b0.Credit, b0.Debit, randAmount(r, false), b0.Com})
			}
			j = append(j, dup)
		}
		if t.Accrual == nil && r.chance(15) {
			// the exact reverse booking on the same or a later day: positions return to an earlier
			// level, often exactly zero (a position that is closed out, a commodity that is fully sold;
			// seeded changes C01-closeout-carrying-value and C20-stale-liquidated-commodity need this)
			rv := Dir{Kind: 'T', Date: dateStr(dt.AddDate(0, 0, r.intn(o.days/2+1))), Desc: "Storno " + t.Desc}
			for _, b := range t.Bookings {
				rv.Bookings = append(rv.Bookings, Booking{b.Debit, b.Credit, b.Qty, b.Com})
			}
			j = append(j, rv)
		}
	}
	if o.assertions {
		j = append(j, genAssertions(r, j, accrualAcc)...)
	}
	if o.closes && r.chance(50) {
		// an account that is opened, left untouched (or flat) and closed
		a := "Assets:Temp"
		open := d0.AddDate(0, 0, r.intn(o.days))
		cl := open.AddDate(0, 0, r.intn(20))
		j = append(j, Dir{Kind: 'O', Date: dateStr(open), Acc: a})
		if r.chance(50) {
			q := randAmount(r, false)
			other := accounts[0]
			j = append(j, Dir{Kind: 'T', Date: dateStr(open), Desc: "in", Bookings: []Booking{{other, a, q, coms[0]}}})
			j = append(j, Dir{Kind: 'T', Date: dateStr(cl), Desc: "out", Bookings: []Booking{{a, other, q, coms[0]}}})
		}
		j = append(j, Dir{Kind: 'C', Date: dateStr(cl), Acc: a})
	}
	// arrival order is irrelevant to knut; shuffle so that nothing depends on it
	r.shuffle(len(j), func(a, b int) { j[a], j[b] = j[b], j[a] })
	if o.prices && len(coms) > 1 && r.chance(25) {
		// a price line on the day of the journal's FIRST transaction, directly in front of it in the file (a quote
		// noted together with the opening booking): the builder's running minimum / maximum of dates sees a price and a
		// transaction of one date one after the other (seeded change C02d-period-bounds-only-when-date-moves missed the
		// first transaction's day in that history; the shuffled journals rarely produce this adjacency)
		first := -1
		for i, d := range j {
			if d.Kind == 'T' && d.Accrual == nil && (first < 0 || d.Date < j[first].Date) {
				first = i
			}
		}
		if first >= 0 {
			c := coms[1]
			pd := Dir{Kind: 'P', Date: j[first].Date, Com: c, Price: fmt.Sprintf("%d.%02d", r.rangeInt(1, 300), r.intn(100)), Target: coms[0]}
			clash := false
			for _, d := range j {
				if d.Kind == 'P' && d.Date == pd.Date && (d.Com == c && d.Target == coms[0] || d.Com == coms[0] && d.Target == c) {
					clash = true
				}
			}
			if !clash {
				j = append(j[:first:first], append(Journal{pd}, j[first:]...)...)
			}
		}
	}
	return j
}

// chain3later: EUR is among the commodities, so that USD may be quoted in EUR instead of CHF (price chains of three
// declarations: a security in USD, USD in EUR, EUR in CHF)
func chain3later(coms []string) bool { return contains(coms, "EUR") }

func contains(xs []string, x string) bool {
	for _, y := range xs {
		if x == y {
			return true
		}
	}
	return false
}

func isAL(a string) bool {
	return strings.HasPrefix(a, "Assets") || strings.HasPrefix(a, "Liabilities")
}

// runningAL computes, for every day with transactions, the A/L quantities after that day.
// Transactions with accruals keep their A/L legs on the original date (re-booked against the
// accrual account, which itself is excluded through skipAcc).
func runningAL(j Journal) (days []string, snap map[string]map[[2]string]*big.Rat) {
	byDay := map[string][]Dir{}
	for _, d := range j {
		if d.Kind == 'T' {
			byDay[d.Date] = append(byDay[d.Date], d)
		}
	}
	for d := range byDay {
		days = append(days, d)
	}
	sort.Strings(days)
	cur := map[[2]string]*big.Rat{}
	snap = map[string]map[[2]string]*big.Rat{}
	for _, day := range days {
		for _, t := range byDay[day] {
			for _, b := range t.Bookings {
				q := rat(b.Qty)
				for _, leg := range [][2]interface{}{{b.Credit, new(big.Rat).Neg(q)}, {b.Debit, q}} {
					a := leg[0].(string)
					if !isAL(a) {
						continue
					}
					k := [2]string{a, b.Com}
					if cur[k] == nil {
						cur[k] = new(big.Rat)
					}
					cur[k] = new(big.Rat).Add(cur[k], leg[1].(*big.Rat))
				}
			}
		}
		cp := map[[2]string]*big.Rat{}
		for k, v := range cur {
			cp[k] = v
		}
		snap[day] = cp
	}
	return
}

func genAssertions(r *rng, j Journal, skipAcc string) []Dir {
	days, snap := runningAL(j)
	var out []Dir
	hasAccrual := false
	for _, d := range j {
		if d.Accrual != nil {
			hasAccrual = true
		}
	}
	for _, day := range days {
		if !r.chance(25) {
			continue
		}
		var keys [][2]string
		for k := range snap[day] {
			if hasAccrual && k[0] == skipAcc {
				continue
			}
			keys = append(keys, k)
		}
		sort.Slice(keys, func(a, b int) bool { return keys[a][0]+keys[a][1] < keys[b][0]+keys[b][1] })
		if len(keys) == 0 {
			continue
		}
		n := 1
		if r.chance(30) {
			n = 2 + r.intn(2)
		}
		d := Dir{Kind: 'A', Date: day}
		for i := 0; i < n; i++ {
			k := keys[r.intn(len(keys))]
			d.Bals = append(d.Bals, Bal{k[0], ratStr(snap[day][k], 10), k[1]})
		}
		out = append(out, d)
	}
	return out
}

// rng helpers
func (r *rng) perm(n int) []int {
	p := make([]int, n)
	for i := range p {
		p[i] = i
	}
	r.shuffle(n, func(a, b int) { p[a], p[b] = p[b], p[a] })
	return p
}

func (r *rng) shuffle(n int, swap func(a, b int)) {
	for i := n - 1; i > 0; i-- {
		swap(i, r.intn(i+1))
	}
}
