package main

// C18: in-place rewrites are all-or-nothing.
//
// C18.trace  runs `knut format <files>` under strace, maps the system calls that touch the
//            target directory to the operation alphabet of Model/AtomicFS.v (DESIGN.md
//            Appendix C.2) per target file; kmodel evaluates the extracted safe_trace.
// C18.fault  runs `knut format <files>` under RLIMIT_FSIZE = k (through the re-exec wrapper
//            `verifharness rlimit k ...`), or in a directory without write permission as an
//            unprivileged user, and classifies every file afterwards as old | new | other.
//
// input    = "mode=<strace|rlimit|rodir|longname|retry>;limit=<k>;[link=1;][procs=<n>;][cmd=infer;acct=<placeholder>;]files=<name|content|name|content...>"
//            longname: one of the files has a 255-byte name (its temporary file cannot be created: ENAMETOOLONG)
//            cmd=infer: the command is `knut infer --inplace -a <placeholder> -t <first file> <last file>` instead of
//            `knut format <files>`: with two files the first is the training file (it is only read: it must stay
//            as it is and no operation may touch it) and the second the target; with one file it is both.  The
//            expected new contents of the target = stdout of the same command without --inplace, run beforehand
//            on the same files (parses = that run exits 0).
// observed = "exit=<e> left=<leftover files> finals=<name:class,...> ## <name^parses^new^ops|...>"
//            new = the expected formatted bytes, computed in-process with syntax.ParseFile +
//            syntax.FormatFile (not through the binary's write path); ops only for mode=strace.

import (
	"bufio"
	"bytes"
	"encoding/hex"
	"fmt"
	"os"
	"os/exec"
	"path/filepath"
	"regexp"
	"sort"
	"strconv"
	"strings"
	"syscall"
	"time"

	"github.com/sboehler/knut/lib/syntax"
)

func init() {
	gens["C18"] = genC18
	gens["C18sweep"] = genC18Sweep
	observers["C18.trace"] = retryHang(obsC18, "exit=HANG")
	observers["C18.fault"] = retryHang(obsC18, "exit=HANG")
}

// a journal file in a random, unformatted layout; `broken` makes it unparseable
func genC18File(r *rng, broken bool) string {
	var b strings.Builder
	sp := func() string { return strings.Repeat(" ", 1+r.intn(4)) }
	accounts := []string{"Assets:Bank", "Assets:Cash", "Expenses:Food", "Income:Salary", "Equity:Opening", "Liabilities:Card:Visa"}
	if r.chance(50) {
		b.WriteString("# a comment at the top; with | and \\ characters\n\n")
	}
	for _, a := range accounts {
		fmt.Fprintf(&b, "2020-01-01%sopen%s%s\n", sp(), sp(), a)
	}
	n := r.rangeInt(1, 12)
	for i := 0; i < n; i++ {
		if r.chance(30) {
			b.WriteString(strings.Repeat("\n", 1+r.intn(3)))
		}
		if r.chance(20) {
			fmt.Fprintf(&b, "// note %d\n", i)
		}
		d := fmt.Sprintf("2020-%02d-%02d", 1+r.intn(12), 1+r.intn(28))
		switch r.intn(5) {
		case 0:
			fmt.Fprintf(&b, "%s%sprice%sUSD%s0.%d%sCHF\n", d, sp(), sp(), sp(), 90+r.intn(9), sp())
		case 1:
			fmt.Fprintf(&b, "%s%sbalance%s%s%s%d%sCHF\n", d, sp(), sp(), pick(r, accounts), sp(), r.intn(1000), sp())
		default:
			fmt.Fprintf(&b, "%s \"payee %d\"\n", d, i)
			nb := r.rangeInt(1, 3)
			for k := 0; k < nb; k++ {
				fmt.Fprintf(&b, "%s%s%s%s%d.%02d%sCHF\n", pick(r, accounts), sp(), pick(r, accounts), sp(), r.intn(9000), r.intn(100), sp())
			}
			b.WriteString("\n")
		}
	}
	if broken {
		lines := strings.SplitAfter(b.String(), "\n")
		pos := r.intn(len(lines))
		bad := pick(r, []string{"2020-02-30 open Assets:X\n", "this is not a directive\n", "2020-01-01 \"unterminated\nAssets:Bank\n", "2020-01-01 open\n"})
		return strings.Join(lines[:pos], "") + bad + strings.Join(lines[pos:], "")
	}
	return b.String()
}

func c18Encode(mode string, limit int, names, contents []string) string {
	return c18EncodeL(mode, limit, false, names, contents)
}

// link: the paths given to knut are symbolic links (in the target directory) to the journal
// files, which live in a subdirectory -- journals are often symlinked into a working directory
func c18EncodeL(mode string, limit int, link bool, names, contents []string) string {
	return c18EncodeP(mode, limit, link, 0, names, contents)
}

// procs > 0: the run gets GOMAXPROCS=procs.  `knut format` formats its arguments concurrently, at most GOMAXPROCS
// at a time: with 1 the files are handled one after the other in one goroutine, so that state kept between files
// (seeded change C18b-pooled-buffer-leftover: a pooled render buffer that keeps the unwritten rest of a failed
// write) reaches the next file; with 16 every file has a goroutine of its own.
func c18EncodeP(mode string, limit int, link bool, procs int, names, contents []string) string {
	var fs []string
	for i := range names {
		fs = append(fs, vesc(names[i]), vesc(contents[i]))
	}
	l := ""
	if link {
		l = "link=1;"
	}
	if procs > 0 {
		l += fmt.Sprintf("procs=%d;", procs)
	}
	return fmt.Sprintf("mode=%s;limit=%d;%sfiles=%s", mode, limit, l, strings.Join(fs, "|"))
}

// c18EncodeInfer: an `infer --inplace` case; names[0] is the training file when there are two files
func c18EncodeInfer(mode string, limit int, link bool, acct string, names, contents []string) string {
	in := c18EncodeL(mode, limit, link, names, contents)
	return strings.Replace(in, ";files=", ";cmd=infer;acct="+vesc(acct)+";files=", 1)
}

// c18InferFiles: placeholder account, training file and target file as the C15 generator makes them; the target
// is made of `pieces` targets of that generator (0: one to four)
func c18InferFiles(r *rng, pieces int) (ph, train, target string) {
	g := &c15gen{r: r, ph: "Expenses:TBD"}
	if r.chance(30) {
		g.ph = pick(r, []string{"Unknown:X", "TBD", "Ausgaben:Ünbekannt"})
	}
	k := r.rangeInt(1, 5)
	perm := append([]string(nil), c15Accounts...)
	for j := len(perm) - 1; j > 0; j-- {
		m := r.intn(j + 1)
		perm[j], perm[m] = perm[m], perm[j]
	}
	g.pool = perm[:k]
	train = g.training()
	// several transactions, so that the rewritten target is long enough for faults in the middle
	n := pieces
	if n == 0 {
		n = r.rangeInt(1, 4)
	}
	for i := 0; i < n; i++ {
		t := g.target()
		for try := 0; try < 8 && n > 1 && strings.HasSuffix(t, " open\n"); try++ {
			t = g.target() // the unparseable target of the C15 generator only as a whole file
		}
		if i > 0 && !strings.HasSuffix(target, "\n\n") {
			target += "\n"
		}
		target += t
	}
	return g.ph, train, target
}

// genC18Infer: n groups (training file, target file); per group one strace run, rlimit runs at 0, 1 and
// `points` random offsets; every third group once more with the target reached through a symbolic link,
// every fourth group with the target as its own training file
func genC18Infer(out *caseWriter, seed uint64, n, points int) {
	for g := 0; g < n; g++ {
		r := newRng(seed, "C18infer", g)
		ph, train, target := c18InferFiles(r, 0)
		names, contents := []string{"training.knut", "target.knut"}, []string{train, target}
		if g%4 == 3 {
			names, contents = []string{"target.knut"}, []string{target}
		}
		link := g%3 == 2
		maxLen := 2*len(target) + 100 // the rewritten target is aligned in columns: up to about twice as long
		out.add(fmt.Sprintf("C18it-%d-%d", seed, g), "C18.trace", c18EncodeInfer("strace", 0, link, ph, names, contents))
		for p := 0; p < points+2; p++ {
			limit := p
			if p >= 2 {
				limit = r.intn(maxLen)
			}
			out.add(fmt.Sprintf("C18if-%d-%d-%d", seed, g, p), "C18.fault", c18EncodeInfer("rlimit", limit, link, ph, names, contents))
		}
	}
}

func c18Formatted(path string) (string, bool) {
	f, err := syntax.ParseFile(path)
	if err != nil {
		return "", false
	}
	var buf bytes.Buffer
	if err := syntax.FormatFile(&buf, f); err != nil {
		return "", false
	}
	return buf.String(), true
}

// can we run a command as an unprivileged user (needed for the read-only directory cases)?
func c18CanDropPrivileges() bool {
	if os.Geteuid() != 0 {
		return false
	}
	cmd := exec.Command("/bin/true")
	cmd.SysProcAttr = &syscall.SysProcAttr{Credential: &syscall.Credential{Uid: 65534, Gid: 65534}}
	return cmd.Run() == nil
}

// genC18 <nfiles> <faultpoints> [<infer groups>]: per file group one strace case, then rlimit cases at fault
// points spread over [0, max formatted size + 2], plus a few read-only-directory cases; then the
// `infer --inplace` groups (genC18Infer; default nfiles groups with 2 + faultpoints/3 fault points each)
func genC18(out *caseWriter, seed uint64, n int, args []string) error {
	points := 12
	if len(args) > 0 {
		points, _ = strconv.Atoi(args[0])
	}
	rodir := c18CanDropPrivileges()
	fileNo := 0
	for g := 0; fileNo < n; g++ {
		r := newRng(seed, "C18", g)
		k := r.rangeInt(1, 4)
		var names, contents []string
		maxLen := 0
		for i := 0; i < k; i++ {
			broken := k > 1 && r.chance(25)
			c := genC18File(r, broken)
			names = append(names, fmt.Sprintf("j%d.knut", i))
			contents = append(contents, c)
			if len(c)+200 > maxLen {
				maxLen = len(c) + 200
			}
			fileNo++
		}
		out.add(fmt.Sprintf("C18t-%d-%d", seed, g), "C18.trace", c18Encode("strace", 0, names, contents))
		for p := 0; p < points; p++ {
			var limit int
			switch p {
			case 0:
				limit = 0
			case 1:
				limit = 1
			default:
				limit = r.intn(maxLen)
			}
			out.add(fmt.Sprintf("C18f-%d-%d-%d", seed, g, p), "C18.fault", c18EncodeP("rlimit", limit, false, []int{0, 1, 2}[p%3], names, contents))
		}
		if k > 1 {
			// a failure that hits ONE of several files: a file whose name is so long (255 bytes, NAME_MAX) that the
			// temporary file next to it cannot be created.  The other files must end new ("a failure on one of
			// several files does not prevent or corrupt the others"), in both orders and for 1, 2 and 16 procs.
			long := "j" + strings.Repeat("x", 249) + ".knut"
			for q, procs := range []int{1, 2, 16} {
				at := (g + q) % (k + 1)
				ln := append(append(append([]string{}, names[:at]...), long), names[at:]...)
				lc := append(append(append([]string{}, contents[:at]...), genC18File(r, false)), contents[at:]...)
				out.add(fmt.Sprintf("C18n-%d-%d-%d", seed, g, q), "C18.fault", c18EncodeP("longname", 0, false, procs, ln, lc))
			}
		}
		for q := 0; q < 2; q++ {
			// retry histories (see mode retry in obsC18): first versions = the files with more directives appended,
			// limit somewhere between the size of the second and of the first version of a file
			var first []string
			lim := 0
			for i := range names {
				extra := genC18File(r, false)
				first = append(first, vesc(names[i]), vesc(contents[i]+"\n"+extra))
				if i == 0 || r.chance(30) {
					lim = len(contents[i]) + 40 + r.intn(len(extra))
				}
			}
			in := c18EncodeP("retry", lim, false, []int{0, 1}[q], names, contents)
			in = strings.Replace(in, ";files=", ";first="+strings.Join(first, "|")+";files=", 1)
			out.add(fmt.Sprintf("C18y-%d-%d-%d", seed, g, q), "C18.fault", in)
		}
		if g == 1 {
			// one journal of more than 4 MiB per run (sizes at which an implementation may switch to another write
			// path: seeded change C18d-large-file-streamed-write streamed journals above 4 MiB through a buffered writer
			// whose last flush error was dropped): cuts inside the last partial 4096-byte block of the formatted
			// text, at its end, in the middle
			body := genC18File(r, false)
			reps := (4<<20)/len(body) + 1 + r.intn(40)
			tmp := workTemp("knutverif-c18gen-")
			p := filepath.Join(tmp, "big.knut")
			os.WriteFile(p, []byte(strings.Repeat(body, reps)), 0o644)
			nw, ok := c18Formatted(p)
			os.RemoveAll(tmp)
			if ok {
				n := len(nw)
				for q, lim := range []int{n - 1, n - 1 - r.intn(n%4096+1), n / 4096 * 4096, n/4096*4096 + r.intn(n%4096+1), n / 2, n, n + 10} {
					in := c18EncodeP("rlimit", lim, false, []int{0, 1}[q%2], []string{"big.knut"}, []string{body})
					in = strings.Replace(in, ";files=", fmt.Sprintf(";big=%d;files=", reps), 1)
					out.add(fmt.Sprintf("C18b-%d-%d-%d", seed, g, q), "C18.fault", in)
				}
			}
		}
		if rodir && g%8 == 0 {
			out.add(fmt.Sprintf("C18r-%d-%d", seed, g), "C18.fault", c18Encode("rodir", 0, names, contents))
		}
		if g%3 == 1 {
			// the journals named through a symbolically linked directory and `..` (last -> arch/y2021; last/../x.knut is
			// arch/x.knut for the kernel, but x.knut for path.Clean), with another file where the lexically cleaned path
			// points: the file that was named is the one that is rewritten, and no other file is touched (seeded change
			// C18g-format-writes-to-cleaned-path keyed its output by filepath.Clean(arg) and wrote there)
			for p, limit := range []int{100000000, r.intn(maxLen)} {
				in := "updir=1;" + c18Encode("rlimit", limit, names, contents)
				out.add(fmt.Sprintf("C18u-%d-%d-%d", seed, g, p), "C18.fault", in)
			}
		}
		if g%2 == 0 {
			// the same group reached through symbolic links (seeded change C18-symlink-write-through
			// was missed without these): one traced run, faults at 0, 1 and three random offsets
			out.add(fmt.Sprintf("C18tl-%d-%d", seed, g), "C18.trace", c18EncodeL("strace", 0, true, names, contents))
			for p, limit := range []int{0, 1, r.intn(maxLen), r.intn(maxLen), r.intn(maxLen)} {
				out.add(fmt.Sprintf("C18fl-%d-%d-%d", seed, g, p), "C18.fault", c18EncodeL("rlimit", limit, true, names, contents))
			}
		}
	}
	// `knut infer --inplace` goes through the same atomic.WriteFile: as many groups as files
	ninfer := n
	if len(args) > 1 {
		ninfer, _ = strconv.Atoi(args[1])
	}
	genC18Infer(out, seed, ninfer, points/3)
	return nil
}

// genC18Sweep <nfiles>: every byte offset of every file (single-file invocations)
func genC18Sweep(out *caseWriter, seed uint64, n int, _ []string) error {
	for g := 0; g < n; g++ {
		r := newRng(seed, "C18sweep", g)
		c := genC18File(r, false)
		names, contents := []string{"j0.knut"}, []string{c}
		for limit := 0; limit <= len(c)+120; limit++ {
			out.add(fmt.Sprintf("C18s-%d-%d-%d", seed, g, limit), "C18.fault", c18Encode("rlimit", limit, names, contents))
		}
		if g%8 == 0 {
			// `infer --inplace`: every byte offset of the rewritten (short) target
			ri := newRng(seed, "C18infersweep", g)
			ph, train, target := c18InferFiles(ri, 1)
			for limit := 0; limit <= 2*len(target)+100; limit++ {
				out.add(fmt.Sprintf("C18is-%d-%d-%d", seed, g, limit), "C18.fault",
					c18EncodeInfer("rlimit", limit, false, ph, []string{"training.knut", "target.knut"}, []string{train, target}))
			}
		}
	}
	return nil
}

func obsC18(in string) string {
	kv, files := c19Decode(in)
	mode := kv["mode"]
	dir := workTemp("knutverif-c18-")
	defer func() {
		os.Chmod(dir, 0o755)
		os.RemoveAll(dir)
	}()
	var paths []string
	orig := map[string]bool{}
	link := kv["link"] == "1"
	if link {
		if err := os.Mkdir(filepath.Join(dir, "real"), 0o755); err != nil {
			panic(err)
		}
		orig["real"] = true
	}
	updir := kv["updir"] == "1"
	if updir {
		if err := os.MkdirAll(filepath.Join(dir, "arch", "y2021"), 0o755); err != nil {
			panic(err)
		}
		if err := os.Symlink(filepath.Join("arch", "y2021"), filepath.Join(dir, "last")); err != nil {
			panic(err)
		}
		orig["arch"], orig["last"] = true, true
	}
	decoy := func(name string) string { return "# not the file that was named: " + name + "\n" }
	if reps, _ := strconv.Atoi(kv["big"]); reps > 0 {
		// big=<n>: the journal is the given text repeated n times (several megabytes)
		for i := range files {
			files[i][1] = strings.Repeat(files[i][1], reps)
		}
	}
	for _, f := range files {
		p := filepath.Join(dir, f[0])
		w := p
		if link {
			w = filepath.Join(dir, "real", f[0])
		}
		if updir {
			os.WriteFile(p, []byte(decoy(f[0])), 0o644)
			w = filepath.Join(dir, "arch", f[0])
			p = dir + "/last/../" + f[0] // not filepath.Join, which cleans
		}
		if err := os.WriteFile(w, []byte(f[1]), 0o644); err != nil {
			panic(err)
		}
		if link {
			if err := os.Symlink(filepath.Join("real", f[0]), p); err != nil {
				panic(err)
			}
		}
		paths = append(paths, p)
		orig[f[0]] = true
	}
	news := make([]string, len(files))
	parses := make([]bool, len(files))
	self, _ := os.Executable()
	bin := knutBin()
	command := []string{"format"}
	if kv["cmd"] == "infer" {
		// the expected new contents of the target: what the command prints without --inplace
		last := len(paths) - 1
		tail := []string{"-a", vunesc(kv["acct"]), "-t", paths[0], paths[last]}
		pre := runCmd(20*time.Second, nil, dir, append([]string{bin, "infer"}, tail...)...)
		news[last], parses[last] = string(pre.stdout), pre.exit == "0"
		if !parses[last] {
			news[last] = ""
		}
		command = append([]string{"infer", "--inplace"}, tail...)
	} else {
		for i, p := range paths {
			news[i], parses[i] = c18Formatted(p)
		}
		command = append(command, paths...)
	}
	var env []string
	if kv["procs"] != "" {
		env = []string{"GOMAXPROCS=" + kv["procs"]}
	}
	var res vRunResult
	var ops map[string][]string
	switch mode {
	case "strace":
		st := filepath.Join(dir, "strace.out")
		argv := []string{"strace", "-f", "-s", "4194304", "-xx", "-e",
			"trace=openat,write,fsync,close,rename,renameat,renameat2,unlink,unlinkat,chmod,fchmod,fchmodat",
			"-o", st, bin}
		res = runCmd(60*time.Second, env, dir, append(argv, command...)...)
		ops = c18MapStrace(st, dir, files)
		os.Remove(st)
	case "rlimit":
		argv := []string{self, "rlimit", kv["limit"], bin}
		res = runCmd(20*time.Second, env, dir, append(argv, command...)...)
	case "longname":
		res = runCmd(20*time.Second, env, dir, append([]string{bin}, command...)...)
	case "retry":
		// a history on one directory: the files hold longer contents (first=), `knut format` is cut short by the
		// file-size limit; the user then shortens the journals (files=) and formats again without a limit.  The
		// second run must install the complete new contents of the SECOND version (whatever the first run left
		// behind must not leak into it: seeded change C18c-fixed-temp-name-no-truncate reused a stale temp file).
		fp := strings.Split(kv["first"], "|")
		for i := 0; i+1 < len(fp) && i/2 < len(paths); i += 2 {
			os.WriteFile(paths[i/2], []byte(vunesc(fp[i+1])), 0o644)
		}
		runCmd(20*time.Second, env, dir, append([]string{self, "rlimit", kv["limit"], bin}, command...)...)
		for i, f := range files {
			os.WriteFile(paths[i], []byte(f[1]), 0o644)
		}
		res = runCmd(20*time.Second, env, dir, append([]string{bin}, command...)...)
	case "rodir":
		// an unprivileged user, a directory it may read but not write, its own copy of the binary
		bdir := workTemp("knutverif-c18bin-")
		defer os.RemoveAll(bdir)
		os.Chmod(bdir, 0o755)
		data, err := os.ReadFile(bin)
		if err != nil {
			panic(err)
		}
		cp := filepath.Join(bdir, "knut")
		if err := os.WriteFile(cp, data, 0o755); err != nil {
			panic(err)
		}
		os.Chmod(dir, 0o555)
		cmd := exec.Command(cp, command...)
		cmd.SysProcAttr = &syscall.SysProcAttr{Credential: &syscall.Credential{Uid: 65534, Gid: 65534}}
		cmd.Dir = "/"
		var so, se bytes.Buffer
		cmd.Stdout, cmd.Stderr = &so, &se
		err = cmd.Run()
		res.exit = "0"
		if ee, ok := err.(*exec.ExitError); ok {
			res.exit = strconv.Itoa(ee.ExitCode())
		} else if err != nil {
			res.exit = "ERR"
		}
		os.Chmod(dir, 0o755)
	}
	var finals, details []string
	for i, f := range files {
		after, err := os.ReadFile(paths[i])
		class := "other"
		switch {
		case err != nil:
			class = "missing"
		case parses[i] && string(after) == news[i]:
			class = "new"
		case string(after) == f[1]:
			class = "old"
		}
		if link && class != "other" && class != "missing" {
			// the journal behind the link must be whole as well
			if real, err := os.ReadFile(filepath.Join(dir, "real", f[0])); err != nil || !(string(real) == f[1] || (parses[i] && string(real) == news[i])) {
				class = "other"
			}
		}
		if updir {
			if d, err := os.ReadFile(filepath.Join(dir, f[0])); err != nil || string(d) != decoy(f[0]) {
				class = "other" // a file that was not named has been changed
			}
		}
		finals = append(finals, f[0]+":"+class)
		p := "0"
		if parses[i] {
			p = "1"
		}
		nw := hex.EncodeToString([]byte(news[i]))
		if kv["big"] != "" {
			nw = fmt.Sprintf("#%d", len(news[i]))
		}
		details = append(details, fmt.Sprintf("%s^%s^%s^%s", f[0], p, nw, strings.Join(ops[f[0]], ",")))
	}
	left := 0
	ents, _ := os.ReadDir(dir)
	for _, e := range ents {
		if !orig[e.Name()] {
			left++
		}
	}
	return fmt.Sprintf("exit=%s left=%d finals=%s ## %s", res.exit, left, strings.Join(finals, ","), strings.Join(details, "|"))
}

var (
	c18Line    = regexp.MustCompile(`^(\d+)\s+(.*)$`)
	c18Call    = regexp.MustCompile(`^(\w+)\((.*)\)\s+= (-?\d+|\?)(.*)$`)
	c18Resumed = regexp.MustCompile(`^<\.\.\. (\w+) resumed>(.*)$`)
	c18Str     = regexp.MustCompile(`"((?:\\x[0-9a-f]{2})*)"`)
)

func c18Unhex(s string) string {
	var b []byte
	for i := 0; i+4 <= len(s); i += 4 {
		v, _ := strconv.ParseUint(s[i+2:i+4], 16, 8)
		b = append(b, byte(v))
	}
	return string(b)
}

// c18MapStrace maps the strace output to operations per target file.  Paths are numbered per
// target: 0 = the target, 1, 2, .. = its temporary files (names that extend the target's name)
// in the order of their first appearance.
func c18MapStrace(stracePath, dir string, files [][2]string) map[string][]string {
	ops := map[string][]string{}
	f, err := os.Open(stracePath)
	if err != nil {
		return ops
	}
	defer f.Close()
	var targets []string
	for _, fl := range files {
		targets = append(targets, fl[0])
	}
	sort.Slice(targets, func(a, b int) bool { return len(targets[a]) > len(targets[b]) })
	tempNo := map[string]map[string]int{}
	// temporary files are recognised by name (target name + suffix, as ioutil.TempFile creates them) or, whatever
	// their name, by being renamed onto a target somewhere in the trace (first pass): the classification must not
	// depend on how an implementation names its temporary files
	renamedOnto := map[string]string{}
	if data, err := os.ReadFile(stracePath); err == nil {
		for _, line := range strings.Split(string(data), "\n") {
			if !strings.Contains(line, "rename") || !strings.HasSuffix(strings.TrimSpace(line), "= 0") {
				continue
			}
			strs := c18Str.FindAllStringSubmatch(line, -1)
			if len(strs) < 2 {
				continue
			}
			src, dst := c18Unhex(strs[len(strs)-2][1]), c18Unhex(strs[len(strs)-1][1])
			if filepath.Dir(src) == dir && filepath.Dir(dst) == dir {
				for _, t := range targets {
					if filepath.Base(dst) == t && filepath.Base(src) != t {
						renamedOnto[filepath.Base(src)] = t
					}
				}
			}
		}
	}
	// classify a path: (target name, path number) or ok=false when outside the directory
	classify := func(p string) (string, int, bool) {
		if filepath.Dir(p) != dir {
			return "", 0, false
		}
		base := filepath.Base(p)
		if t, ok := renamedOnto[base]; ok {
			if tempNo[t] == nil {
				tempNo[t] = map[string]int{}
			}
			if _, ok := tempNo[t][base]; !ok {
				tempNo[t][base] = len(tempNo[t]) + 1
			}
			return t, tempNo[t][base], true
		}
		for _, t := range targets {
			if base == t {
				return t, 0, true
			}
			if strings.HasPrefix(base, t) {
				if tempNo[t] == nil {
					tempNo[t] = map[string]int{}
				}
				if _, ok := tempNo[t][base]; !ok {
					tempNo[t][base] = len(tempNo[t]) + 1
				}
				return t, tempNo[t][base], true
			}
		}
		return "?", 0, true
	}
	type handle struct {
		tgt      string
		no       int
		writable bool
	}
	fds := map[int]handle{}
	exists := map[string]bool{} // names in the directory, as far as the trace shows (initially: the targets)
	for _, t := range targets {
		exists[t] = true
	}
	pending := map[string]string{}
	sc := bufio.NewScanner(f)
	sc.Buffer(make([]byte, 1<<20), 1<<28)
	emit := func(t, op string) { ops[t] = append(ops[t], op) }
	for sc.Scan() {
		m := c18Line.FindStringSubmatch(sc.Text())
		if m == nil {
			continue
		}
		pid, rest := m[1], m[2]
		if strings.HasSuffix(rest, "<unfinished ...>") {
			pending[pid] = strings.TrimSuffix(rest, "<unfinished ...>")
			continue
		}
		if r := c18Resumed.FindStringSubmatch(rest); r != nil {
			rest = pending[pid] + r[2]
			delete(pending, pid)
		}
		c := c18Call.FindStringSubmatch(rest)
		if c == nil {
			continue
		}
		name, args, ret := c[1], c[2], c[3]
		failed := strings.HasPrefix(ret, "-")
		strs := c18Str.FindAllStringSubmatch(args, -1)
		arg0 := strings.TrimSpace(strings.SplitN(args, ",", 2)[0])
		switch name {
		case "openat":
			if len(strs) == 0 {
				continue
			}
			p := c18Unhex(strs[0][1])
			t, no, ok := classify(p)
			if !ok {
				continue
			}
			if failed {
				emit(t, "O")
				continue
			}
			fd, _ := strconv.Atoi(ret)
			w := strings.Contains(args, "O_WRONLY") || strings.Contains(args, "O_RDWR")
			fds[fd] = handle{t, no, w}
			existed := exists[filepath.Base(p)]
			if strings.Contains(args, "O_CREAT") {
				exists[filepath.Base(p)] = true
			}
			switch {
			case strings.Contains(args, "O_CREAT") && (strings.Contains(args, "O_EXCL") || !existed):
				// a file that did not exist before is created, with or without O_EXCL
				emit(t, fmt.Sprintf("C%d", no))
			case strings.Contains(args, "O_TRUNC") && w:
				emit(t, fmt.Sprintf("T%d", no))
			case strings.Contains(args, "O_CREAT"):
				emit(t, fmt.Sprintf("T%d", no)) // creates or opens for writing without O_EXCL: treated as unsafe open
			}
		case "write":
			fd, _ := strconv.Atoi(arg0)
			h, ok := fds[fd]
			if !ok {
				continue
			}
			if failed {
				emit(h.tgt, "O")
				continue
			}
			k, _ := strconv.Atoi(ret)
			data := ""
			if len(strs) > 0 {
				data = c18Unhex(strs[0][1])
			}
			if k < len(data) {
				data = data[:k]
			}
			if h.no == 0 {
				emit(h.tgt, "WT:"+hex.EncodeToString([]byte(data)))
			} else {
				emit(h.tgt, fmt.Sprintf("W%d:%s", h.no, hex.EncodeToString([]byte(data))))
			}
		case "fsync", "close", "fchmod":
			fd, _ := strconv.Atoi(arg0)
			h, ok := fds[fd]
			if !ok {
				continue
			}
			code := map[string]string{"fsync": "F", "close": "X", "fchmod": "M"}[name]
			if name == "close" {
				delete(fds, fd)
				if !h.writable {
					continue // a read-only handle: reads are ignored
				}
			}
			if failed {
				emit(h.tgt, "O")
			} else {
				emit(h.tgt, fmt.Sprintf("%s%d", code, h.no))
			}
		case "chmod", "fchmodat", "unlink", "unlinkat":
			if len(strs) == 0 {
				continue
			}
			t, no, ok := classify(c18Unhex(strs[0][1]))
			if !ok {
				continue
			}
			code := "M"
			if strings.HasPrefix(name, "unlink") {
				code = "U"
			}
			if failed {
				emit(t, "O")
			} else {
				emit(t, fmt.Sprintf("%s%d", code, no))
				if code == "U" {
					exists[filepath.Base(c18Unhex(strs[0][1]))] = false
				}
			}
		case "rename", "renameat", "renameat2":
			if len(strs) < 2 {
				continue
			}
			t1, n1, ok1 := classify(c18Unhex(strs[0][1]))
			t2, n2, ok2 := classify(c18Unhex(strs[1][1]))
			if !ok1 && !ok2 {
				continue
			}
			switch {
			case failed:
				if ok2 {
					emit(t2, "O")
				} else {
					emit(t1, "O")
				}
			case ok1 && ok2 && t1 == t2:
				emit(t1, fmt.Sprintf("R%d>%d", n1, n2))
				exists[filepath.Base(c18Unhex(strs[0][1]))] = false
				exists[filepath.Base(c18Unhex(strs[1][1]))] = true
			default: // a rename across targets or out of / into the directory: render with a foreign path 99
				if ok2 {
					emit(t2, fmt.Sprintf("R99>%d", n2))
				}
				if ok1 {
					emit(t1, fmt.Sprintf("R%d>99", n1))
				}
			}
		}
	}
	return ops
}
