package main

// C09: `knut print` emits a normal form that round-trips.
//
//   C09.print    the binary on its own output: P1 = print J; print P1; check P1; balance on J and on P1
//   C09.tomodel  no Go code: the journal text the harness writes for knut, for the model's
//                parser + ToModel to be compared with the structured journal the model is given
//   C09.model    in-process: parser + model.ParseDirective per directive, rendered canonically

import (
	"encoding/hex"
	"fmt"
	"strings"
	"time"

	"github.com/sboehler/knut/lib/model"
	"github.com/sboehler/knut/lib/model/registry"
	"github.com/sboehler/knut/lib/syntax/directives"
	"github.com/sboehler/knut/lib/syntax/parser"
)

func init() {
	gens["C09"] = genC09
	gens["C09model"] = genC09Model
	observers["C09.print"] = obsC09Print
	observers["C09.tomodel"] = obsC09ToModel
	observers["C09.model"] = obsC09Model
}

// ---------------------------------------------------------------- generator

// names with non-ASCII letters and digits (unicode.IsLetter / IsDigit), substituted for pool
// names after generation; the account type (first segment) is kept
var c09Rename = map[string]string{
	"Assets:Bank":            "Assets:Bänk",
	"Assets:Cash":            "Assets:Касса",
	"Assets:Bank:Savings":    "Assets:Bänk:Épargne٣",
	"Liabilities:CreditCard": "Liabilities:信用卡",
	"Income:Salary":          "Income:Löhne2020",
	"Expenses:Groceries":     "Expenses:食料品:ß",
	"Expenses:Fees":          "Expenses:Gebühren",
	"Equity:Opening":         "Equity:Ouverture:Été",
}

var c09Coms = [][]string{
	{"CHF"}, {"CHF", "USD"}, {"CHF", "USD", "ÄÖ"}, {"CHF", "USD", "EUR", "ÄÖ"}, {"CHF", "ÄÖ", "X1"}, {"CHF", "USD", "AAPL", "ŁÓ9"}, {"CHF", "USD", "usd", "Usd"},
}

var c09Descs = []string{
	"first line\nsecond line", "tab\tinside", "ends with newline\n", "\nstarts with newline", "cr\r\nlf", "  padded  ",
	"Zürich – Genève (été)", "emoji 😀 ok", "", "a/b (accrual 1/2)", "semi;colon, comma", "@performance(X)", "2020-01-01 balance",
	"line1\n\nline3 after blank", "#not a comment", "// neither", "* nor this",
}

func c09Opts(r *rng) genOpts {
	start, days := genSpan(r, 3, 120)
	return genOpts{
		nAccounts: r.rangeInt(5, 10), nTxn: r.rangeInt(2, 16),
		commodities: pick(r, c09Coms), prices: true, accruals: r.chance(40), perf: r.chance(60),
		assertions: true, closes: r.chance(40),
		startDate: start, days: days,
		manyDec: r.chance(30),
	}
}

func renameAcc(m map[string]string, a string) string {
	if b, ok := m[a]; ok {
		return b
	}
	return a
}

// genC09Journal: genJournal plus the features C09 names: Unicode names, multi-line
// descriptions, several (multi-balance) assertions per day, empty and multiple performance
// targets, identical transactions on one day
func genC09Journal(r *rng, o genOpts) Journal {
	o.assertions = false // computed below, after the transactions are final
	j := genJournal(r, o)
	// Unicode account names
	ren := map[string]string{}
	if r.chance(70) {
		for k, v := range c09Rename {
			if r.chance(60) {
				ren[k] = v
			}
		}
	}
	for i := range j {
		d := &j[i]
		d.Acc = renameAcc(ren, d.Acc)
		for k := range d.Bals {
			d.Bals[k].Acc = renameAcc(ren, d.Bals[k].Acc)
		}
		for k := range d.Bookings {
			d.Bookings[k].Credit = renameAcc(ren, d.Bookings[k].Credit)
			d.Bookings[k].Debit = renameAcc(ren, d.Bookings[k].Debit)
		}
		if d.Accrual != nil {
			a := *d.Accrual
			a.Account = renameAcc(ren, a.Account)
			d.Accrual = &a
		}
	}
	perDay := map[string]int{}
	for _, d := range j {
		if d.Kind == 'T' {
			perDay[d.Date]++
		}
	}
	var extra Journal
	for i := range j {
		d := &j[i]
		switch d.Kind {
		case 'T':
			if r.chance(25) {
				d.Desc = pick(r, c09Descs)
			}
			if d.HasPerf && r.chance(30) {
				d.Targets = append(d.Targets, pick(r, o.commodities))
			}
			if r.chance(8) && perDay[d.Date] <= 6 && d.Accrual == nil && !usesTemp(*d) {
				c := *d
				c.Bookings = append([]Booking(nil), d.Bookings...)
				if r.chance(50) { // differs in the annotation only: equal under transaction.Compare
					c.HasPerf = !d.HasPerf
					c.Targets = nil
				}
				perDay[d.Date]++
				extra = append(extra, c)
			}
		}
	}
	insert := func(extra Journal) {
		for _, e := range extra {
			k := r.intn(len(j) + 1)
			j = append(j, Dir{})
			copy(j[k+1:], j[k:])
			j[k] = e
		}
	}
	insert(extra)
	extra = nil
	// assertions on the running quantities; the accrual account and the account that gets closed are left out
	skip := ""
	for _, d := range j {
		if d.Accrual != nil {
			skip = d.Accrual.Account
		}
	}
	for _, a := range genAssertions(r, j, skip) {
		var bals []Bal
		for _, b := range a.Bals {
			if b.Acc != "Assets:Temp" {
				bals = append(bals, b)
			}
		}
		if len(bals) > 0 {
			a.Bals = bals
			extra = append(extra, a)
		}
	}
	insert(extra)
	extra = nil
	for i := range j {
		d := &j[i]
		switch d.Kind {
		case 'A':
			// further assertions on the same day (the running quantities are those of the end of the day)
			n := 0
			if r.chance(55) {
				n = 1 + r.intn(2)
			}
			for k := 0; k < n; k++ {
				c := Dir{Kind: 'A', Date: d.Date}
				m := 1
				if r.chance(50) {
					m = 2 + r.intn(2)
				}
				for q := 0; q < m; q++ {
					c.Bals = append(c.Bals, d.Bals[r.intn(len(d.Bals))])
				}
				extra = append(extra, c)
			}
			if len(d.Bals) == 1 && r.chance(30) {
				d.Bals = append(d.Bals, d.Bals[0])
			}
		}
	}
	insert(extra)
	return j
}

func usesTemp(d Dir) bool {
	for _, b := range d.Bookings {
		if b.Credit == "Assets:Temp" || b.Debit == "Assets:Temp" {
			return true
		}
	}
	return false
}

func genC09(out *caseWriter, seed uint64, n int, args []string) error {
	var items []caseIn
	for i := 0; i < n; i++ {
		r := newRng(seed, "C09", i)
		o := c09Opts(r)
		j := genC09Journal(r, o)
		c1 := genBalCfg(r, j, o, false, false)
		c2 := genBalCfg(r, j, o, true, false)
		c2.Show = nil
		enc := j.Enc()
		items = append(items, caseIn{fmt.Sprintf("C09-%d-%d-p", seed, i), "C09.print", c1.Enc() + " ## " + c2.Enc() + " | " + enc})
		items = append(items, caseIn{fmt.Sprintf("C09-%d-%d-t", seed, i), "C09.tomodel", enc})
		items = append(items, caseIn{fmt.Sprintf("C09-%d-%d-m", seed, i), "C09.model", hex.EncodeToString([]byte(j.Text()))})
	}
	out.addBatch(items)
	return nil
}

// texts with conversion errors: the parser accepts them, the Create functions may not
var c09Mutations = [][2]string{
	{"-01-", "-13-"}, {"-02-", "-02-3"}, {"-0", "-3"}, {"2020-", "٢020-"}, {"2021-", "0000-"}, {"-1", "-٣"},
	{"Assets:", "Assetz:"}, {"Expenses:", "expenses:"}, {"Income:", "$"}, {" 1", " ١"}, {".5", ".٥"}, {"Equity:", "Equity:X:"},
	{"monthly", "weekly"}, {"balance ", "balance Foo:"}, {" open ", " open $"}, {"-28", "-31"}, {"-29", "-30"}, {"-02-2", "-02-3"},
}

func genC09Model(out *caseWriter, seed uint64, n int, args []string) error {
	var items []caseIn
	for i := 0; i < n; i++ {
		r := newRng(seed, "C09model", i)
		o := c09Opts(r)
		text := genC09Journal(r, o).Text()
		k := r.intn(3)
		for ; k > 0; k-- {
			m := pick(r, c09Mutations)
			// replace the q-th occurrence
			cnt := strings.Count(text, m[0])
			if cnt == 0 {
				continue
			}
			q := r.intn(cnt)
			idx := 0
			for c := 0; ; c++ {
				idx += strings.Index(text[idx:], m[0])
				if c == q {
					break
				}
				idx += len(m[0])
			}
			if ls := strings.LastIndex(text[:idx], "\n") + 1; m[1] == "0000-" && strings.HasPrefix(text[ls:], "@accrue") {
				// an accrual window that starts in year 0000 expands into 10^5 transactions (known finding F21 in C14):
				// not what this op is about
				continue
			}
			text = text[:idx] + m[1] + text[idx+len(m[0]):]
		}
		items = append(items, caseIn{fmt.Sprintf("C09model-%d-%d", seed, i), "C09.model", hex.EncodeToString([]byte(text))})
	}
	out.addBatch(items)
	return nil
}

// ---------------------------------------------------------------- observers

func firstDiffOffset(a, b string) int {
	n := len(a)
	if len(b) < n {
		n = len(b)
	}
	for i := 0; i < n; i++ {
		if a[i] != b[i] {
			return i
		}
	}
	return n
}

// input: "<cfg1> ## <cfg2> | <journal>"
// observed: "ERR" etc. when `print J` fails, otherwise
//
//	OK <P1> | reprint=same|diff@<offset>|<class> | check=ok|<class> | bal=same|diff@<k>
func obsC09Print(in string) string {
	cfgS, jS := splitInput(in)
	j := DecodeJournal(jS)
	var out string
	withTempDir(func(dir string) {
		f := writeFile(dir, "journal.knut", j.Text())
		r1 := runKnut(knutBin(), dir, nil, 20*time.Second, "print", f)
		if r1.class() != "OK" {
			out = renderRun(r1)
			return
		}
		p1 := r1.Stdout
		g := writeFile(dir, "p1.knut", p1)
		r2 := runKnut(knutBin(), dir, nil, 20*time.Second, "print", g)
		reprint := r2.class()
		if reprint == "OK" {
			if r2.Stdout == p1 {
				reprint = "same"
			} else {
				reprint = fmt.Sprintf("diff@%d", firstDiffOffset(p1, r2.Stdout))
			}
		}
		r3 := runKnut(knutBin(), dir, nil, 20*time.Second, "check", g)
		check := r3.class()
		if check == "OK" {
			check = "ok"
		}
		bal := "same"
		for k, cs := range strings.Split(cfgS, " ## ") {
			cfg := DecodeBalCfg(cs)
			a := renderRun(runKnut(knutBin(), dir, nil, 20*time.Second, append(cfg.Args(), f)...))
			b := renderRun(runKnut(knutBin(), dir, nil, 20*time.Second, append(cfg.Args(), g)...))
			if a != b {
				bal = fmt.Sprintf("diff@%d", k)
				break
			}
		}
		out = "OK " + esc(p1) + " | reprint=" + reprint + " | check=" + check + " | bal=" + bal
	})
	return out
}

// the text knut is given for this journal (no implementation code runs)
func obsC09ToModel(in string) string {
	return hex.EncodeToString([]byte(DecodeJournal(in).Text()))
}

func c09Date(t time.Time) string { return t.Format("2006-01-02") }

func c09ErrClass(err error) string {
	if se, ok := err.(directives.Error); ok {
		if _, ok := se.Wrapped.(*time.ParseError); ok {
			return "date"
		}
		if se.Message == "parsing interval" {
			return "interval"
		}
		return "decimal"
	}
	return "account"
}

func c09RenderTxn(t *model.Transaction) string {
	desc := "-"
	if t.Description != "" {
		desc = hex.EncodeToString([]byte(t.Description))
	}
	targets := "-"
	if t.Targets != nil {
		var cs []string
		for _, c := range t.Targets {
			cs = append(cs, c.Name())
		}
		targets = "=" + strings.Join(cs, ",")
	}
	var ps []string
	for _, p := range t.Postings {
		ps = append(ps, fmt.Sprintf("%s %s %s %s", p.Account.Name(), p.Other.Name(), p.Commodity.Name(), p.Quantity.String()))
	}
	return fmt.Sprintf("T %s|%s|%s|%s", c09Date(t.Date), desc, targets, strings.Join(ps, ","))
}

func c09RenderDirective(d model.Directive) string {
	switch x := d.(type) {
	case *model.Price:
		return fmt.Sprintf("P %s %s %s %s", c09Date(x.Date), x.Commodity.Name(), x.Price.String(), x.Target.Name())
	case *model.Open:
		return fmt.Sprintf("O %s %s", c09Date(x.Date), x.Account.Name())
	case *model.Close:
		return fmt.Sprintf("C %s %s", c09Date(x.Date), x.Account.Name())
	case *model.Assertion:
		var bs []string
		for _, b := range x.Balances {
			bs = append(bs, fmt.Sprintf("%s %s %s", b.Account.Name(), b.Quantity.String(), b.Commodity.Name()))
		}
		return fmt.Sprintf("A %s %s", c09Date(x.Date), strings.Join(bs, ","))
	case *model.Transaction:
		return c09RenderTxn(x)
	}
	return "?"
}

func c09ParseDirective(reg *registry.Registry, w directives.Directive) (res string) {
	defer func() {
		if r := recover(); r != nil {
			res = "PANIC"
		}
	}()
	ds, err := model.ParseDirective(reg, w)
	if err != nil {
		return "ERR:" + c09ErrClass(err)
	}
	var out []string
	for _, d := range ds {
		out = append(out, c09RenderDirective(d))
	}
	return "[" + strings.Join(out, ";") + "]"
}

// input: journal text in hex; observed: "SYNTAX" or one entry per syntax directive, joined by " "
//
//	[d;d;...]   the model directives model.ParseDirective returns for it, rendered
//	ERR:<class> its error (date | decimal | account | interval), PANIC
func obsC09Model(in string) (res string) {
	defer func() {
		if r := recover(); r != nil {
			res = "PANIC-PARSER"
		}
	}()
	b, err := hex.DecodeString(in)
	if err != nil {
		return "BADINPUT"
	}
	p := parser.New(string(b), "")
	if err := p.Advance(); err != nil {
		return "SYNTAX"
	}
	f, err := p.ParseFile()
	if err != nil {
		return "SYNTAX"
	}
	reg := registry.New()
	var out []string
	for _, w := range f.Directives {
		out = append(out, c09ParseDirective(reg, w))
	}
	return strings.Join(out, " ")
}
