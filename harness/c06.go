package main

// C06.order: `knut print` of a journal spread over an include tree (as C06.repeat), run several
// times under schedule perturbation; besides comparing the runs with each other the first
// stdout is handed to the check, which compares it with the model's Build-with-source-sort
// (coq/Model/Source.v print_tagged) evaluated on the directives tagged with (file path,
// position) in reversed order.  The layout is computed by the generator and is part of the
// input; the observer re-derives it from the same seed (genLayout is the first consumer of
// that stream) and checks that both agree.

import (
	"fmt"
	"strings"
	"time"
)

func init() {
	observers["C06.order"] = obsC06Order
	gens["C06order"] = genC06Order
}

// the path under which knut knows file f, relative to the temporary directory: the root is
// given as dir/f0.knut, included files as path.Join(dir of the including file, include path),
// which is cleaned: dir/<l.dir[f]>/<l.names[f]>
func layoutPath(l layout, f int) string {
	name := l.names[f]
	if l.dir[f] == "." {
		return name
	}
	return l.dir[f] + "/" + name
}

func layoutTags(l layout) (string, string) {
	var paths, of []string
	for f := range l.parent {
		paths = append(paths, layoutPath(l, f))
	}
	for _, f := range l.fileOf {
		of = append(of, fmt.Sprint(f))
	}
	return strings.Join(paths, ","), strings.Join(of, ",")
}

// input: "<runs> <lseed> # <paths> # <fileOf> | <journal>"
func obsC06Order(in string) string {
	head, jS := splitInput(in)
	hp := strings.Split(head, " # ")
	var runs int
	var lseed uint64
	fmt.Sscanf(hp[0], "%d %d", &runs, &lseed)
	j := DecodeJournal(jS)
	var out string
	withTempDir(func(dir string) {
		r := newRng(lseed, "C06layout", 0)
		l := genLayout(r, len(j), 5)
		if p, o := layoutTags(l); len(hp) != 3 || p != hp[1] || o != hp[2] {
			out = "layout mismatch | -"
			return
		}
		root := writeLayout(dir, j, l, r)
		var first runResult
		verdict := "runs=same"
		for i := 0; i < runs; i++ {
			env := []string{fmt.Sprintf("KNUT_VERIF_SCHED=%d", lseed*131+uint64(i)), fmt.Sprintf("GOMAXPROCS=%d", []int{1, 2, 16}[i%3])}
			x := runKnut(knutBin(), dir, env, 20*time.Second, "print", root)
			if i == 0 {
				first = x
				continue
			}
			if x.class() != first.class() || x.Stdout != first.Stdout {
				verdict = fmt.Sprintf("diff run=%d class %s/%s first=%s", i, first.class(), x.class(), esc(firstDiff(first.Stdout, x.Stdout)))
				break
			}
		}
		out = verdict + " | " + renderRun(first)
	})
	return out
}

// tie-rich journals as genC06 (few days, many same-day directives of every kind, duplicated
// transactions, accruals), always printed
func genC06Order(out *caseWriter, seed uint64, n int, args []string) error {
	var items []caseIn
	for i := 0; i < n; i++ {
		r := newRng(seed, "C06order", i)
		o := defaultOpts(r)
		o.days = r.rangeInt(2, 8)
		o.nTxn = r.rangeInt(4, 16)
		j := genJournal(r, o)
		for k := 0; k < 3; k++ {
			d := j[r.intn(len(j))]
			if d.Kind == 'T' {
				j = append(j, d)
			}
		}
		lseed := r.next() % 1000000
		l := genLayout(newRng(lseed, "C06layout", 0), len(j), 5)
		paths, of := layoutTags(l)
		in := fmt.Sprintf("%d %d # %s # %s | %s", 6, lseed, paths, of, j.Enc())
		items = append(items, caseIn{fmt.Sprintf("C06order-%d-%d", seed, i), "C06.order", in})
	}
	out.addBatch(items)
	return nil
}
