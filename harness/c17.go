package main

// C17: table rendering.  C17.table drives the exported API of lib/common/table in-process
// (text renderer with Round/Thousands, CSV renderer); C17.bal runs `knut balance` twice on
// the same journal and flags, once as text (--digits, -k) and once with --csv.

import (
	"bytes"
	"encoding/hex"
	"fmt"
	"math/big"
	"strconv"
	"strings"
	"sync"
	"time"

	"github.com/shopspring/decimal"

	"github.com/sboehler/knut/lib/common/table"
)

func init() {
	gens["C17"] = genC17Table
	gens["C17bal"] = genC17Bal
	observers["C17.table"] = obsC17Table
	observers["C17.bal"] = obsC17Bal
}

// ---------------------------------------------------------------- input encoding
//
//	groups=<g1>,<g2>,... digits=<n> k=<0|1> | <row> ; <row> ; ...
//	row:  S | E | R <cell> <cell> ... [F]
//	cell: _ | T<L|R|C>:<hex or -> | I<indent>:<hex or -> | N<coef>e<exp>

type c17Cell struct {
	kind   byte // '_', 'T', 'I', 'N'
	align  table.Alignment
	indent int
	text   string
	coef   *big.Int
	exp    int32
}

type c17Row struct {
	kind  byte // 'S', 'E', 'R'
	cells []c17Cell
	fill  bool
}

type c17Spec struct {
	groups []int
	digits int32
	k      bool
	rows   []c17Row
}

func c17Unhex(s string) (string, error) {
	if s == "-" {
		return "", nil
	}
	b, err := hex.DecodeString(s)
	return string(b), err
}

func c17DecodeCell(tok string) (c17Cell, error) {
	bad := fmt.Errorf("bad cell %q", tok)
	if tok == "_" {
		return c17Cell{kind: '_'}, nil
	}
	if len(tok) < 2 {
		return c17Cell{}, bad
	}
	switch tok[0] {
	case 'T':
		if len(tok) < 4 || tok[2] != ':' {
			return c17Cell{}, bad
		}
		c := c17Cell{kind: 'T'}
		switch tok[1] {
		case 'L':
			c.align = table.Left
		case 'R':
			c.align = table.Right
		case 'C':
			c.align = table.Center
		default:
			return c17Cell{}, bad
		}
		var err error
		if c.text, err = c17Unhex(tok[3:]); err != nil {
			return c17Cell{}, bad
		}
		return c, nil
	case 'I':
		i := strings.IndexByte(tok, ':')
		if i < 2 || i+1 >= len(tok) {
			return c17Cell{}, bad
		}
		ind, err := strconv.Atoi(tok[1:i])
		if err != nil || ind < 0 {
			return c17Cell{}, bad
		}
		c := c17Cell{kind: 'I', indent: ind}
		if c.text, err = c17Unhex(tok[i+1:]); err != nil {
			return c17Cell{}, bad
		}
		return c, nil
	case 'N':
		i := strings.IndexByte(tok, 'e')
		if i < 2 {
			return c17Cell{}, bad
		}
		coef, ok := new(big.Int).SetString(tok[1:i], 10)
		if !ok {
			return c17Cell{}, bad
		}
		exp, err := strconv.ParseInt(tok[i+1:], 10, 32)
		if err != nil {
			return c17Cell{}, bad
		}
		return c17Cell{kind: 'N', coef: coef, exp: int32(exp)}, nil
	}
	return c17Cell{}, bad
}

func c17Decode(in string) (c17Spec, error) {
	var t c17Spec
	hdr, body := splitInput(in)
	for _, kv := range strings.Fields(hdr) {
		i := strings.IndexByte(kv, '=')
		if i < 0 {
			return t, fmt.Errorf("bad header field %q", kv)
		}
		key, v := kv[:i], kv[i+1:]
		switch key {
		case "groups":
			for _, g := range strings.Split(v, ",") {
				n, err := strconv.Atoi(g)
				if err != nil || n < 0 {
					return t, fmt.Errorf("bad group %q", g)
				}
				t.groups = append(t.groups, n)
			}
		case "digits":
			n, err := strconv.ParseInt(v, 10, 32)
			if err != nil {
				return t, fmt.Errorf("bad digits %q", v)
			}
			t.digits = int32(n)
		case "k":
			t.k = v == "1"
		default:
			return t, fmt.Errorf("unknown header field %q", kv)
		}
	}
	for _, rs := range strings.Split(body, " ; ") {
		f := strings.Fields(rs)
		if len(f) == 0 {
			continue
		}
		switch {
		case f[0] == "S" && len(f) == 1:
			t.rows = append(t.rows, c17Row{kind: 'S'})
		case f[0] == "E" && len(f) == 1:
			t.rows = append(t.rows, c17Row{kind: 'E'})
		case f[0] == "R":
			row := c17Row{kind: 'R'}
			toks := f[1:]
			if len(toks) > 0 && toks[len(toks)-1] == "F" {
				row.fill = true
				toks = toks[:len(toks)-1]
			}
			for _, tok := range toks {
				c, err := c17DecodeCell(tok)
				if err != nil {
					return t, err
				}
				row.cells = append(row.cells, c)
			}
			t.rows = append(t.rows, row)
		default:
			return t, fmt.Errorf("bad row %q", rs)
		}
	}
	return t, nil
}

func c17Build(s c17Spec) *table.Table {
	t := table.New(s.groups...)
	for _, row := range s.rows {
		switch row.kind {
		case 'S':
			t.AddSeparatorRow()
		case 'E':
			t.AddEmptyRow()
		case 'R':
			r := t.AddRow()
			for _, c := range row.cells {
				switch c.kind {
				case '_':
					r.AddEmpty()
				case 'T':
					r.AddText(c.text, c.align)
				case 'I':
					r.AddIndented(c.text, c.indent)
				case 'N':
					r.AddDecimal(decimal.NewFromBigInt(c.coef, c.exp))
				}
			}
			if row.fill {
				r.FillEmpty()
			}
		}
	}
	return t
}

// TextRenderer.Render assigns the package-level variable color.NoColor (and the colour
// printers read it); replay observes concurrently, so the text rendering is serialised.
var c17TextMu sync.Mutex

func c17RenderText(t *table.Table, digits int32, k bool, buf *bytes.Buffer) error {
	c17TextMu.Lock()
	defer c17TextMu.Unlock()
	return (&table.TextRenderer{Color: false, Thousands: k, Round: digits}).Render(t, buf)
}

// obsC17Table: "<escaped text> #CSV# <escaped csv>", "PANIC <msg>", "RENDERERR <msg>" or
// "BADINPUT <msg>" (the input does not follow the encoding above).
func obsC17Table(in string) (res string) {
	spec, err := c17Decode(in)
	if err != nil {
		return "BADINPUT " + esc(err.Error())
	}
	defer func() {
		if p := recover(); p != nil {
			msg := fmt.Sprint(p)
			if len(msg) > 160 {
				msg = strings.ToValidUTF8(msg[:160], "?")
			}
			res = "PANIC " + esc(msg)
		}
	}()
	t := c17Build(spec)
	var text, csv bytes.Buffer
	if err := c17RenderText(t, spec.digits, spec.k, &text); err != nil {
		return "RENDERERR text " + esc(err.Error())
	}
	if err := (&table.CSVRenderer{}).Render(t, &csv); err != nil {
		return "RENDERERR csv " + esc(err.Error())
	}
	return esc(text.String()) + " #CSV# " + esc(csv.String())
}

// ---------------------------------------------------------------- numbers

// c17DigitStr: n random decimal digits, the first one non-zero ("" for n <= 0).
func c17DigitStr(r *rng, n int) string {
	var b strings.Builder
	for i := 0; i < n; i++ {
		if i == 0 {
			b.WriteByte(byte('1' + r.intn(9)))
		} else {
			b.WriteByte(byte('0' + r.intn(10)))
		}
	}
	return b.String()
}

// c17Prefix: leading digits in front of a rounding pattern: nothing, random digits (the last
// one even or odd), or all nines (carry into a new digit / a new thousands group).
func c17Prefix(r *rng) string {
	n := r.intn(8)
	if r.chance(20) {
		return strings.Repeat("9", n)
	}
	return c17DigitStr(r, n)
}

type c17Num struct {
	coef string
	exp  int
}

var c17Zeros = []c17Num{{"0", 0}, {"0", 1}, {"0", -2}, {"0", -8}}
var c17PosExp = []c17Num{{"5", 3}, {"12", 2}, {"7", 1}}
var c17Trailing = []c17Num{{"1500", -3}, {"100", -2}, {"1000000", -6}}
var c17Exact = []c17Num{{"999", 0}, {"1000", 0}, {"999999", 0}, {"1000000", 0}, {"1000000000000000", 0}, {"1", 15}, {"999999999999999", 0}}

// 999.5 999999.5 999999999.5 0.5 0.05 0.005 0.004 0.005 0.0049 0.0005 999.995 9.995 99999.995 999999.995
var c17Fixed = []c17Num{{"9995", -1}, {"9999995", -1}, {"9999999995", -1}, {"5", -1}, {"5", -2}, {"5", -3}, {"4", -3}, {"5", -3},
	{"49", -4}, {"5", -4}, {"999995", -3}, {"9995", -3}, {"99999995", -3}, {"999999995", -3}}

var c17Exps = []int{-2, -2, -2, -2, -2, -2, -8, -8, -8, 0, 0, 0, -1, -3, -4, -5, -6, -7}

func c17Magnitude(r *rng, digits int, k bool) c17Num {
	p := r.intn(100)
	switch {
	case p < 12: // zero in several representations
		return pick(r, c17Zeros)
	case p < 15: // positive exponents
		if r.chance(50) {
			return pick(r, c17PosExp)
		}
		return c17Num{c17DigitStr(r, r.rangeInt(1, 4)), r.rangeInt(1, 4)}
	case p < 20: // trailing zeros in the coefficient
		if r.chance(50) {
			return pick(r, c17Trailing)
		}
		z := r.rangeInt(1, 6)
		return c17Num{c17DigitStr(r, r.rangeInt(1, 5)) + strings.Repeat("0", z), -r.rangeInt(0, 8)}
	case p < 25: // thousands-group boundaries, largest magnitudes
		return pick(r, c17Exact)
	case p < 50: // rounding boundaries relative to digits and k
		e0 := -(digits + 1) // exponent of the digit right of the rounding digit
		if k && r.chance(70) {
			e0 += 3 // ... after the division by 1000
		}
		switch q := r.intn(10); {
		case q < 4: // exact tie x.5
			return c17Num{c17Prefix(r) + "5", e0}
		case q < 7: // just below / just above the tie, j digits further right
			j := r.rangeInt(1, 4)
			for e0-j < -13 {
				j--
			}
			if j < 1 {
				return c17Num{c17Prefix(r) + "5", e0}
			}
			if r.chance(50) {
				return c17Num{c17Prefix(r) + "4" + strings.Repeat("9", j), e0 - j}
			}
			return c17Num{c17Prefix(r) + "5" + strings.Repeat("0", j-1) + "1", e0 - j}
		default:
			n := pick(r, c17Fixed)
			if k && r.chance(50) {
				n.exp += 3
			}
			return n
		}
	default: // magnitudes spread log-uniformly between 10^exp and 10^15
		exp := pick(r, c17Exps)
		return c17Num{c17DigitStr(r, r.rangeInt(1, 15-exp)), exp}
	}
}

// randDec draws a number cell value coef * 10^exp (exp >= -13, so that the division by 1000
// of the -k mode stays within the 16 digits of decimal.DivisionPrecision).
func randDec(r *rng, digits int, k bool) (*big.Int, int) {
	n := c17Magnitude(r, digits, k)
	coef, ok := new(big.Int).SetString(n.coef, 10)
	if !ok {
		panic("c17: bad coefficient " + n.coef)
	}
	if n.exp < -13 {
		panic(fmt.Sprintf("c17: exponent %d", n.exp))
	}
	if r.chance(50) {
		coef.Neg(coef)
	}
	return coef, n.exp
}

// ---------------------------------------------------------------- table generator

var c17Names = []string{"Assets", "Liabilities", "Währung", "日本", "Épargne", "Bank", "Ω", "Konto-ÄÖÜ", "a",
	"abcdefghijklmnopqrstuvwxyzabcd", "Total (A+L)", "Delta"}
var c17Coms = []string{"CHF", "USD", "AAPL", "BTC", "€uro"}
var c17Words = []string{"n/a", "-", "12.5%", "x", "käse", "(none)", "1 2"}
var c17Indents = []int{0, 2, 4, 6, 8}

// c17Text: a text cell T<a>:<hex>; the empty content in about 3%.
func c17Text(r *rng, align byte, pool []string) string {
	s := pick(r, pool)
	if r.chance(3) {
		s = ""
	}
	return fmt.Sprintf("T%c:%s", align, hexs(s))
}

func c17NumCell(r *rng, digits int, k bool) string {
	p := r.intn(100)
	switch {
	case p < 5:
		return c17Text(r, pick(r, []byte{'R', 'C'}), c17Words)
	case p < 8:
		return "_"
	}
	coef, exp := randDec(r, digits, k)
	return fmt.Sprintf("N%se%d", coef.String(), exp)
}

func c17CommCell(r *rng) string {
	if r.chance(20) {
		return "_"
	}
	return c17Text(r, 'L', c17Coms)
}

func c17BodyRow(r *rng, comm bool, m, digits int, k bool) string {
	cells := []string{"R"}
	if r.chance(10) {
		cells = append(cells, "_") // continuation row
	} else {
		cells = append(cells, fmt.Sprintf("I%d:%s", pick(r, c17Indents), hexs(pick(r, c17Names))))
	}
	if comm {
		cells = append(cells, c17CommCell(r))
	}
	nc, fill := m, false
	if r.chance(8) {
		nc, fill = r.intn(m), true
	}
	if r.chance(6) {
		// near-twins: amounts of 15-18 significant digits that differ only in their last places (a balance of 9e14
		// with a booking of 0.03 between two columns): equal as float64, different as decimals (seeded change
		// C17d-memoised-by-float64 reused the first one's text for the second)
		base, _ := new(big.Int).SetString(c17DigitStr(r, r.rangeInt(15, 18)), 10)
		exp := -r.rangeInt(1, 4)
		for i := 0; i < nc; i++ {
			v := new(big.Int).Add(base, big.NewInt(int64(i*r.rangeInt(1, 9))))
			cells = append(cells, fmt.Sprintf("N%se%d", v.String(), exp))
		}
		nc = 0
	}
	for i := 0; i < nc; i++ {
		cells = append(cells, c17NumCell(r, digits, k))
	}
	if fill {
		cells = append(cells, "F")
	}
	return strings.Join(cells, " ")
}

func c17HeaderRow(r *rng, comm bool, m int) string {
	cells := []string{"R", "TC:" + hexs("Account")}
	if comm {
		cells = append(cells, "TC:"+hexs("Comm"))
	}
	y, mo := r.rangeInt(2018, 2024), r.rangeInt(1, 12)
	step := pick(r, []int{1, 1, 3, 12})
	for i := 0; i < m; i++ {
		d := time.Date(y, time.Month(mo+1+i*step), 0, 0, 0, 0, 0, time.UTC) // last day of the month
		cells = append(cells, "TC:"+hexs(d.Format("2006-01-02")))
	}
	return strings.Join(cells, " ")
}

func c17TotalRow(r *rng, comm bool, m, digits int, k bool) string {
	cells := []string{"R", "I0:" + hexs(pick(r, []string{"Total (A+L)", "Delta"}))}
	if comm {
		cells = append(cells, c17CommCell(r))
	}
	for i := 0; i < m; i++ {
		cells = append(cells, c17NumCell(r, digits, k))
	}
	return strings.Join(cells, " ")
}

// genC17Table: tables shaped like a balance report (account column, optional commodity column,
// m date columns; separators, header, indented accounts, empty rows, totals) with numbers
// around every rounding / grouping boundary of the text renderer.
func genC17Table(out *caseWriter, seed uint64, n int, _ []string) error {
	for i := 0; i < n; i++ {
		r := newRng(seed, "C17", i)
		digits := 2
		if !r.chance(30) {
			digits = r.rangeInt(-2, 8)
		}
		k := r.chance(50)
		m := r.rangeInt(1, 6)
		comm := r.chance(50)
		groups := fmt.Sprintf("1,%d", m)
		if comm {
			groups = fmt.Sprintf("1,1,%d", m)
		}
		body := func() string { return c17BodyRow(r, comm, m, digits, k) }
		header := c17HeaderRow(r, comm, m)

		var rows []string
		switch {
		case !r.chance(10):
			rows = append(rows, "S", header, "S")
		case r.chance(50): // first row is not a separator: "| " prefix on the first line
			rows = append(rows, header, "S")
		default:
			rows = append(rows, body(), "S", header, "S")
		}
		nb := r.rangeInt(1, 12)
		for b := 0; b < nb; b++ {
			rows = append(rows, body())
			switch p := r.intn(100); {
			case p < 12:
				rows = append(rows, "E")
			case p < 15:
				rows = append(rows, "S")
			}
		}
		if r.chance(30) {
			rows = append(rows, "E")
		}
		rows = append(rows, c17TotalRow(r, comm, m, digits, k), "S")
		if r.chance(15) {
			for x := r.rangeInt(1, 2); x > 0; x-- {
				rows = append(rows, pick(r, []string{"S", "E"}))
			}
		}
		in := fmt.Sprintf("groups=%s digits=%d k=%s | %s", groups, digits, b2s(k), strings.Join(rows, " ; "))
		out.add(fmt.Sprintf("C17-%d-%d", seed, i), "C17.table", in)
	}
	return nil
}

// ---------------------------------------------------------------- knut balance: text vs csv

// obsC17Bal: "<text observation> #CSV# <csv observation>", both as rendered by obsBalance,
// for the same journal and flags (csv=0 as given, then csv=1).
func obsC17Bal(in string) string {
	cfgS, jS := splitInput(in)
	textObs := obsBalance(in)
	cfg := DecodeBalCfg(cfgS)
	cfg.CSV = true
	csvObs := obsBalance(cfg.Enc() + " | " + jS)
	return textObs + " #CSV# " + csvObs
}

// genC17Bal: accepted journals x flag combinations, always -a (without it the order of
// siblings follows Go's map iteration), text output with --digits in -2..8 and -k.
func genC17Bal(out *caseWriter, seed uint64, n int, _ []string) error {
	var items []caseIn
	for i := 0; i < n; i++ {
		r := newRng(seed, "C17bal", i)
		o := defaultOpts(r)
		j := genJournal(r, o)
		cfg := genBalCfg(r, j, o, r.chance(40), r.chance(30))
		cfg.CSV = false
		cfg.Alpha = true
		cfg.Digits = 2
		if !r.chance(30) {
			cfg.Digits = r.rangeInt(-2, 8)
		}
		cfg.Thousands = r.chance(40)
		items = append(items, caseIn{fmt.Sprintf("C17bal-%d-%d", seed, i), "C17.bal", cfg.Enc() + " | " + j.Enc()})
	}
	out.addBatch(items)
	return nil
}
