package main

import "fmt"

func init() {
	observers["C01.bal"] = obsBalance
	gens["C01"] = genC01
}

// genC01: accepted journals (all five account types, accruals, negative and zero amounts,
// prices for every commodity) x complete flag combinations (no filters, no level-0 mapping):
// window, interval, --last, --diff, --close, valuation, remap, level>=1 mappings.
func genC01(out *caseWriter, seed uint64, n int, args []string) error {
	var items []caseIn
	for i := 0; i < n; i++ {
		r := newRng(seed, "C01", i)
		o := defaultOpts(r)
		j := genJournal(r, o)
		for k := 0; k < 3; k++ {
			cfg := genBalCfg(r, j, o, k != 0 && r.chance(70), false)
			accs := journalAccounts(j)
			if r.chance(35) {
				cfg.Map = append(cfg.Map, fmt.Sprintf("%d,%s", r.rangeInt(1, 3), rxFor(r, accs)))
			}
			if r.chance(20) {
				cfg.Remap = []string{rxFor(r, accs)}
			}
			items = append(items, caseIn{fmt.Sprintf("C01-%d-%d-%d", seed, i, k), "C01.bal", cfg.Enc() + " | " + j.Enc()})
		}
	}
	out.addBatch(items)
	return nil
}
