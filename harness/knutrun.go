package main

// Running the knut binary ($KNUT_BIN, built by the check from /repo's working tree) on
// generated journals, and the balance-command configuration shared by several properties.

import (
	"bytes"
	"context"
	"fmt"
	"os"
	"os/exec"
	"path/filepath"
	"strings"
	"sync"
	"time"
)

type BalCfg struct {
	From, To  string // "-" when absent
	Interval  string // once daily weekly monthly quarterly yearly
	Last      int
	Diff      bool
	Close     bool
	Val       string // "-" when absent
	Alpha     bool
	Map       []string // "level[:suffix],rx" entries
	Remap     []string
	Acc       []string
	Com       []string
	Show      []string
	Digits    int
	Thousands bool
	CSV       bool
}

func b2s(b bool) string {
	if b {
		return "1"
	}
	return "0"
}

func listEnc(l []string) string {
	if len(l) == 0 {
		return "-"
	}
	return strings.Join(l, "|")
}
func listDec(s string) []string {
	if s == "-" || s == "" {
		return nil
	}
	return strings.Split(s, "|")
}

func (c BalCfg) Enc() string {
	return fmt.Sprintf("from=%s to=%s iv=%s last=%d diff=%s close=%s val=%s alpha=%s map=%s remap=%s acc=%s com=%s show=%s digits=%d k=%s csv=%s",
		c.From, c.To, c.Interval, c.Last, b2s(c.Diff), b2s(c.Close), c.Val, b2s(c.Alpha),
		listEnc(c.Map), listEnc(c.Remap), listEnc(c.Acc), listEnc(c.Com), listEnc(c.Show), c.Digits, b2s(c.Thousands), b2s(c.CSV))
}

func DecodeBalCfg(s string) BalCfg {
	var c BalCfg
	for _, kv := range strings.Fields(s) {
		i := strings.Index(kv, "=")
		k, v := kv[:i], kv[i+1:]
		switch k {
		case "from":
			c.From = v
		case "to":
			c.To = v
		case "iv":
			c.Interval = v
		case "last":
			fmt.Sscanf(v, "%d", &c.Last)
		case "diff":
			c.Diff = v == "1"
		case "close":
			c.Close = v == "1"
		case "val":
			c.Val = v
		case "alpha":
			c.Alpha = v == "1"
		case "map":
			c.Map = listDec(v)
		case "remap":
			c.Remap = listDec(v)
		case "acc":
			c.Acc = listDec(v)
		case "com":
			c.Com = listDec(v)
		case "show":
			c.Show = listDec(v)
		case "digits":
			fmt.Sscanf(v, "%d", &c.Digits)
		case "k":
			c.Thousands = v == "1"
		case "csv":
			c.CSV = v == "1"
		}
	}
	return c
}

var ivFlag = map[string]string{"once": "", "daily": "--days", "weekly": "--weeks", "monthly": "--months", "quarterly": "--quarters", "yearly": "--years"}

func (c BalCfg) Args() []string {
	a := []string{"balance", "--color=false"}
	if c.From != "-" && c.From != "" {
		a = append(a, "--from", c.From)
	}
	if c.To != "-" && c.To != "" {
		a = append(a, "--to", c.To)
	}
	if f := ivFlag[c.Interval]; f != "" {
		a = append(a, f)
	}
	if c.Last != 0 {
		a = append(a, fmt.Sprintf("--last=%d", c.Last))
	}
	if c.Diff {
		a = append(a, "--diff")
	}
	a = append(a, fmt.Sprintf("--close=%v", c.Close))
	if c.Val != "-" && c.Val != "" {
		a = append(a, "--val", c.Val)
	}
	if c.Alpha {
		a = append(a, "-a")
	}
	for _, m := range c.Map {
		a = append(a, "-m", m)
	}
	for _, m := range c.Remap {
		a = append(a, "--remap", m)
	}
	for _, m := range c.Acc {
		a = append(a, "--account", m)
	}
	for _, m := range c.Com {
		a = append(a, "--commodity", m)
	}
	for _, m := range c.Show {
		a = append(a, "-s", m)
	}
	if c.CSV {
		a = append(a, "--csv")
	} else {
		a = append(a, fmt.Sprintf("--digits=%d", c.Digits))
		if c.Thousands {
			a = append(a, "-k")
		}
	}
	return a
}

type runResult struct {
	Exit   int
	Stdout string
	Stderr string
	Hang   bool
}

// class: OK | ERR (exit 1, clean) | PANIC | HANG | EXIT<n>
func (r runResult) class() string {
	switch {
	case r.Hang:
		return "HANG"
	case strings.Contains(r.Stderr, "panic:") || strings.Contains(r.Stderr, "goroutine ") || r.Exit == 2:
		return "PANIC"
	case r.Exit == 0:
		return "OK"
	case r.Exit == 1:
		return "ERR"
	}
	return fmt.Sprintf("EXIT%d", r.Exit)
}

func knutBin() string {
	b := os.Getenv("KNUT_BIN")
	if b == "" {
		panic("KNUT_BIN not set")
	}
	return b
}

func runKnut(bin string, dir string, env []string, timeout time.Duration, args ...string) runResult {
	ctx, cancel := context.WithTimeout(context.Background(), timeout)
	defer cancel()
	cmd := exec.CommandContext(ctx, bin, args...)
	cmd.Dir = dir
	cmd.Env = append(os.Environ(), env...)
	var so, se bytes.Buffer
	cmd.Stdout, cmd.Stderr = &so, &se
	err := cmd.Run()
	res := runResult{Stdout: so.String(), Stderr: se.String()}
	if ctx.Err() == context.DeadlineExceeded {
		res.Hang = true
		return res
	}
	if err != nil {
		if ee, ok := err.(*exec.ExitError); ok {
			res.Exit = ee.ExitCode()
		} else {
			res.Exit = -1
			res.Stderr += err.Error()
		}
	}
	return res
}

var tmpCounter struct {
	sync.Mutex
	n int
}

// withTempDir creates a scratch directory under $VERIF_WORK (the check's temp dir, outside
// /repo and /verif) and removes it afterwards.
func withTempDir(f func(dir string)) {
	base := os.Getenv("VERIF_WORK")
	if base == "" {
		base = os.TempDir()
	}
	dir, err := os.MkdirTemp(base, "case-")
	if err != nil {
		panic(err)
	}
	defer os.RemoveAll(dir)
	f(dir)
}

func writeFile(dir, name, content string) string {
	p := filepath.Join(dir, name)
	os.MkdirAll(filepath.Dir(p), 0o755)
	if err := os.WriteFile(p, []byte(content), 0o644); err != nil {
		panic(err)
	}
	return p
}

// esc makes a string single-line and tab-free.
func esc(s string) string {
	s = strings.ReplaceAll(s, "\\", "\\\\")
	s = strings.ReplaceAll(s, "\n", "\\n")
	s = strings.ReplaceAll(s, "\t", "\\t")
	s = strings.ReplaceAll(s, "\r", "\\r")
	return s
}

// observed rendering of a report command: "OK <escaped stdout>", "ERR" (exit 1, empty stdout),
// "ERR+OUT <stdout>" (exit 1 but something was printed), "PANIC ...", "HANG"
func renderRun(r runResult) string {
	switch c := r.class(); c {
	case "OK":
		return "OK " + esc(r.Stdout)
	case "ERR":
		if r.Stdout == "" {
			return "ERR"
		}
		return "ERR+OUT " + esc(r.Stdout)
	case "PANIC":
		msg := r.Stderr
		if i := strings.Index(msg, "panic:"); i >= 0 {
			msg = msg[i:]
		}
		if len(msg) > 160 {
			msg = msg[:160]
		}
		return "PANIC " + esc(msg)
	default:
		return c
	}
}

// splitInput: "<cfg> | <journal>"
func splitInput(in string) (string, string) {
	i := strings.Index(in, " | ")
	if i < 0 {
		return in, ""
	}
	return in[:i], in[i+3:]
}

// obsBalance runs `knut balance` with the case's flags on the case's journal.
func obsBalance(in string) string {
	cfgS, jS := splitInput(in)
	cfg := DecodeBalCfg(cfgS)
	j := DecodeJournal(jS)
	var out string
	withTempDir(func(dir string) {
		f := writeFile(dir, "journal.knut", j.Text())
		out = renderRun(runKnut(knutBin(), dir, nil, 20*time.Second, append(cfg.Args(), f)...))
	})
	return out
}

// obsCheck runs `knut check`; the diagnostic's first line is kept
func obsCheck(in string) string {
	_, jS := splitInput(in)
	j := DecodeJournal(jS)
	var out string
	withTempDir(func(dir string) {
		f := writeFile(dir, "journal.knut", j.Text())
		r := runKnut(knutBin(), dir, nil, 20*time.Second, "check", f)
		out = r.class()
		if out == "ERR" {
			out += " " + esc(strings.TrimSpace(r.Stderr))
			if r.Stdout != "" {
				out = "ERR+OUT " + esc(r.Stdout)
			}
		}
	})
	return out
}
