package main

// C15: `knut infer` edits only the placeholder account.
//   op C15.infer  input "<fixed|orig> <hex placeholder> <hex training> <hex target>"
//     first field: the model variant; "fixed" = the code since /repo e8bd689 (the default and what checks/c15.py
//     passes), "orig" = the code before it (only for replaying old findings)
//     observed  "OK <hex stdout> ; <tree of stdout | REPARSE-ERR> ; <det|nondet>"   (exit 0)
//               "ERR <hex stdout>" (exit 1) | PANIC ... | HANG
//   The binary is run 10 times on the same files; `nondet` if the outputs are not all equal.

import (
	"encoding/hex"
	"fmt"
	"strings"
	"time"
)

func init() {
	observers["C15.infer"] = obsC15Infer
	gens["C15"] = genC15
}

func obsC15Infer(in string) string {
	f := strings.Split(in, " ")
	if len(f) != 4 {
		return "BADINPUT"
	}
	ph, e1 := hex.DecodeString(f[1])
	train, e2 := hex.DecodeString(f[2])
	target, e3 := hex.DecodeString(f[3])
	if e1 != nil || e2 != nil || e3 != nil {
		return "BADINPUT"
	}
	var out string
	withTempDir(func(dir string) {
		tr := writeFile(dir, "training.knut", string(train))
		tg := writeFile(dir, "target.knut", string(target))
		args := []string{"infer", "-a", string(ph), "-t", tr, tg}
		r := runKnut(knutBin(), dir, nil, 20*time.Second, args...)
		switch c := r.class(); c {
		case "OK":
			det := "det"
			for i := 0; i < 9; i++ {
				r2 := runKnut(knutBin(), dir, nil, 20*time.Second, args...)
				if r2.class() != "OK" || r2.Stdout != r.Stdout {
					det = "nondet"
					break
				}
			}
			tree := "REPARSE-ERR"
			if f2, err := c08Parse(r.Stdout); err == nil {
				tree = c08Tree(f2)
			}
			out = "OK " + hex.EncodeToString([]byte(r.Stdout)) + " ; " + tree + " ; " + det
		case "ERR":
			out = "ERR " + hex.EncodeToString([]byte(r.Stdout))
		case "PANIC":
			out = renderRun(r)
		default:
			out = c
		}
	})
	return out
}

// ------------------------------------------------------------------ generator

var c15Accounts = []string{"Assets:Bank", "Assets:Cash", "Expenses:Food", "Expenses:Rent", "Income:Job", "Equity:E", "Aktiven:Überweisung", "X"}
var c15Words = []string{"migros", "coop", "rent", "salary", "Zürich", "café", "foo", "bar", "MIGROS", "2021"}
var c15Commodities = []string{"CHF", "USD", "AAPL"}

type c15gen struct {
	r    *rng
	ph   string
	pool []string
}

func (g *c15gen) sp() string {
	switch g.r.intn(6) {
	case 0:
		return "\t"
	case 1:
		return "   "
	default:
		return " "
	}
}

func (g *c15gen) date() string {
	return fmt.Sprintf("20%02d-%02d-%02d", g.r.rangeInt(19, 23), g.r.rangeInt(1, 12), g.r.rangeInt(1, 28))
}

func (g *c15gen) desc() string {
	n := g.r.rangeInt(0, 3)
	var w []string
	for i := 0; i < n; i++ {
		w = append(w, pick(g.r, c15Words))
	}
	return strings.Join(w, pick(g.r, []string{" ", " ", "  ", "\t"}))
}

func (g *c15gen) qty() string {
	return pick(g.r, []string{"1", "10", "50", "50", "-3.50", "1200.00", "0"})
}

func (g *c15gen) eol() string {
	if g.r.chance(10) {
		return " \t\n"
	}
	if g.r.chance(8) {
		return "\r\n"
	}
	return "\n"
}

// trx renders one transaction; sides gives for each booking (credit, debit)
func (g *c15gen) trx(sides [][2]string) string {
	var sb strings.Builder
	if g.r.chance(8) {
		sb.WriteString("@performance(" + pick(g.r, c15Commodities) + ")" + g.eol())
	}
	sb.WriteString(g.date() + g.sp() + "\"" + g.desc() + "\"" + g.eol())
	for _, s := range sides {
		sb.WriteString(s[0] + g.sp() + s[1] + g.sp() + g.qty() + g.sp() + pick(g.r, c15Commodities) + g.eol())
	}
	return sb.String()
}

func (g *c15gen) filler() string {
	switch g.r.intn(5) {
	case 0:
		return "* heading" + g.eol()
	case 1:
		return "# " + g.desc() + g.eol()
	case 2:
		return g.date() + " open " + pick(g.r, g.pool) + g.eol()
	case 3:
		return g.date() + " price AAPL 1.5 USD" + g.eol()
	default:
		return ""
	}
}

func (g *c15gen) training() string {
	switch k := g.r.intn(100); {
	case k < 7:
		return ""
	case k < 14:
		return "* nothing to learn from\n" + g.date() + " open " + pick(g.r, g.pool) + "\n"
	case k < 17:
		return "2020-01-01 \"broken\n" // does not parse
	}
	var sb strings.Builder
	n := g.r.rangeInt(1, 6)
	for i := 0; i < n; i++ {
		sb.WriteString(g.filler())
		nb := 1
		if g.r.chance(25) {
			nb = 2
		}
		var sides [][2]string
		for j := 0; j < nb; j++ {
			c, d := pick(g.r, g.pool), pick(g.r, g.pool)
			switch g.r.intn(14) {
			case 0:
				c = g.ph
			case 1:
				d = g.ph
			case 2:
				c = "$macro"
			}
			sides = append(sides, [2]string{c, d})
		}
		sb.WriteString(g.trx(sides))
		sb.WriteString("\n")
	}
	return sb.String()
}

func (g *c15gen) target() string {
	if g.r.chance(4) {
		return g.date() + " open\n" // does not parse
	}
	var sb strings.Builder
	n := g.r.rangeInt(1, 4)
	for i := 0; i < n; i++ {
		sb.WriteString(g.filler())
		nb := g.r.rangeInt(1, 3)
		var sides [][2]string
		for j := 0; j < nb; j++ {
			c, d := pick(g.r, g.pool), pick(g.r, g.pool)
			if g.r.chance(15) {
				c = pick(g.r, c15Accounts) // possibly unknown to the training file
			}
			switch k := g.r.intn(100); {
			case k < 30:
				c = g.ph
			case k < 70:
				d = g.ph
			case k < 80:
				c, d = g.ph, g.ph
			}
			sides = append(sides, [2]string{c, d})
		}
		sb.WriteString(g.trx(sides))
		if i < n-1 || g.r.chance(70) {
			sb.WriteString("\n")
		}
	}
	return sb.String()
}

func genC15(out *caseWriter, seed uint64, n int, args []string) error {
	variant := "fixed"
	if len(args) > 0 {
		variant = args[0]
	}
	for i := 0; i < n; i++ {
		r := newRng(seed, "C15", i)
		g := &c15gen{r: r, ph: "Expenses:TBD"}
		if r.chance(30) {
			g.ph = pick(r, []string{"Unknown:X", "TBD", "Ausgaben:Ünbekannt"})
		}
		k := r.rangeInt(1, 5)
		perm := append([]string(nil), c15Accounts...)
		for j := len(perm) - 1; j > 0; j-- {
			m := r.intn(j + 1)
			perm[j], perm[m] = perm[m], perm[j]
		}
		g.pool = perm[:k]
		train := g.training()
		target := g.target()
		if r.chance(6) {
			train = target // training file and target file may be the same
		}
		in := fmt.Sprintf("%s %s %s %s", variant, hex.EncodeToString([]byte(g.ph)), hex.EncodeToString([]byte(train)), hex.EncodeToString([]byte(target)))
		out.add(fmt.Sprintf("C15-%d-%d", seed, i), "C15.infer", in)
	}
	return nil
}
