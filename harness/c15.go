package main

// C15: `knut infer` edits only the placeholder account.
//   op C15.infer  input "<fixed|orig> <hex placeholder> <training> <hex target>"
//     first field: the model variant; "fixed" = the code since /repo e8bd689 (the default and what checks/c15.py
//     passes), "orig" = the code before it (only for replaying old findings)
//     <training> = <hex of the training file>
//                | tree:<hex path>=<hex content>,...   the training journal spread over an include tree (the
//                  command reads it with ParseFileRecursively); the first entry is the file given to -t, paths are
//                  relative to the training directory.  For a tree the repeated runs are made under schedule
//                  perturbation (KNUT_VERIF_SCHED, GOMAXPROCS), so that the files reach the trainer in varying order.
//     observed  "OK <hex stdout> ; <tree of stdout | REPARSE-ERR> ; <det|nondet>"   (exit 0)
//               "ERR <hex stdout>" (exit 1) | PANIC ... | HANG
//   The binary is run 10 times on the same files; `nondet` if the outputs are not all equal.

import (
	"encoding/hex"
	"fmt"
	"strings"
	"time"
)

func init() {
	observers["C15.infer"] = obsC15Infer
	gens["C15"] = genC15
}

type c15File struct{ path, content string }

// c15DecodeTraining reads the training field: the files to write (first = the -t argument) and whether it is a tree
func c15DecodeTraining(field string) ([]c15File, bool, bool) {
	if !strings.HasPrefix(field, "tree:") {
		b, err := hex.DecodeString(field)
		return []c15File{{"training.knut", string(b)}}, false, err == nil
	}
	var fs []c15File
	for _, e := range strings.Split(field[len("tree:"):], ",") {
		kv := strings.SplitN(e, "=", 2)
		if len(kv) != 2 {
			return nil, true, false
		}
		p, e1 := hex.DecodeString(kv[0])
		c, e2 := hex.DecodeString(kv[1])
		if e1 != nil || e2 != nil || len(p) == 0 {
			return nil, true, false
		}
		fs = append(fs, c15File{string(p), string(c)})
	}
	return fs, true, len(fs) > 0
}

func c15EncodeTree(fs []c15File) string {
	var parts []string
	for _, f := range fs {
		parts = append(parts, hex.EncodeToString([]byte(f.path))+"="+hex.EncodeToString([]byte(f.content)))
	}
	return "tree:" + strings.Join(parts, ",")
}

func obsC15Infer(in string) string {
	f := strings.Split(in, " ")
	if len(f) != 4 {
		return "BADINPUT"
	}
	ph, e1 := hex.DecodeString(f[1])
	files, tree, ok := c15DecodeTraining(f[2])
	target, e3 := hex.DecodeString(f[3])
	if e1 != nil || !ok || e3 != nil {
		return "BADINPUT"
	}
	var out string
	withTempDir(func(dir string) {
		tr := ""
		for i, tf := range files {
			p := tf.path
			if tree {
				p = "tr/" + p
			}
			w := writeFile(dir, p, tf.content)
			if i == 0 {
				tr = w
			}
		}
		tg := writeFile(dir, "target.knut", string(target))
		args := []string{"infer", "-a", string(ph), "-t", tr, tg}
		env := func(i int) []string {
			if !tree || i == 0 {
				return nil
			}
			return []string{fmt.Sprintf("KNUT_VERIF_SCHED=%d", 7919*i+len(in)), fmt.Sprintf("GOMAXPROCS=%d", []int{1, 2, 16}[i%3])}
		}
		r := runKnut(knutBin(), dir, env(0), 20*time.Second, args...)
		switch c := r.class(); c {
		case "OK":
			det := "det"
			for i := 1; i < 10; i++ {
				r2 := runKnut(knutBin(), dir, env(i), 20*time.Second, args...)
				if r2.class() != "OK" || r2.Stdout != r.Stdout {
					det = "nondet"
					break
				}
			}
			parsed := "REPARSE-ERR"
			if f2, err := c08Parse(r.Stdout); err == nil {
				parsed = c08Tree(f2)
			}
			out = "OK " + hex.EncodeToString([]byte(r.Stdout)) + " ; " + parsed + " ; " + det
		case "ERR":
			out = "ERR " + hex.EncodeToString([]byte(r.Stdout))
		case "PANIC":
			out = renderRun(r)
		default:
			out = c
		}
	})
	return out
}

// ------------------------------------------------------------------ generator

var c15Accounts = []string{"Assets:Bank", "Assets:Cash", "Expenses:Food", "Expenses:Rent", "Income:Job", "Equity:E", "Aktiven:Überweisung", "X"}
var c15Words = []string{"migros", "coop", "rent", "salary", "Zürich", "café", "foo", "bar", "MIGROS", "2021"}
var c15Commodities = []string{"CHF", "USD", "AAPL"}

type c15gen struct {
	r    *rng
	ph   string
	pool []string
}

func (g *c15gen) sp() string {
	switch g.r.intn(6) {
	case 0:
		return "\t"
	case 1:
		return "   "
	default:
		return " "
	}
}

func (g *c15gen) date() string {
	return fmt.Sprintf("20%02d-%02d-%02d", g.r.rangeInt(19, 23), g.r.rangeInt(1, 12), g.r.rangeInt(1, 28))
}

func (g *c15gen) desc() string {
	n := g.r.rangeInt(0, 3)
	var w []string
	for i := 0; i < n; i++ {
		w = append(w, pick(g.r, c15Words))
	}
	return strings.Join(w, pick(g.r, []string{" ", " ", "  ", "\t"}))
}

func (g *c15gen) qty() string {
	return pick(g.r, []string{"1", "10", "50", "50", "-3.50", "1200.00", "0"})
}

func (g *c15gen) eol() string {
	if g.r.chance(10) {
		return " \t\n"
	}
	if g.r.chance(8) {
		return "\r\n"
	}
	return "\n"
}

// trx renders one transaction; sides gives for each booking (credit, debit)
func (g *c15gen) trx(sides [][2]string) string {
	var sb strings.Builder
	if g.r.chance(8) {
		sb.WriteString("@performance(" + pick(g.r, c15Commodities) + ")" + g.eol())
	}
	if g.r.chance(10) {
		// an accrued transaction (training and target alike): the annotation names one more account, which is neither
		// side of any booking (seeded change C15e-accrual-account-as-counter-account used it as the booking's "other
		// account", so that the real other account became a candidate again)
		sb.WriteString("@accrue " + pick(g.r, []string{"monthly", "weekly", "quarterly", "daily"}) + " 2020-01-01 2020-06-30 " + pick(g.r, g.pool) + g.eol())
	}
	sb.WriteString(g.date() + g.sp() + "\"" + g.desc() + "\"" + g.eol())
	for _, s := range sides {
		sb.WriteString(s[0] + g.sp() + s[1] + g.sp() + g.qty() + g.sp() + pick(g.r, c15Commodities) + g.eol())
	}
	return sb.String()
}

func (g *c15gen) filler() string {
	switch g.r.intn(5) {
	case 0:
		return "* heading" + g.eol()
	case 1:
		return "# " + g.desc() + g.eol()
	case 2:
		return g.date() + " open " + pick(g.r, g.pool) + g.eol()
	case 3:
		return g.date() + " price AAPL 1.5 USD" + g.eol()
	default:
		return ""
	}
}

// training: the training journal in one file (also used by c18.go)
func (g *c15gen) training() string { return strings.Join(g.trainingChunks(), "") }

// trainingChunks returns the training journal as a list of chunks (a chunk = optional filler + one transaction +
// blank line); the one-file training journal is their concatenation
func (g *c15gen) trainingChunks() []string {
	switch k := g.r.intn(100); {
	case k < 7:
		return nil
	case k < 14:
		return []string{"* nothing to learn from\n" + g.date() + " open " + pick(g.r, g.pool) + "\n"}
	case k < 17:
		return []string{"2020-01-01 \"broken\n"} // does not parse
	}
	var chunks []string
	n := g.r.rangeInt(1, 6)
	for i := 0; i < n; i++ {
		var sb strings.Builder
		sb.WriteString(g.filler())
		nb := 1
		if g.r.chance(25) {
			nb = 2
		}
		var sides [][2]string
		for j := 0; j < nb; j++ {
			c, d := pick(g.r, g.pool), pick(g.r, g.pool)
			switch g.r.intn(14) {
			case 0:
				c = g.ph
			case 1:
				d = g.ph
			case 2:
				c = "$macro"
			}
			sides = append(sides, [2]string{c, d})
		}
		sb.WriteString(g.trx(sides))
		sb.WriteString("\n")
		chunks = append(chunks, sb.String())
	}
	return chunks
}

// spread distributes the chunks over an include tree (genLayout of c05.go: 1-4 files in ".", "sub", "sub/deep",
// "other"; names that are tails of each other; include paths with detours through ".."), the include directive of a
// child at a random position among the chunks of its parent.  Variations: a file included a second time from another
// file (its transactions are then trained twice: the loader visits per include, C05_layout), an include of a file
// that does not exist, an include that closes a cycle (both: exit 1, nothing printed).
func (g *c15gen) spread(chunks []string) []c15File {
	r := g.r
	l := genLayout(r, len(chunks), 4)
	nf := len(l.parent)
	parts := make([][]string, nf)
	for i, c := range chunks {
		parts[l.fileOf[i]] = append(parts[l.fileOf[i]], c)
	}
	inc := func(from, to int) string {
		s := "include \"" + relPath(l.dir[from], l.dir[to], l.names[to], r) + "\"\n"
		if r.chance(60) {
			s += "\n"
		}
		return s
	}
	insert := func(f int, line string) {
		k := r.intn(len(parts[f]) + 1)
		parts[f] = append(parts[f][:k], append([]string{line}, parts[f][k:]...)...)
	}
	for f := 1; f < nf; f++ {
		insert(l.parent[f], inc(l.parent[f], f))
	}
	switch k := r.intn(100); {
	case k < 12 && nf >= 3:
		// a second include of file f from a file that is not below f (files below f have larger indices)
		f := r.rangeInt(2, nf-1)
		from := r.intn(f)
		insert(from, inc(from, f))
	case k < 18:
		insert(r.intn(nf), "include \"nosuch.knut\"\n\n")
	case k < 26 && nf >= 2:
		// a cycle: file f includes one of its ancestors
		f := r.rangeInt(1, nf-1)
		a := l.parent[f]
		for a != 0 && r.chance(50) {
			a = l.parent[a]
		}
		insert(f, inc(f, a))
	}
	var fs []c15File
	for f := 0; f < nf; f++ {
		fs = append(fs, c15File{l.dir[f] + "/" + l.names[f], strings.Join(parts[f], "")})
	}
	return fs
}

// tieDiamond: a training tree in which one file is reached over two include paths, and a target whose placeholder is
// decided by that: accounts a < b (bytewise) are trained with the same description, amount and counter-account, a
// once, b in the shared file.  The loader visits a file once per include (C05_layout), so b is trained twice and wins;
// if the shared file were trained once, the scores would be equal and a would win (seeded change C06c-load-once-set;
// a random tree almost never decides a choice this way).
func (g *c15gen) tieDiamond() ([]c15File, string) {
	r := g.r
	accs := append([]string(nil), c15Accounts...)
	r.shuffle(len(accs), func(i, j int) { accs[i], accs[j] = accs[j], accs[i] })
	a, b, c := accs[0], accs[1], accs[2]
	if a > b {
		a, b = b, a
	}
	desc, qty, com, date := pick(r, c15Words), pick(r, []string{"1", "10", "50", "1200.00"}), pick(r, c15Commodities), g.date()
	side := r.intn(2)
	trx := func(x string) string {
		if side == 0 {
			return fmt.Sprintf("%s \"%s\"\n%s %s %s %s\n\n", date, desc, x, c, qty, com)
		}
		return fmt.Sprintf("%s \"%s\"\n%s %s %s %s\n\n", date, desc, c, x, qty, com)
	}
	var fs []c15File
	switch r.intn(3) {
	case 0: // the root includes the shared file twice
		fs = []c15File{{"root.knut", "include \"sub/s.knut\"\n\n" + trx(a) + "include \"./sub/../sub/s.knut\"\n"}, {"sub/s.knut", trx(b)}}
	case 1: // over two intermediate files
		fs = []c15File{{"root.knut", "include \"x.knut\"\ninclude \"other/y.knut\"\n\n" + trx(a)},
			{"x.knut", "include \"sub/s.knut\"\n"}, {"other/y.knut", g.filler() + "include \"../sub/s.knut\"\n"}, {"sub/s.knut", trx(b)}}
	default: // directly and over an intermediate file
		fs = []c15File{{"root.knut", trx(a) + "include \"sub/x.knut\"\ninclude \"sub/s.knut\"\n"},
			{"sub/x.knut", "include \"s.knut\"\n"}, {"sub/s.knut", g.filler() + trx(b)}}
	}
	target := trx(g.ph)
	if r.chance(50) {
		target = g.filler() + target + trx(g.ph)
	}
	return fs, target
}

// tieCollide: two candidates a, b with the same training data, so that their scores are exactly equal, and a target
// whose description contains a word that is ALSO the booking's commodity, quantity or counter-account when written in
// lower case - two distinct pieces of evidence with one spelling, with different frequencies in the training data.
// The choice among tied candidates must not depend on the order in which such evidence is added up (seeded change
// C15g-evidence-tokens-tagged ordered the tagged evidence by its spelling alone, i.e. the two in map order, and the
// float sums of the tied candidates then differed in the last bit from run to run).
func (g *c15gen) tieCollide() (string, string) {
	r := g.r
	accs := append([]string(nil), c15Accounts...)
	r.shuffle(len(accs), func(i, j int) { accs[i], accs[j] = accs[j], accs[i] })
	a, b, c := accs[0], accs[1], accs[2]
	com, other := "CHF", "USD"
	if r.chance(40) {
		com, other = "USD", "CHF"
	}
	qty, qty2 := pick(r, []string{"50", "10", "1200.00"}), "7"
	word := pick(r, []string{strings.ToLower(com), qty, strings.ToLower(c)})
	extra := pick(r, c15Words)
	date := g.date()
	side := r.intn(2)
	trx := func(x, desc, q, cm string) string {
		if side == 0 {
			return fmt.Sprintf("%s \"%s\"\n%s %s %s %s\n\n", date, desc, x, c, q, cm)
		}
		return fmt.Sprintf("%s \"%s\"\n%s %s %s %s\n\n", date, desc, c, x, q, cm)
	}
	var chunks []string
	n := r.rangeInt(3, 5)
	for _, x := range []string{a, b} {
		for k := 0; k < n; k++ {
			desc, q, cm := extra, qty2, other
			if k == 0 {
				desc = word + " " + extra // the word: in 1 of n
			}
			if k < 2 {
				q, cm = qty, com // the commodity and the quantity: in 2 of n
			}
			chunks = append(chunks, trx(x, desc, q, cm))
		}
	}
	r.shuffle(len(chunks), func(i, j int) { chunks[i], chunks[j] = chunks[j], chunks[i] })
	target := trx(g.ph, word+" "+extra, qty, com)
	if r.chance(40) {
		target += trx(g.ph, extra+" "+word, qty, com)
	}
	return strings.Join(chunks, ""), target
}

func (g *c15gen) target() string {
	if g.r.chance(4) {
		return g.date() + " open\n" // does not parse
	}
	var sb strings.Builder
	n := g.r.rangeInt(1, 4)
	for i := 0; i < n; i++ {
		sb.WriteString(g.filler())
		nb := g.r.rangeInt(1, 3)
		var sides [][2]string
		for j := 0; j < nb; j++ {
			c, d := pick(g.r, g.pool), pick(g.r, g.pool)
			if g.r.chance(15) {
				c = pick(g.r, c15Accounts) // possibly unknown to the training file
			}
			switch k := g.r.intn(100); {
			case k < 30:
				c = g.ph
			case k < 70:
				d = g.ph
			case k < 80:
				c, d = g.ph, g.ph
			}
			sides = append(sides, [2]string{c, d})
		}
		sb.WriteString(g.trx(sides))
		if i < n-1 || g.r.chance(70) {
			sb.WriteString("\n")
		}
	}
	return sb.String()
}

func genC15(out *caseWriter, seed uint64, n int, args []string) error {
	variant := "fixed"
	if len(args) > 0 {
		variant = args[0]
	}
	for i := 0; i < n; i++ {
		r := newRng(seed, "C15", i)
		g := &c15gen{r: r, ph: "Expenses:TBD"}
		if r.chance(30) {
			g.ph = pick(r, []string{"Unknown:X", "TBD", "Ausgaben:Ünbekannt"})
		}
		k := r.rangeInt(1, 5)
		perm := append([]string(nil), c15Accounts...)
		for j := len(perm) - 1; j > 0; j-- {
			m := r.intn(j + 1)
			perm[j], perm[m] = perm[m], perm[j]
		}
		g.pool = perm[:k]
		chunks := g.trainingChunks()
		target := g.target()
		train := hex.EncodeToString([]byte(strings.Join(chunks, "")))
		if r.chance(6) {
			train = hex.EncodeToString([]byte(target)) // training file and target file may be the same
		} else if r.chance(8) {
			var fs []c15File
			fs, target = g.tieDiamond()
			train = c15EncodeTree(fs)
		} else if r.chance(7) {
			var tr string
			tr, target = g.tieCollide()
			train = hex.EncodeToString([]byte(tr))
		} else if r.chance(50) {
			train = c15EncodeTree(g.spread(chunks)) // the training journal over an include tree
		}
		in := fmt.Sprintf("%s %s %s %s", variant, hex.EncodeToString([]byte(g.ph)), train, hex.EncodeToString([]byte(target)))
		out.add(fmt.Sprintf("C15-%d-%d", seed, i), "C15.infer", in)
	}
	return nil
}
