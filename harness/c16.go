package main

// C16: `knut transcode -v V FILE` emits a balanced, self-consistent beancount ledger.
// Generator: accepted journals with prices for every commodity (so that positions held across
// a price change produce "Adjust value of ..." transactions), with the variations that matter
// for the emitted ledger: the user's journal itself opens (early, late, or opens and closes)
// the Income:... account that Valuate posts to; accounts below Equity:Valuation: (the prefix
// Transcode tests); an account that is closed and opened again; V itself held; V with digits
// or non-ASCII letters (stripNonAlphanum); V unknown to the journal; no -v at all; descriptions
// that contain newlines.

import (
	"fmt"
	"sort"
	"strings"
	"time"
)

func init() {
	observers["C16.transcode"] = obsTranscode
	gens["C16"] = genC16
}

// input: "val=<V or -> | <journal encoding>"
func obsTranscode(in string) string {
	cfgS, jS := splitInput(in)
	val := strings.TrimPrefix(strings.TrimSpace(cfgS), "val=")
	j := DecodeJournal(jS)
	var out string
	withTempDir(func(dir string) {
		f := writeFile(dir, "journal.knut", j.Text())
		args := []string{"transcode"}
		if val != "-" && val != "" {
			args = append(args, "-v", val)
		}
		args = append(args, f)
		out = renderRun(runKnut(knutBin(), dir, nil, 20*time.Second, args...))
	})
	return out
}

func valuationName(a string) string {
	i := strings.Index(a, ":")
	if i < 0 {
		return "Income"
	}
	return "Income" + a[i:]
}

func journalDates(j Journal) (lo, hi time.Time) {
	var ds []string
	for _, d := range j {
		ds = append(ds, d.Date)
	}
	sort.Strings(ds)
	lo, _ = time.Parse("2006-01-02", ds[0])
	hi, _ = time.Parse("2006-01-02", ds[len(ds)-1])
	return
}

func renameCommodity(j Journal, from, to string) {
	for i := range j {
		d := &j[i]
		if d.Com == from {
			d.Com = to
		}
		if d.Target == from {
			d.Target = to
		}
		for k := range d.Bals {
			if d.Bals[k].Com == from {
				d.Bals[k].Com = to
			}
		}
		for k := range d.Bookings {
			if d.Bookings[k].Com == from {
				d.Bookings[k].Com = to
			}
		}
		for k := range d.Targets {
			if d.Targets[k] == from {
				d.Targets[k] = to
			}
		}
	}
}

func journalCommodities(j Journal) []string {
	seen := map[string]bool{}
	var out []string
	add := func(c string) {
		if c != "" && !seen[c] {
			seen[c] = true
			out = append(out, c)
		}
	}
	for _, d := range j {
		add(d.Com)
		add(d.Target)
		for _, b := range d.Bookings {
			add(b.Com)
		}
	}
	return out
}

func genC16(out *caseWriter, seed uint64, n int, args []string) error {
	var items []caseIn
	for i := 0; i < n; i++ {
		r := newRng(seed, "C16", i)
		o := defaultOpts(r)
		if len(o.commodities) < 2 {
			o.commodities = allComs[:r.rangeInt(2, 4)]
		}
		if o.days > 120 {
			o.days = r.rangeInt(5, 120)
		}
		j := genJournal(r, o)
		lo, hi := journalDates(j)
		span := int(hi.Sub(lo).Hours()/24) + 1
		opened := map[string]bool{}
		var al []string
		for _, a := range journalAccounts(j) {
			opened[a] = true
			if isAL(a) {
				al = append(al, a)
			}
		}
		// the user's journal opens the valuation account of one of its A/L accounts: before
		// everything, somewhere in the middle (adjustments may come first), or opens and closes it
		if r.chance(25) && len(al) > 0 {
			va := valuationName(pick(r, al))
			if !opened[va] {
				switch r.intn(3) {
				case 0:
					j = append(j, Dir{Kind: 'O', Date: dateStr(lo.AddDate(0, 0, -1)), Acc: va})
				case 1:
					j = append(j, Dir{Kind: 'O', Date: dateStr(lo.AddDate(0, 0, r.intn(span))), Acc: va})
				default:
					od := r.intn(span)
					j = append(j, Dir{Kind: 'O', Date: dateStr(lo.AddDate(0, 0, od-1)), Acc: va})
					j = append(j, Dir{Kind: 'C', Date: dateStr(lo.AddDate(0, 0, od+r.intn(span-od+1))), Acc: va})
				}
			}
		}
		// commodity names with digits and multi-byte letters
		if r.chance(15) {
			renameCommodity(j, pick(r, journalCommodities(j)), pick(r, []string{"EÜR2", "X1", "äö", "B2B", "ЖБ"}))
		}
		cs := journalCommodities(j)
		// an account that is closed and opened again, then used
		if r.chance(4) {
			a := "Assets:Reopened"
			d1 := r.intn(span)
			d2 := d1 + r.intn(5)
			d3 := d2 + 1 + r.intn(5)
			d4 := d3 + r.intn(5)
			other := journalAccounts(j)[0]
			j = append(j, Dir{Kind: 'O', Date: dateStr(lo.AddDate(0, 0, d1)), Acc: a})
			j = append(j, Dir{Kind: 'C', Date: dateStr(lo.AddDate(0, 0, d2)), Acc: a})
			j = append(j, Dir{Kind: 'O', Date: dateStr(lo.AddDate(0, 0, d3)), Acc: a})
			j = append(j, Dir{Kind: 'T', Date: dateStr(lo.AddDate(0, 0, d4)), Desc: "again", Bookings: []Booking{{other, a, "12.5", pick(r, cs)}}})
		}
		// descriptions that span lines: knut's parser reads a description up to the next double
		// quote, newlines included, and writeTrx prints it as it is (a multi-line beancount string);
		// the continuation lines imitate a blank line, a posting, a directive, a transaction head.
		// (own random stream: the other choices of the case stay what they were)
		if rd := newRng(seed, "C16desc", i); rd.chance(12) {
			tails := []string{"\nmore", "\n", "\n\nafter a blank line", "\n  Assets:Cash 5 CHF", "\n2020-01-01 open Assets:Zzz",
				"\n2020-01-01 * x", "\n  ", " \n\n"}
			for k := range j {
				if j[k].Kind == 'T' && rd.chance(30) {
					if rd.chance(15) {
						j[k].Desc = "\n" + j[k].Desc
					} else {
						j[k].Desc += pick(rd, tails)
					}
				}
			}
		}
		r.shuffle(len(j), func(a, b int) { j[a], j[b] = j[b], j[a] })
		val := "CHF"
		switch {
		case r.chance(2):
			val = "-"
		case r.chance(3):
			val = "XYZ"
		case r.chance(45):
			val = pick(r, cs)
		}
		items = append(items, caseIn{fmt.Sprintf("C16-%d-%d", seed, i), "C16.transcode", "val=" + val + " | " + j.Enc()})
	}
	out.addBatch(items)
	return nil
}
