package main

import (
	"fmt"
	"time"
)

func init() {
	observers["C03.bal"] = obsBalance
	gens["C03"] = genC03
}

// genC03: accepted journals with price histories (sparse or dense, direct, inverse, chained),
// positions that pass through zero, liabilities; valued reports (cumulative columns), plus
// journals in which some needed price is missing (must fail).
func genC03(out *caseWriter, seed uint64, n int, args []string) error {
	var items []caseIn
	for i := 0; i < n; i++ {
		r := newRng(seed, "C03", i)
		o := defaultOpts(r)
		o.commodities = allComs[:r.rangeInt(2, 5)]
		o.prices = true
		o.accruals = r.chance(20)
		o.nTxn = r.rangeInt(3, 18)
		o.manyDec = r.chance(50)
		j := genJournal(r, o)
		if r.chance(12) {
			// drop the earliest price of one commodity: some booking may now lack a price
			for k, d := range j {
				if d.Kind == 'P' && r.chance(50) {
					j = append(j[:k:k], j[k+1:]...)
					break
				}
			}
		}
		cfg := genBalCfg(r, j, o, true, false)
		cfg.Diff = false
		cfg.Show = nil
		cfg.Close = r.chance(50)
		if r.chance(50) {
			cfg.From = dateStr(o.startDate.AddDate(0, 0, r.rangeInt(1, o.days/2+1)))
		}
		_ = time.Now
		items = append(items, caseIn{fmt.Sprintf("C03-%d-%d", seed, i), "C03.bal", cfg.Enc() + " | " + j.Enc()})
	}
	out.addBatch(items)
	return nil
}
