package main

import (
	"fmt"
	"strings"
	"time"
)

func init() {
	observers["C03.bal"] = obsBalance
	gens["C03"] = genC03
}

// genC03: accepted journals with price histories (sparse or dense, direct, inverse, chained),
// positions that pass through zero, liabilities; valued reports (cumulative columns), plus
// journals in which some needed price is missing (must fail).  A third of the cases (index
// 2 mod 3) aggregate rows: one or two -m level[,regex] rules and/or --remap regex over the
// journal's account names (C03_windowed_mapped); the draws come last, so the other cases are
// those of the generator without mappings.  Half of the cases with index 1 mod 3 restrict the report with --commodity,
// 30% of the cases with index 1 or 2 mod 3 with --account.
func genC03(out *caseWriter, seed uint64, n int, args []string) error {
	var items []caseIn
	for i := 0; i < n; i++ {
		r := newRng(seed, "C03", i)
		o := defaultOpts(r)
		o.commodities = allComs[:r.rangeInt(2, 5)]
		o.prices = true
		o.accruals = r.chance(20)
		o.nTxn = r.rangeInt(3, 18)
		o.manyDec = r.chance(50)
		j := genJournal(r, o)
		if r.chance(12) {
			// drop the earliest price of one commodity: some booking may now lack a price
			for k, d := range j {
				if d.Kind == 'P' && r.chance(50) {
					j = append(j[:k:k], j[k+1:]...)
					break
				}
			}
		}
		unpriced := false
		if len(o.commodities) < len(allComs) && r.chance(10) {
			// a commodity without any price, booked in a transaction of several bookings in which it is NOT the last
			// one, between income / expense accounts or on the journal's last day (no later revaluation asks for the
			// price again): the report must fail (seeded change C03f-missing-price-error-overwritten kept only the
			// error of a transaction's last valued booking)
			x := allComs[len(o.commodities)]
			var ie, al []string
			for _, a := range journalAccounts(j) {
				if isAL(a) {
					al = append(al, a)
				} else if !strings.HasPrefix(a, "Equity") {
					ie = append(ie, a)
				}
			}
			last := ""
			for _, d := range j {
				if d.Date > last {
					last = d.Date
				}
			}
			t := Dir{Kind: 'T', Date: last, Desc: pick(r, []string{"Odd lot", "Zz barter", "A gift"})}
			if len(ie) >= 2 && r.chance(60) {
				t.Date = dateStr(o.startDate.AddDate(0, 0, r.intn(o.days)))
				t.Bookings = append(t.Bookings, Booking{ie[0], ie[1], randAmount(r, false), x})
			} else if len(al) >= 2 {
				t.Bookings = append(t.Bookings, Booking{al[0], al[1], randAmount(r, false), x})
			}
			if len(t.Bookings) > 0 && len(al) >= 1 && len(ie) >= 1 {
				for k, nb := 0, 1+r.intn(2); k < nb; k++ {
					t.Bookings = append(t.Bookings, Booking{pick(r, ie), pick(r, al), randAmount(r, false), pick(r, o.commodities)})
				}
				j = append(j, t)
				unpriced = true
			}
		}
		_ = unpriced
		cfg := genBalCfg(r, j, o, true, false)
		cfg.Diff = false
		cfg.Show = nil
		cfg.Close = r.chance(50)
		if r.chance(50) {
			cfg.From = dateStr(o.startDate.AddDate(0, 0, r.rangeInt(1, o.days/2+1)))
		}
		if i%3 == 2 {
			accs := journalAccounts(j)
			if len(accs) > 0 {
				if r.chance(75) {
					for k, n := 0, 1+r.intn(2); k < n; k++ {
						lv := pick(r, []int{1, 1, 2, 2, 3, 0})
						m := fmt.Sprintf("%d", lv)
						if lv > 0 && r.chance(20) {
							m += ":1" // keep the last segment
						}
						if lv == 0 || r.chance(60) { // level 0 hides: only behind a regex
							m += "," + rxFor(r, accs)
						}
						cfg.Map = append(cfg.Map, m)
					}
				}
				if len(cfg.Map) == 0 || r.chance(35) {
					cfg.Remap = []string{rxFor(r, accs)}
				}
			}
		}
		if i%3 == 1 && r.chance(50) {
			// the report restricted to one or two commodities (--commodity together with -v): the prices of the other
			// commodities are still needed - a reported commodity may be priced through them (seeded change
			// C12e-prices-pruned-by-commodity-filter left price declarations out that mention no reported commodity)
			cfg.Com = []string{pick(r, o.commodities)}
			if r.chance(30) {
				cfg.Com = append(cfg.Com, pick(r, o.commodities))
			}
		}
		if i%3 != 0 && r.chance(30) {
			// the report restricted to some accounts (--account together with -v, alone or with --commodity, -m, --remap):
			// the filter decides what the report's query adds up, not what is valued (C03_model_meets_spec_where_mapped;
			// a row on which no account that passes lands is empty, C03_filtered_out_row_zero).  Drawn last: the cases
			// without it are those of the generator before.
			if accs := journalAccounts(j); len(accs) > 0 {
				cfg.Acc = []string{rxFor(r, accs)}
			}
		}
		_ = time.Now
		items = append(items, caseIn{fmt.Sprintf("C03-%d-%d", seed, i), "C03.bal", cfg.Enc() + " | " + j.Enc()})
	}
	out.addBatch(items)
	return nil
}
