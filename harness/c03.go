package main

import (
	"fmt"
	"time"
)

func init() {
	observers["C03.bal"] = obsBalance
	gens["C03"] = genC03
}

// genC03: accepted journals with price histories (sparse or dense, direct, inverse, chained),
// positions that pass through zero, liabilities; valued reports (cumulative columns), plus
// journals in which some needed price is missing (must fail).  A third of the cases (index
// 2 mod 3) aggregate rows: one or two -m level[,regex] rules and/or --remap regex over the
// journal's account names (C03_windowed_mapped); the draws come last, so the other cases are
// those of the generator without mappings.  Half of the cases with index 1 mod 3 restrict the report with --commodity,
// 30% of the cases with index 1 or 2 mod 3 with --account.
func genC03(out *caseWriter, seed uint64, n int, args []string) error {
	var items []caseIn
	for i := 0; i < n; i++ {
		r := newRng(seed, "C03", i)
		o := defaultOpts(r)
		o.commodities = allComs[:r.rangeInt(2, 5)]
		o.prices = true
		o.accruals = r.chance(20)
		o.nTxn = r.rangeInt(3, 18)
		o.manyDec = r.chance(50)
		j := genJournal(r, o)
		if r.chance(12) {
			// drop the earliest price of one commodity: some booking may now lack a price
			for k, d := range j {
				if d.Kind == 'P' && r.chance(50) {
					j = append(j[:k:k], j[k+1:]...)
					break
				}
			}
		}
		cfg := genBalCfg(r, j, o, true, false)
		cfg.Diff = false
		cfg.Show = nil
		cfg.Close = r.chance(50)
		if r.chance(50) {
			cfg.From = dateStr(o.startDate.AddDate(0, 0, r.rangeInt(1, o.days/2+1)))
		}
		if i%3 == 2 {
			accs := journalAccounts(j)
			if len(accs) > 0 {
				if r.chance(75) {
					for k, n := 0, 1+r.intn(2); k < n; k++ {
						lv := pick(r, []int{1, 1, 2, 2, 3, 0})
						m := fmt.Sprintf("%d", lv)
						if lv > 0 && r.chance(20) {
							m += ":1" // keep the last segment
						}
						if lv == 0 || r.chance(60) { // level 0 hides: only behind a regex
							m += "," + rxFor(r, accs)
						}
						cfg.Map = append(cfg.Map, m)
					}
				}
				if len(cfg.Map) == 0 || r.chance(35) {
					cfg.Remap = []string{rxFor(r, accs)}
				}
			}
		}
		if i%3 == 1 && r.chance(50) {
			// the report restricted to one or two commodities (--commodity together with -v): the prices of the other
			// commodities are still needed - a reported commodity may be priced through them (seeded change
			// C12e-prices-pruned-by-commodity-filter left price declarations out that mention no reported commodity)
			cfg.Com = []string{pick(r, o.commodities)}
			if r.chance(30) {
				cfg.Com = append(cfg.Com, pick(r, o.commodities))
			}
		}
		if i%3 != 0 && r.chance(30) {
			// the report restricted to some accounts (--account together with -v, alone or with --commodity, -m, --remap):
			// the filter decides what the report's query adds up, not what is valued (C03_model_meets_spec_where_mapped;
			// a row on which no account that passes lands is empty, C03_filtered_out_row_zero).  Drawn last: the cases
			// without it are those of the generator before.
			if accs := journalAccounts(j); len(accs) > 0 {
				cfg.Acc = []string{rxFor(r, accs)}
			}
		}
		_ = time.Now
		items = append(items, caseIn{fmt.Sprintf("C03-%d-%d", seed, i), "C03.bal", cfg.Enc() + " | " + j.Enc()})
	}
	out.addBatch(items)
	return nil
}
