package main

// C08: format preserves meaning and comments and is idempotent.
//   op C08.format  in-process: syntax.FormatFile on the parsed file, re-parse, format again
//   op C08.cmd     through the binary: `knut format FILE`, file bytes afterwards

import (
	"bytes"
	"encoding/hex"
	"fmt"
	"os"
	"strings"
	"time"

	"github.com/sboehler/knut/lib/syntax"
	"github.com/sboehler/knut/lib/syntax/directives"
	"github.com/sboehler/knut/lib/syntax/parser"
)

func init() {
	observers["C08.format"] = obsC08Format
	observers["C08.cmd"] = obsC08Cmd
	gens["C08"] = genC08
	gens["C08cmd"] = genC08Cmd
	observers["C08.multi"] = obsC08Multi
	gens["C08multi"] = genC08Multi
}

func c08Parse(text string) (directives.File, error) {
	p := parser.New(text, "f.knut")
	if err := p.Advance(); err != nil {
		return directives.File{}, err
	}
	return p.ParseFile()
}

func c08Tree(f directives.File) string {
	var sb strings.Builder
	c07File(&sb, f)
	return sb.String()
}

// input: hex text.  observed:
//
//	UNPARSEABLE
//	OK <hex of formatted> ; <tree of the input> ; <tree of the formatted text | REPARSE-ERR> ; <same | hex of format(formatted)>
//	FORMAT-ERR <msg> | PANIC:<msg>
func obsC08Format(in string) (res string) {
	defer func() {
		if r := recover(); r != nil {
			msg := strings.NewReplacer("\t", " ", "\n", " ", "\r", " ").Replace(fmt.Sprint(r))
			res = "PANIC:" + msg
		}
	}()
	raw, err := hex.DecodeString(in)
	if err != nil {
		return "BADINPUT"
	}
	text := string(raw)
	f, err := c08Parse(text)
	if err != nil {
		return "UNPARSEABLE"
	}
	var out1 bytes.Buffer
	if err := syntax.FormatFile(&out1, f); err != nil {
		return "FORMAT-ERR " + esc(err.Error())
	}
	t2 := "REPARSE-ERR"
	again := "-"
	f2, err := c08Parse(out1.String())
	if err == nil {
		t2 = c08Tree(f2)
		var out2 bytes.Buffer
		if err := syntax.FormatFile(&out2, f2); err != nil {
			again = "FORMAT-ERR"
		} else if bytes.Equal(out1.Bytes(), out2.Bytes()) {
			again = "same"
		} else {
			again = hex.EncodeToString(out2.Bytes())
		}
	}
	return "OK " + hex.EncodeToString(out1.Bytes()) + " ; " + c08Tree(f) + " ; " + t2 + " ; " + again
}

// input: hex text.  observed: "<exit class> <hex of the file afterwards> files=<entries in the directory>"
func obsC08Cmd(in string) string {
	raw, err := hex.DecodeString(in)
	if err != nil {
		return "BADINPUT"
	}
	var out string
	withTempDir(func(dir string) {
		f := writeFile(dir, "j.knut", string(raw))
		r := runKnut(knutBin(), dir, nil, 20*time.Second, "format", f)
		after, err := os.ReadFile(f)
		if err != nil {
			out = r.class() + " MISSING"
			return
		}
		es, _ := os.ReadDir(dir)
		out = fmt.Sprintf("%s %s files=%d", r.class(), hex.EncodeToString(after), len(es))
	})
	return out
}

// c08Text: mostly parseable journals in random layouts (the C07 layout generator), some
// mutated / unparseable texts
func c08Text(r *rng) []byte {
	var b []byte
	switch k := r.intn(100); {
	case k < 8:
		b = c08Ledger(r)
	case k < 78:
		b = newC07g(r).journal(1)
	case k < 90:
		g := newC07g(r)
		g.sloppy = false
		b = c07Mutate(r, g.journal(1))
	case k < 95:
		b = c07TrickyCase(r, 1)
	default:
		b = c07BadJournal(r, 1)
	}
	if len(b) > 20000 {
		b = b[:20000]
	}
	return b
}

// c08Ledger: the shape of a hand-kept account statement - two or three accounts used over and over, the same
// credit/debit pair on consecutive bookings, balance blocks (one line or several) between them, little variation in
// layout.  The layout generator draws every account afresh, so consecutive bookings with the same pair around a
// balance block did not occur (seeded change C08f-posting-column-cache-stale-after-balance reused the rendered
// account columns of the previous posting and printed balance-line bytes in their place).
func c08Ledger(r *rng) []byte {
	accs := []string{"Assets:Bank", "Expenses:Food", "Assets:Cash", "Income:Salary"}[:r.rangeInt(2, 4)]
	coms := []string{"CHF", "USD"}[:r.rangeInt(1, 2)]
	var b strings.Builder
	day := 1
	date := func() string { day += r.intn(2); return fmt.Sprintf("2021-%02d-%02d", 1+day/28%12, 1+day%28) }
	sp := func() string { return pick(r, []string{" ", " ", "  ", "\t", "    "}) }
	posting := func(c, d string) {
		fmt.Fprintf(&b, "%s%s%s%s%d%s%s\n", c, sp(), d, sp(), r.rangeInt(1, 5000), sp(), pick(r, coms))
	}
	c, d := accs[0], accs[1]
	for i, n := 0, r.rangeInt(3, 14); i < n; i++ {
		switch k := r.intn(100); {
		case k < 45:
			if r.chance(25) {
				c, d = pick(r, accs), pick(r, accs)
			}
			fmt.Fprintf(&b, "%s \"%s\"\n", date(), pick(r, []string{"Migros", "Coop", "Lohn", "ATM", ""}))
			for q, nq := 0, pick(r, []int{1, 1, 1, 2, 3}); q < nq; q++ {
				posting(c, d)
			}
			b.WriteString("\n")
		case k < 70:
			fmt.Fprintf(&b, "%s balance\n", date())
			for q, nq := 0, r.rangeInt(1, 4); q < nq; q++ {
				fmt.Fprintf(&b, "%s%s%d%s%s\n", pick(r, accs), sp(), r.rangeInt(-900, 90000), sp(), pick(r, coms))
			}
			b.WriteString("\n")
		case k < 80:
			fmt.Fprintf(&b, "%s balance %s %d %s\n", date(), pick(r, accs), r.rangeInt(0, 9000), pick(r, coms))
		case k < 88:
			fmt.Fprintf(&b, "%s open %s\n", date(), pick(r, accs))
		case k < 94:
			fmt.Fprintf(&b, "%s price USD 0.9%d CHF\n", date(), r.intn(10))
		default:
			fmt.Fprintf(&b, "%s statement %d\n", pick(r, []string{"#", "//", "*"}), i)
		}
	}
	return []byte(b.String())
}

func genC08(out *caseWriter, seed uint64, n int, _ []string) error {
	for i := 0; i < n; i++ {
		r := newRng(seed, "C08", i)
		out.add(fmt.Sprintf("C08-%d-%d", seed, i), "C08.format", hex.EncodeToString(c08Text(r)))
	}
	return nil
}

func genC08Cmd(out *caseWriter, seed uint64, n int, _ []string) error {
	for i := 0; i < n; i++ {
		r := newRng(seed, "C08cmd", i)
		out.add(fmt.Sprintf("C08c-%d-%d", seed, i), "C08.cmd", hex.EncodeToString(c08Text(r)))
	}
	return nil
}

// op C08.multi: `knut format f0 f1 ... fn` in ONE invocation, run twice in a row on the same directory (what
// `knut format *.knut` does every time it is used): after the first run every parseable file must hold its formatted
// text, after the second run it must hold the same bytes (idempotence at the level of the command; seeded change
// C08d-pooled-buffer-early-return let an already formatted file leave its text in a reused buffer, so the NEXT file
// was rewritten with foreign directives - only in the second run, only with fewer workers than files).
// input "<gomaxprocs> | <hex>,<hex>,..."   observed "<class1>/<class2> | <hex after run 1>,... | <hex after run 2>,..."
func obsC08Multi(in string) string {
	p := strings.SplitN(in, " | ", 2)
	var out string
	withTempDir(func(dir string) {
		var paths []string
		for i, h := range strings.Split(p[1], ",") {
			raw, _ := hex.DecodeString(h)
			paths = append(paths, writeFile(dir, fmt.Sprintf("j%02d.knut", i), string(raw)))
		}
		env := []string{"GOMAXPROCS=" + p[0]}
		read := func() string {
			var hs []string
			for _, f := range paths {
				b, err := os.ReadFile(f)
				if err != nil {
					hs = append(hs, "MISSING")
				} else {
					hs = append(hs, hex.EncodeToString(b))
				}
			}
			return strings.Join(hs, ",")
		}
		r1 := runKnut(knutBin(), dir, env, 30*time.Second, append([]string{"format"}, paths...)...)
		a1 := read()
		r2 := runKnut(knutBin(), dir, env, 30*time.Second, append([]string{"format"}, paths...)...)
		out = fmt.Sprintf("%s/%s | %s | %s", r1.class(), r2.class(), a1, read())
	})
	return out
}

func genC08Multi(out *caseWriter, seed uint64, n int, _ []string) error {
	for i := 0; i < n; i++ {
		r := newRng(seed, "C08multi", i)
		k := r.rangeInt(2, 7)
		var hs []string
		for q := 0; q < k; q++ {
			b := c08Text(r)
			if len(b) > 4000 {
				b = b[:4000]
			}
			if r.chance(40) {
				// a file that is formatted already (the previous `knut format` left it so)
				if f, err := c08Parse(string(b)); err == nil {
					var fb bytes.Buffer
					if syntax.FormatFile(&fb, f) == nil {
						b = fb.Bytes()
					}
				}
			}
			hs = append(hs, hex.EncodeToString(b))
		}
		out.add(fmt.Sprintf("C08m-%d-%d", seed, i), "C08.multi", fmt.Sprintf("%d | %s", pick(r, []int{1, 1, 2, 16}), strings.Join(hs, ",")))
	}
	return nil
}
