package main

// C13 (group B): the importers revolut2, revolut, com.wise, ch.swissquote, us.interactivebrokers.
//
// op C13.<importer>; input = "<flags> | <hex of the statement file> | <items>"
//   flags: imp=<name> kind=wf|mal:<what> note=<tag|-> acct=<x+hex|-> fee= trading= div= tax= int= (account flags,
//          "-" where the command has none) nl=0|1 (free text with newlines) q=0|1 (free text may
//          contain double quotes) facts=<facts|-> asserts=<assertions|->
//   items: the records encoding/csv delivers with exactly the importer's reader configuration
//          (c13bReadItems; encoding as in c13a.go)
//   facts: the generator's own account of the transactions the statement's rows stand for, written
//          down from the structured rows BEFORE rendering them in the bank's format:
//          "yyyy-mm-dd:<cur>=<signed change of the import account>[+<cur>=<...>]" per expected
//          transaction (several terms: a currency exchange or security trade moves two commodities)
//   asserts: the balance assertions the statement carries, "yyyy-mm-dd:<cur>=<balance>"
// observed = "OK <stdout>" | "ERR" | "ERR+OUT <stdout>" | "PANIC ..." followed by
//   " | print=ok|fail:<why>|na | rows=ok|fail:<why>|na" (as in c13a.go):
//   print: the binary's stdout with `open` directives for all accounts prepended goes through
//          `knut print`: exit 0 and byte-identical output.
//   rows:  the printed journal is read with regular expressions (performance annotation, header,
//          posting, balance); the multiset of (date, change of the import account per commodity)
//          over the transactions must equal the facts, the multiset of balance lines the asserts,
//          and there must be nothing else.

import (
	"bufio"
	"bytes"
	"encoding/csv"
	"encoding/hex"
	"fmt"
	"io"
	"math/big"
	"regexp"
	"sort"
	"strings"
	"time"
)

var c13bImporters = []string{"revolut2", "revolut", "wise", "swissquote", "interactivebrokers"}

var c13bUse = map[string]string{"revolut2": "revolut2", "revolut": "revolut", "wise": "com.wise",
	"swissquote": "ch.swissquote", "interactivebrokers": "us.interactivebrokers"}

// the account flags of each command, in the order the importer resolves them
var c13bFlagNames = []string{"acct", "fee", "trading", "div", "tax", "int"}
var c13bFlagOpt = map[string]string{"acct": "--account", "fee": "--fee", "trading": "--trading", "div": "--dividend",
	"tax": "--tax", "int": "--interest"}

func init() {
	observers["C13.revolut2files"] = c13bObserveFiles
	gens["C13bfiles"] = genC13bFiles
	for _, imp := range []string{"revolut2", "revolut", "wise", "swissquote", "interactivebrokers"} {
		imp := imp
		observers["C13."+imp] = func(in string) string { return c13bObserve(imp, in) }
	}
	gens["C13b"] = genC13b
}

// ---------------------------------------------------------------- reader items

// c13bReadItems reads the statement with the reader configuration of the importer.
func c13bReadItems(imp string, data []byte) []c13aItem {
	var items []c13aItem
	src := bufio.NewReader(bytes.NewReader(data)) // flags.OpenFile
	rd := csv.NewReader(src)
	switch imp {
	case "revolut2":
		// revolut2.go:84 csv.NewReader(f); :112-114 TrimLeadingSpace, Comma ',', FieldsPerRecord = 10
		rd.TrimLeadingSpace = true
		rd.Comma = ','
		rd.FieldsPerRecord = 10
	case "revolut":
		// revolut.go:79 csv.NewReader(f); :104-106 TrimLeadingSpace, Comma ';', FieldsPerRecord = 0
		rd.TrimLeadingSpace = true
		rd.Comma = ';'
		rd.FieldsPerRecord = 0
	case "wise":
		// wise.go:96 csv.NewReader(f); :128-130 TrimLeadingSpace, Comma ',', FieldsPerRecord = 18
		rd.TrimLeadingSpace = true
		rd.Comma = ','
		rd.FieldsPerRecord = 18
	case "swissquote":
		// swissquote.go:88 csv.NewReader(f); :126-128 LazyQuotes, Comma ';', FieldsPerRecord = 13
		rd.LazyQuotes = true
		rd.Comma = ';'
		rd.FieldsPerRecord = 13
	case "interactivebrokers":
		// interactivebrokers.go:90 csv.NewReader(f); :131-133 FieldsPerRecord = -1, LazyQuotes
		rd.FieldsPerRecord = -1
		rd.LazyQuotes = true
	}
	for {
		rec, err := rd.Read()
		if err == io.EOF {
			return items
		}
		if err != nil {
			return append(items, c13aItem{err: true})
		}
		items = append(items, c13aItem{rec: rec})
	}
}

// ---------------------------------------------------------------- input line

type c13bTerm struct{ cur, amount string }

type c13bFact struct {
	date  string
	terms []c13bTerm
}

type c13bCase struct {
	imp, kind  string
	note       string            // a tag naming a special kind of row the statement contains ("-" if none)
	flags      map[string]string // present account flags
	nl, quotes bool
	facts      []c13bFact
	asserts    []c13bFact
	opening    []c13bTerm // what the import account holds before the statement starts (non-negative)
	file       []byte
}

func c13bEncFacts(fs []c13bFact) string {
	if len(fs) == 0 {
		return "-"
	}
	p := make([]string, len(fs))
	for i, f := range fs {
		ts := make([]string, len(f.terms))
		for k, t := range f.terms {
			ts[k] = t.cur + "=" + t.amount
		}
		p[i] = f.date + ":" + strings.Join(ts, "+")
	}
	return strings.Join(p, ",")
}

func c13bDecFacts(v string) []c13bFact {
	if v == "-" || v == "" {
		return nil
	}
	var out []c13bFact
	for _, f := range strings.Split(v, ",") {
		i := strings.Index(f, ":")
		if i < 0 {
			continue
		}
		fact := c13bFact{date: f[:i]}
		if f[i+1:] != "" {
			for _, t := range strings.Split(f[i+1:], "+") {
				j := strings.Index(t, "=")
				if j >= 0 {
					fact.terms = append(fact.terms, c13bTerm{t[:j], t[j+1:]})
				}
			}
		}
		out = append(out, fact)
	}
	return out
}

func (c c13bCase) enc() string {
	var b strings.Builder
	note := c.note
	if note == "" {
		note = "-"
	}
	fmt.Fprintf(&b, "imp=%s kind=%s note=%s", c.imp, c.kind, note)
	for _, k := range c13bFlagNames {
		v, ok := c.flags[k]
		fmt.Fprintf(&b, " %s=%s", k, c13aHexOrDash(v, ok))
	}
	op := "-"
	if len(c.opening) > 0 {
		op = c13bEncFacts([]c13bFact{{"o", c.opening}})
	}
	fmt.Fprintf(&b, " nl=%s q=%s facts=%s asserts=%s opening=%s", b2s(c.nl), b2s(c.quotes), c13bEncFacts(c.facts), c13bEncFacts(c.asserts), op)
	hx := hex.EncodeToString(c.file)
	if hx == "" {
		hx = "-"
	}
	return b.String() + " | " + hx + " | " + c13aEncItems(c13bReadItems(c.imp, c.file))
}

func c13bDecode(in string) c13bCase {
	parts := strings.SplitN(in, " | ", 3)
	c := c13bCase{flags: map[string]string{}}
	for _, kv := range strings.Fields(parts[0]) {
		i := strings.Index(kv, "=")
		if i < 0 {
			continue
		}
		k, v := kv[:i], kv[i+1:]
		switch k {
		case "imp":
			c.imp = v
		case "kind":
			c.kind = v
		case "nl":
			c.nl = v == "1"
		case "q":
			c.quotes = v == "1"
		case "facts":
			c.facts = c13bDecFacts(v)
		case "asserts":
			c.asserts = c13bDecFacts(v)
		case "opening":
			if fs := c13bDecFacts(v); len(fs) == 1 {
				c.opening = fs[0].terms
			}
		default:
			if _, ok := c13bFlagOpt[k]; ok {
				if s, present := c13aUnhexOrDash(v); present {
					c.flags[k] = s
				}
			}
		}
	}
	if len(parts) > 1 && parts[1] != "-" {
		c.file, _ = hex.DecodeString(parts[1])
	}
	return c
}

// ---------------------------------------------------------------- observer

func c13bObserve(imp string, in string) string {
	c := c13bDecode(in)
	var out string
	withTempDir(func(dir string) {
		f := writeFileBytes(dir, "statement.csv", c.file)
		args := []string{"import", c13bUse[imp]}
		for _, k := range c13bFlagNames {
			if v, ok := c.flags[k]; ok {
				args = append(args, c13bFlagOpt[k], v)
			}
		}
		args = append(args, f)
		r := runKnut(knutBin(), dir, nil, 20*time.Second, args...)
		out = renderRun(r)
		pr, rows := "na", "na"
		if r.class() == "OK" {
			pr = c13bPrintCheck(dir, c, r.Stdout)
			if strings.HasPrefix(c.kind, "wf") {
				rows = c13bRowsCheck(c, r.Stdout)
			}
		}
		out += " | print=" + pr + " | rows=" + rows
	})
	return out
}

// the accounts a run of the importer can book on: the flag accounts, Expenses:TBD and (revolut)
// the valuation account of the import account
func c13bAccounts(c c13bCase) []string {
	var out []string
	seen := map[string]bool{}
	add := func(a string) {
		if a != "" && !seen[a] {
			seen[a] = true
			out = append(out, a)
		}
	}
	for _, k := range c13bFlagNames {
		add(c.flags[k])
	}
	add("Expenses:TBD")
	if c.imp == "revolut" {
		if a := c.flags["acct"]; strings.Contains(a, ":") {
			add("Income" + a[strings.Index(a, ":"):])
		}
	}
	return out
}

// the width the printer pads account names to: the longest account name in any posting
func c13bPadding(c c13bCase, stdout string, extra string) int {
	known := map[string]bool{}
	for _, a := range c13bAccounts(c) {
		known[a] = true
	}
	pad := len([]rune(extra))
	for _, l := range strings.Split(stdout, "\n") {
		if m := c13aRePosting.FindStringSubmatch(l); m != nil && known[m[1]] && known[m[2]] {
			for _, a := range m[1:3] {
				if n := len([]rune(a)); n > pad {
					pad = n
				}
			}
		}
	}
	return pad
}

const c13bOpeningAccount = "Equity:O"

// (a) the output, with the accounts opened and the holdings before the statement booked, is
// accepted by `knut print` (which also checks the balance assertions) and re-printed unchanged
func c13bPrintCheck(dir string, c c13bCase, stdout string) string {
	header := ""
	if strings.TrimSpace(stdout) != "" {
		for _, a := range c13bAccounts(c) {
			header += "0001-01-01 open " + a + "\n"
		}
		if len(c.opening) > 0 {
			header += "0001-01-01 open " + c13bOpeningAccount + "\n"
		}
		header += "\n"
		if len(c.opening) > 0 {
			acct := c.flags["acct"]
			pad := c13bPadding(c, stdout, acct)
			if n := len(c13bOpeningAccount); n > pad {
				pad = n
			}
			header += "1900-01-01 \"holdings before the statement\"\n"
			for _, t := range c.opening {
				header += fmt.Sprintf("%-*s %-*s %10s %s\n", pad, c13bOpeningAccount, pad, acct, t.amount, t.cur)
			}
			header += "\n"
		}
	}
	text := header + stdout
	f := writeFile(dir, "imported.knut", text)
	r := runKnut(knutBin(), dir, nil, 20*time.Second, "print", f)
	if r.class() != "OK" {
		msg := strings.TrimSpace(r.Stderr)
		if i := strings.Index(msg, "\n"); i >= 0 {
			msg = msg[:i]
		}
		msg = strings.ReplaceAll(msg, f, "FILE")
		if len(msg) > 100 {
			msg = msg[:100]
		}
		return "fail:rejected(" + r.class() + ") " + esc(strings.ReplaceAll(msg, " | ", " / "))
	}
	if r.Stdout != text {
		return "fail:reprinted-differently"
	}
	return "ok"
}

var (
	c13bRePerf    = regexp.MustCompile(`^@performance\(([^()]*)\)$`)
	c13bReBalance = regexp.MustCompile(`^(\d{4}-\d{2}-\d{2}) balance (\S+) (-?\d+(?:\.\d+)?) (\S+)$`)
)

// canonical text of a fact: date and the non-zero net change per commodity, sorted
func c13bFactKey(date string, terms []c13bTerm) string {
	sum := map[string]*big.Rat{}
	for _, t := range terms {
		q := c13aRat(t.amount)
		if q == nil {
			return date + " unreadable amount " + t.amount
		}
		if s, ok := sum[t.cur]; ok {
			s.Add(s, q)
		} else {
			sum[t.cur] = q
		}
	}
	var parts []string
	for cur, s := range sum {
		if s.Sign() != 0 {
			parts = append(parts, cur+"="+s.RatString())
		}
	}
	sort.Strings(parts)
	return date + " " + strings.Join(parts, " ")
}

func c13bCompare(what string, got, want []string) string {
	if len(got) != len(want) {
		return fmt.Sprintf("fail:count %d %s for %d expected", len(got), what, len(want))
	}
	sort.Strings(got)
	sort.Strings(want)
	for i := range got {
		if got[i] != want[i] {
			return "fail:" + what + " [" + got[i] + "] where the statement has [" + want[i] + "]"
		}
	}
	return "ok"
}

// (b) transactions and assertions of the printed journal against the facts
func c13bRowsCheck(c c13bCase, stdout string) string {
	acct := c.flags["acct"]
	known := map[string]bool{}
	for _, a := range c13bAccounts(c) {
		known[a] = true
	}
	var txns, asserts []string
	var cur *c13bFact // the transaction being read
	flush := func() {
		if cur != nil {
			txns = append(txns, c13bFactKey(cur.date, cur.terms))
			cur = nil
		}
	}
	postings := 0
	pendingPerf := false
	lines := strings.Split(stdout, "\n")
	for i, l := range lines {
		if m := c13aRePosting.FindStringSubmatch(l); m != nil && known[m[1]] && known[m[2]] {
			if cur == nil {
				return fmt.Sprintf("fail:line %d posting without a transaction header", i+1)
			}
			if m[1] == m[2] {
				return fmt.Sprintf("fail:line %d books an account against itself", i+1)
			}
			postings++
			if m[1] == acct {
				cur.terms = append(cur.terms, c13bTerm{m[4], "-" + m[3]})
			} else if m[2] == acct {
				cur.terms = append(cur.terms, c13bTerm{m[4], m[3]})
			}
			continue
		}
		if m := c13bReBalance.FindStringSubmatch(l); m != nil && cur == nil {
			if m[2] != acct {
				return fmt.Sprintf("fail:line %d asserts another account", i+1)
			}
			asserts = append(asserts, c13bFactKey(m[1], []c13bTerm{{m[4], m[3]}})+" "+m[4])
			continue
		}
		if c13bRePerf.MatchString(l) && cur == nil {
			if pendingPerf {
				return fmt.Sprintf("fail:line %d second performance annotation", i+1)
			}
			pendingPerf = true
			continue
		}
		if m := c13aReHeader.FindStringSubmatch(l); m != nil && cur == nil {
			if !c.nl && !c13aReHeader1.MatchString(l) {
				return fmt.Sprintf("fail:line %d malformed header", i+1)
			}
			cur = &c13bFact{date: m[1]}
			postings = 0
			pendingPerf = false
			continue
		}
		if l == "" {
			if cur != nil {
				if postings == 0 && !c.nl {
					return fmt.Sprintf("fail:line %d transaction without posting", i+1)
				}
				if postings > 0 {
					flush()
				}
			}
			if pendingPerf && cur == nil {
				return fmt.Sprintf("fail:line %d performance annotation without transaction", i+1)
			}
			continue
		}
		if !c.nl {
			return fmt.Sprintf("fail:line %d is neither header, posting, annotation nor balance: %s", i+1, esc(c13aClip(l, 40)))
		}
	}
	flush()
	var wantT, wantA []string
	for _, f := range c.facts {
		wantT = append(wantT, c13bFactKey(f.date, f.terms))
	}
	for _, f := range c.asserts {
		wantA = append(wantA, c13bFactKey(f.date, f.terms)+" "+f.terms[0].cur)
	}
	if res := c13bCompare("transaction", txns, wantT); res != "ok" {
		return res
	}
	return c13bCompare("assertion", asserts, wantA)
}

// ---------------------------------------------------------------- shared generator pieces

func c13bRatOf(a c13aAmount, negate bool) *big.Rat { return c13aRat(a.value(negate)) }

func c13bDec(q *big.Rat, places int) string { return q.FloatString(places) }

// the way knut prints a quantity: no trailing zeros
func c13bCanon(q *big.Rat) string {
	s := q.FloatString(6)
	s = strings.TrimRight(s, "0")
	return strings.TrimSuffix(s, ".")
}

var c13bBadAccts = []string{"Foo:Bar", "Assets:", "Assets::X", "assets:bank", "Assets:Bank-1"}

// ---------------------------------------------------------------- revolut2

func c13bGenRevolut2(r *rng, mal string) c13bCase {
	c := c13bCase{imp: "revolut2", flags: map[string]string{
		"acct": pick(r, []string{"Assets:Accounts:Revolut", "Assets:Revolut", "Assets:Bank:Revolut:CHF", "Assets:R"}),
		"fee":  pick(r, []string{"Expenses:Fees", "Expenses:Bank:Fees", "Expenses:F"})}}
	n := c13aRowCount(r)
	if mal != "" && n == 0 {
		n = 3
	}
	curs := []string{pick(r, []string{"CHF", "CHF", "EUR", "USD", "GBP"})}
	if r.chance(25) { // an export over several currency pockets; one currency per day (see findings)
		curs = []string{"CHF", "EUR", "USD"}
	}
	// rows in the order of completion (the Balance column is the balance after the row); the
	// importer dates a row on its Completed Date
	quotesOK := r.chance(15)
	c.quotes = quotesOK
	dts := c13aNewDates(r)
	pd := c13aNewPadder(r, mal)
	rows := make([]c13aRow, n)
	for i := range rows {
		t := dts.next()
		rows[i] = c13aRow{date: t.AddDate(0, 0, -r.intn(3)), date2: t, amt: c13aGenAmount(r, false), credit: r.chance(30),
			texts: []string{c13aText(r, true, quotesOK)}}
	}
	bad := -1
	if mal != "" && mal != "acct" {
		bad = r.intn(n)
	}
	curOfDay := map[string]string{}
	balance := map[string]*big.Rat{}
	type key struct{ date, cur string }
	last := map[key]string{}
	var order []key
	var b strings.Builder
	b.WriteString("Type,Product,Started Date,Completed Date,Description,Amount,Fee,Currency,State,Balance\n")
	for i, row := range rows {
		completed := row.date2
		day := c13aISO(completed)
		cur, ok := curOfDay[day]
		if !ok {
			cur = pick(r, curs)
			curOfDay[day] = cur
		}
		if r.chance(4) {
			row.amt = c13aExotic(r)
			row.credit = true
		}
		amount := row.amt.value(!row.credit)
		if row.amt.raw != "" {
			amount = row.amt.raw
		}
		fee := c13aAmount{ip: "0", fp: "00"}
		if r.chance(25) {
			fee = c13aAmount{ip: fmt.Sprint(r.intn(3)), fp: fmt.Sprintf("%02d", r.intn(100))}
		}
		feeText := fee.text()
		if r.chance(10) {
			feeText = pick(r, []string{"0", "0.0", "0.000"})
			fee = c13aAmount{ip: "0"}
		}
		pending := mal == "" && r.chance(8)
		started := row.date.Format("2006-01-02") + fmt.Sprintf(" %02d:%02d:%02d", r.intn(24), r.intn(60), r.intn(60))
		completedText := day + fmt.Sprintf(" %02d:%02d:%02d", r.intn(24), r.intn(60), r.intn(60))
		state := "COMPLETED"
		if pending {
			completedText, state = "", pick(r, []string{"PENDING", "REVERTED"})
		}
		if balance[cur] == nil {
			balance[cur] = new(big.Rat)
			if r.chance(70) {
				balance[cur] = big.NewRat(int64(r.intn(500000)), 100)
				c.opening = append(c.opening, c13bTerm{cur, c13bCanon(balance[cur])})
			}
		}
		if !pending {
			balance[cur].Add(balance[cur], c13bRatOf(row.amt, !row.credit))
			balance[cur].Sub(balance[cur], c13bRatOf(fee, false))
		}
		balText := c13bDec(balance[cur], 3)
		if r.chance(50) {
			balText = strings.TrimSuffix(balText, "0")
		}
		if pending {
			balText = ""
			if r.chance(50) {
				balText = "0.00"
			}
		}
		fields := []string{pick(r, []string{"CARD_PAYMENT", "TRANSFER", "TOPUP", "EXCHANGE", "ATM", "FEE"}), pick(r, []string{"Current", "Savings"}),
			started, completedText, row.texts[0], amount, feeText, cur, state, balText}
		if i == bad {
			switch mal {
			case "date":
				fields[3] = pick(r, []string{"2020-02-30 10:00:00", "2021-02-29 00:00:00", "2020-13-01 10:00:00", "2020-00-10 10:00:00", "2020-04-31"})
			case "datefmt":
				fields[3] = pick(r, []string{"02.01.2020 10:00:00", "2020-1-1", "2020/01/01 10:00", "1 Jan 2020", "20200101"})
			case "amount":
				fields[pick(r, []int{5, 6, 9})] = pick(r, append(c13aBadAmounts, "", "1'234.50"))
			case "cur":
				fields[7] = pick(r, c13aBadCurs)
			case "quote":
				fields[4] = c13aBareQuote(r)
			case "cols":
				if r.chance(50) {
					fields = fields[:9]
				} else {
					fields = append(fields, "extra")
				}
			}
		}
		for k, f := range fields {
			if k > 0 {
				b.WriteByte(',')
			}
			b.WriteString(pd.pad(r))
			b.WriteString(c13aCsvField(r, f, ',', k == 4 && r.chance(70)))
		}
		b.WriteString(pick(r, []string{"\n", "\n", "\r\n"}))
		c.nl = c.nl || c13aHasNewline(fields...)
		if pending {
			continue
		}
		net := new(big.Rat).Sub(c13bRatOf(row.amt, !row.credit), c13bRatOf(fee, false))
		c.facts = append(c.facts, c13bFact{day, []c13bTerm{{cur, net.FloatString(6)}}})
		k := key{day, cur}
		if _, seen := last[k]; !seen {
			order = append(order, k)
		}
		last[k] = balText
	}
	for _, k := range order {
		c.asserts = append(c.asserts, c13bFact{k.date, []c13bTerm{{k.cur, last[k]}}})
	}
	c.file = []byte(b.String())
	return c
}

// ---------------------------------------------------------------- revolut (older export)

// amount as the export writes it: a leading blank, ' as thousands separator
func c13bRevAmount(r *rng, a c13aAmount) string {
	t := a.text()
	if r.chance(70) {
		t = " " + t
	}
	return t
}

func c13bGenRevolut(r *rng, mal string) c13bCase {
	c := c13bCase{imp: "revolut", flags: map[string]string{
		"acct": pick(r, []string{"Assets:Accounts:Revolut", "Assets:Revolut", "Assets:Bank:Revolut:EUR", "Assets:R"})}}
	n := c13aRowCount(r)
	if mal != "" && n == 0 {
		n = 3
	}
	cur := pick(r, []string{"EUR", "EUR", "CHF", "USD", "GBP"})
	others := []string{}
	for _, o := range []string{"EUR", "CHF", "USD", "GBP", "NZD"} {
		if o != cur {
			others = append(others, o)
		}
	}
	quotesOK := r.chance(15)
	c.quotes = quotesOK
	ascending := r.chance(15) // oldest first is consistent only with one row per day
	pd := c13aNewPadder(r, mal)
	dts := c13aNewDates(r)
	type row struct {
		date   time.Time
		fields []string
		fact   c13bFact
		bal    string
	}
	rows := make([]row, n)
	balance := new(big.Rat)
	if r.chance(70) {
		balance = big.NewRat(int64(r.intn(500000)), 100)
		c.opening = append(c.opening, c13bTerm{cur, c13bCanon(balance)})
	}
	for i := range rows {
		t := dts.next()
		if ascending {
			dts.cur = dts.cur.AddDate(0, 0, 1)
		}
		amt := c13aGenAmount(r, true)
		if r.chance(4) {
			amt = c13aExotic(r)
		}
		credit := r.chance(30)
		ref := c13aText(r, false, quotesOK)
		rate, cat := pick(r, []string{" ", "", " "}), pick(r, []string{"General", "Groceries", "Transport", "Travel", "Restaurants", "", "Health & Beauty"})
		exOut, exIn := "", ""
		terms := []c13bTerm{{cur, amt.value(!credit)}}
		if r.chance(15) {
			o := pick(r, others)
			oa := c13aGenAmount(r, true)
			combi := o + pick(r, []string{" ", "  ", "\u00a0", "\t"}) + oa.text()
			rate = fmt.Sprintf("FX-rate %s 1 = %s 1.%04d", pick(r, []string{"€", "$", cur}), o, r.intn(10000))
			if credit {
				ref = "Bought " + cur + " from " + o
				exIn = combi
				terms = append(terms, c13bTerm{o, oa.value(true)})
			} else {
				ref = "Sold " + cur + " to " + o
				exOut = combi
				terms = append(terms, c13bTerm{o, oa.value(false)})
			}
			if r.chance(20) {
				ref = ref + pick(r, []string{" (fee incl.)", "  ", " x"})
			}
		} else if r.chance(5) {
			ref = pick(r, []string{"Sold out", "Sold EUR to chf", "Bought eur from CHF", "SoldEUR to CHF", "Sold  EUR to CHF"})
		}
		balance.Add(balance, c13bRatOf(amt, !credit))
		out, in := c13bRevAmount(r, amt), ""
		if credit {
			out, in = "", out
		}
		bal := c13bCanon(balance)
		balText := balance.FloatString(2)
		if r.chance(50) && len(balText) > 7 && balance.Sign() > 0 {
			balText = balText[:len(balText)-6] + "'" + balText[len(balText)-6:]
		}
		if !strings.Contains(bal, ".") || len(bal)-strings.Index(bal, ".") <= 3 {
			// two places are enough
		} else {
			balText = balance.FloatString(6)
		}
		rows[i] = row{date: t, fields: []string{t.Format("2 Jan 2006"), ref, out, in, exOut, exIn, " " + balText, rate, cat},
			fact: c13bFact{c13aISO(t), terms}, bal: bal}
	}
	if !ascending {
		for i, j := 0, len(rows)-1; i < j; i, j = i+1, j-1 {
			rows[i], rows[j] = rows[j], rows[i]
		}
	}
	bad := -1
	if mal != "" && mal != "acct" {
		bad = r.intn(n)
	}
	var b strings.Builder
	hcur := cur
	header := fmt.Sprintf("Completed Date;Reference;Paid Out (%s);Paid In (%s);Exchange Out;Exchange In; Balance (%s);Exchange Rate;Category\n", hcur, hcur, hcur)
	if mal == "cur" {
		header = pick(r, []string{"Completed Date;Reference;Paid Out;Paid In;Exchange Out;Exchange In; Balance;Exchange Rate;Category\n",
			"Completed Date;Reference;Paid Out (€);Paid In (€);Exchange Out;Exchange In; Balance (€);Exchange Rate;Category\n",
			"Completed Date;Reference;Paid Out ();Paid In ();Exchange Out;Exchange In; Balance ();Exchange Rate;Category\n"})
	}
	b.WriteString(header)
	prev := ""
	for i, row := range rows {
		fields := row.fields
		if i == bad {
			switch mal {
			case "date":
				fields[0] = pick(r, []string{"31 Feb 2020", "0 Jan 2020", "29 Feb 2021", "32 Jan 2020", "31 Apr 2020", "15 Foo 2020"})
			case "datefmt":
				fields[0] = pick(r, []string{"2020-02-01", "Jan 2 2020", "", "2 January 2020x", "02.01.2020", "2 Jan 20"})
			case "amount":
				switch r.intn(4) {
				case 0:
					fields[2], fields[3] = "", ""
				case 1:
					fields[2], fields[3] = "1.00", "2.00"
				case 2:
					fields[6] = pick(r, c13aBadAmounts)
				default:
					if fields[2] != "" {
						fields[2] = pick(r, c13aBadAmounts)
					} else {
						fields[3] = pick(r, c13aBadAmounts)
					}
				}
			case "quote":
				fields[1] = c13aBareQuote(r)
			case "cols":
				if r.chance(50) {
					fields = fields[:8]
				} else {
					fields = append(fields, "extra")
				}
			}
		}
		for k, f := range fields {
			if k > 0 {
				b.WriteByte(';')
			}
			b.WriteString(pd.pad(r))
			if k == 1 || k == 7 || k == 8 {
				b.WriteString(c13aCsvField(r, f, ';', false))
			} else {
				b.WriteString(f)
			}
		}
		b.WriteString(pick(r, []string{"\n", "\n", "\r\n"}))
		c.facts = append(c.facts, row.fact)
		if row.fact.date != prev {
			c.asserts = append(c.asserts, c13bFact{row.fact.date, []c13bTerm{{cur, row.bal}}})
			prev = row.fact.date
		}
	}
	c.file = []byte(b.String())
	return c
}

// ---------------------------------------------------------------- wise

func c13bGenWise(r *rng, mal string) c13bCase {
	c := c13bCase{imp: "wise", flags: map[string]string{
		"acct":    pick(r, []string{"Assets:Accounts:Wise", "Assets:Wise", "Assets:Bank:Wise:Multi", "Assets:W"}),
		"fee":     pick(r, []string{"Expenses:Fees", "Expenses:Bank:Fees", "Expenses:F"}),
		"trading": pick(r, []string{"Expenses:Trading", "Equity:Trading", "Income:FX"})}}
	pd := c13aNewPadder(r, mal)
	n := c13aRowCount(r)
	if mal != "" && n == 0 {
		n = 3
	}
	quotesOK := r.chance(15)
	c.quotes = quotesOK
	// an incoming payment in another currency (money added from a bank account in CHF to the EUR
	// balance): see findings/C13-wise-incoming-conversion.md; kept to a few statements
	incomingConv := mal == "" && r.chance(8)
	if incomingConv && n > 0 {
		c.note = "incoming-conversion"
	}
	curs := []string{"CHF", "EUR", "USD", "NZD", "AUD", "GBP"}
	dts := c13aNewDates(r)
	bad := -1
	if mal != "" && mal != "acct" {
		bad = r.intn(n)
	}
	var b strings.Builder
	b.WriteString("ID,Status,Direction,\"Created on\",\"Finished on\",\"Source fee amount\",\"Source fee currency\",\"Target fee amount\",\"Target fee currency\",\"Source name\",\"Source amount (after fees)\",\"Source currency\",\"Target name\",\"Target amount (after fees)\",\"Target currency\",\"Exchange rate\",Reference,Batch\n")
	type line struct {
		fields []string
		facts  []c13bFact
	}
	lines := make([]line, n)
	for i := range lines {
		t := dts.next()
		day := c13aISO(t)
		created := day + fmt.Sprintf(" %02d:%02d:%02d", r.intn(24), r.intn(60), r.intn(60))
		finished := c13aISO(t.AddDate(0, 0, r.intn(3))) + fmt.Sprintf(" %02d:%02d:%02d", r.intn(24), r.intn(60), r.intn(60))
		src, tgt := c13aGenAmount(r, false), c13aGenAmount(r, false)
		if r.chance(4) {
			src = c13aExotic(r)
		}
		scur := pick(r, curs)
		tcur := scur
		owner := pick(r, []string{"Rocky Balboa", "R. Balboa", "Jörg Müller"})
		other := c13aText(r, true, quotesOK)
		fee := c13aAmount{ip: "0", fp: "00"}
		if r.chance(35) {
			fee = c13aAmount{ip: fmt.Sprint(r.intn(60)), fp: fmt.Sprintf("%02d", r.intn(100))}
		}
		feeAmount, feeCur := fee.text(), scur
		switch r.intn(10) {
		case 0:
			feeAmount, feeCur, fee = "", "", c13aAmount{ip: "0"}
		case 1:
			feeAmount, fee = pick(r, []string{"0", "0.0", "0.000"}), c13aAmount{ip: "0"}
		}
		tfeeAmount, tfeeCur := "", ""
		tfee := c13aAmount{ip: "0"}
		kind := r.intn(12)
		if incomingConv && i < 2 {
			kind = 100
		}
		var l line
		fact := func(terms ...c13bTerm) { l.facts = append(l.facts, c13bFact{day, terms}) }
		id, status, dir := "", "COMPLETED", ""
		sname, tname := owner, other
		switch {
		case kind <= 3: // card payment or transfer out, same currency
			id, dir = pick(r, []string{"CARD_TRANSACTION-", "TRANSFER-"})+fmt.Sprint(r.intn(1000000)), "OUT"
			tgt = src
			fact(c13bTerm{scur, src.value(true)}, c13bTerm{feeCur, fee.value(true)})
		case kind <= 5: // card payment abroad: converted, then paid
			id, dir = "CARD_TRANSACTION-"+fmt.Sprint(r.intn(1000000)), "OUT"
			for tcur == scur {
				tcur = pick(r, curs)
			}
			if r.chance(20) {
				tfee = c13aAmount{ip: fmt.Sprint(r.intn(3)), fp: fmt.Sprintf("%02d", 1+r.intn(99))}
				tfeeAmount, tfeeCur = tfee.text(), tcur
			}
			fact(c13bTerm{scur, src.value(true)}, c13bTerm{feeCur, fee.value(true)}, c13bTerm{tcur, tfee.value(true)}, c13bTerm{tcur, tgt.value(false)})
			fact(c13bTerm{tcur, tgt.value(true)})
		case kind <= 7: // money received, same currency
			id, dir = "TRANSFER-"+fmt.Sprint(r.intn(1000000)), "IN"
			tgt = src
			sname, tname = other, owner
			fact(c13bTerm{scur, src.value(false)}, c13bTerm{feeCur, fee.value(true)})
		case kind <= 9: // conversion between two balances
			id, dir = "BALANCE_TRANSACTION-"+fmt.Sprint(r.intn(1000000)), "NEUTRAL"
			for tcur == scur {
				tcur = pick(r, curs)
			}
			tname = owner
			fact(c13bTerm{scur, src.value(true)}, c13bTerm{feeCur, fee.value(true)}, c13bTerm{tcur, tgt.value(false)})
		case kind == 10: // moved to a jar of the same currency: nothing leaves the account, no fee
			id, dir = "BALANCE_TRANSACTION-"+fmt.Sprint(r.intn(1000000)), "NEUTRAL"
			tgt = src
			tname = owner
			feeAmount, fee = pick(r, []string{"", "0.00", "0"}), c13aAmount{ip: "0"}
			if feeAmount == "" {
				feeCur = ""
			}
		case kind == 11:
			id, dir, status = "CARD_TRANSACTION-"+fmt.Sprint(r.intn(1000000)), "OUT", "CANCELLED"
			tgt = src
			if r.chance(50) {
				feeAmount, feeCur = "", ""
			}
		case kind == 100: // money added in another currency: the account receives the target amount
			id, dir = "TRANSFER-"+fmt.Sprint(r.intn(1000000)), "IN"
			for tcur == scur {
				tcur = pick(r, curs)
			}
			sname, tname = owner, owner
			fact(c13bTerm{scur, src.value(true)}, c13bTerm{feeCur, fee.value(true)}, c13bTerm{tcur, tgt.value(false)})
			fact(c13bTerm{scur, src.value(false)})
		}
		if r.chance(50) {
			id = strings.ReplaceAll(id, "_", "-")
		}
		l.fields = []string{id, status, dir, created, finished, feeAmount, feeCur, tfeeAmount, tfeeCur, sname, src.written(), scur, tname,
			tgt.written(), tcur, pick(r, []string{"1.0", "1.75685000", "0.91", ""}), pick(r, []string{"", "", "Invoice 42", "ref; x"}), ""}
		lines[i] = l
	}
	if r.chance(50) {
		for i, j := 0, len(lines)-1; i < j; i, j = i+1, j-1 {
			lines[i], lines[j] = lines[j], lines[i]
		}
	}
	for i, l := range lines {
		fields := l.fields
		if i == bad {
			if fields[1] == "CANCELLED" {
				fields[1] = "COMPLETED"
			}
			switch mal {
			case "date":
				fields[3] = pick(r, []string{"2020-02-30 10:00:00", "2021-02-29 00:00:00", "2020-13-01 10:00:00", "2020-00-10 10:00:00"})
			case "datefmt":
				fields[3] = pick(r, []string{"02.01.2020 10:00:00", "2020-1-1", "2020/01/01 10:00", "", "20200101"})
			case "amount":
				fields[pick(r, []int{10, 13})] = pick(r, append(c13aBadAmounts, "", "1'234.50"))
			case "cur":
				switch r.intn(3) {
				case 0:
					fields[2] = pick(r, []string{"SIDEWAYS", "", "out"})
				default:
					fields[pick(r, []int{11, 14})] = pick(r, c13aBadCurs)
				}
			case "quote":
				fields[pick(r, []int{4, 9, 12})] = c13aBareQuote(r)
			case "cols":
				if r.chance(50) {
					fields = fields[:17]
				} else {
					fields = append(fields, "extra")
				}
			}
		}
		for k, f := range fields {
			if k > 0 {
				b.WriteByte(',')
			}
			b.WriteString(pd.pad(r))
			b.WriteString(c13aCsvField(r, f, ',', (k == 0 || k == 3 || k == 4 || k == 9 || k == 12) && r.chance(70)))
		}
		b.WriteString(pick(r, []string{"\n", "\n", "\r\n"}))
		c.nl = c.nl || c13aHasNewline(fields...)
		c.facts = append(c.facts, l.facts...)
	}
	c.file = []byte(b.String())
	return c
}

// ---------------------------------------------------------------- swissquote

func c13bGenSwissquote(r *rng, mal string) c13bCase {
	c := c13bCase{imp: "swissquote", flags: map[string]string{
		"acct":    pick(r, []string{"Assets:Swissquote", "Assets:Broker:Swissquote", "Assets:SQ"}),
		"div":     pick(r, []string{"Income:Dividends", "Income:D"}),
		"int":     pick(r, []string{"Income:Interest", "Income:I"}),
		"tax":     pick(r, []string{"Expenses:Tax", "Expenses:Taxes:Withholding"}),
		"fee":     pick(r, []string{"Expenses:Fees", "Expenses:Broker:Fees"}),
		"trading": pick(r, []string{"Expenses:Trading", "Equity:Trading", "Income:Trading"})}}
	n := c13aRowCount(r)
	if mal != "" && n == 0 {
		n = 3
	}
	quotesOK := r.chance(15)
	c.quotes = quotesOK
	curs := []string{"CHF", "CHF", "USD", "EUR"}
	syms := [][3]string{{"VWRL", "Vanguard All World ETF Dist", "IE00B3RBWM25"}, {"CSSPX", "iShares Core S&P 500", "IE00B5BMR087"},
		{"ABBN", "ABB Ltd; N", "CH0012221716"}, {"NESN", "Nestlé SA", "CH0038863350"}, {"X1", "", ""}, {"ROG", "Roche \"GS\"", "CH0012032048"}}
	dts := c13aNewDates(r)
	type line struct {
		rows  [][]string
		facts []c13bFact
	}
	amt2 := func(q *big.Rat) string { // as the export writes amounts: two places, ' separators now and then
		t := q.FloatString(2)
		neg := strings.HasPrefix(t, "-")
		t = strings.TrimPrefix(t, "-")
		if i := strings.Index(t, "."); i > 3 && r.chance(70) {
			t = t[:i-3] + "'" + t[i-3:]
		}
		if neg {
			t = "-" + t
		}
		return t
	}
	saldo := func() string { return amt2(big.NewRat(int64(r.intn(2000000)-300000), 100)) }
	lines := make([]line, n)
	for i := range lines {
		t := dts.next()
		day := c13aISO(t)
		stamp := t.Format("02-01-2006") + fmt.Sprintf(" %02d:%02d:%02d", r.intn(24), r.intn(60), r.intn(60))
		if r.chance(10) {
			stamp = t.Format("02-01-2006")
		}
		cur := pick(r, curs)
		sym := pick(r, syms)
		if !quotesOK && strings.Contains(sym[1], "\"") {
			sym = syms[0]
		}
		name := sym[1]
		if r.chance(20) {
			name = c13aText(r, false, quotesOK)
		}
		order := fmt.Sprintf("%08d", r.intn(100000000))
		var l line
		fact := func(terms ...c13bTerm) { l.facts = append(l.facts, c13bFact{day, terms}) }
		row := func(typ, symbol, nm, isin, anzahl, preis, kosten, netto, wcur string) {
			l.rows = append(l.rows, []string{stamp, order, typ, symbol, nm, isin, anzahl, preis, kosten, "0.00", netto, saldo(), wcur})
		}
		switch k := r.intn(14); {
		case k <= 3: // Kauf / Verkauf
			qty := big.NewRat(int64(1+r.intn(400)), 1)
			qtyText := qty.FloatString(1)
			if r.chance(20) {
				qty = big.NewRat(int64(1+r.intn(4000)), 1000)
				qtyText = qty.FloatString(3)
			}
			price := big.NewRat(int64(1+r.intn(500000)), 100)
			fee := big.NewRat(int64(r.intn(5000)), 100)
			gross := new(big.Rat).Mul(qty, price)
			gross, _ = new(big.Rat).SetString(gross.FloatString(2))
			if k <= 1 {
				net := new(big.Rat).Neg(new(big.Rat).Add(gross, fee))
				row("Kauf", sym[0], name, sym[2], qtyText, amt2(price), amt2(fee), amt2(net), cur)
				fact(c13bTerm{sym[0], qty.FloatString(3)}, c13bTerm{cur, net.FloatString(2)})
			} else {
				net := new(big.Rat).Sub(gross, fee)
				row("Verkauf", sym[0], name, sym[2], qtyText, amt2(price), amt2(fee), amt2(net), cur)
				if new(big.Rat).Add(net, fee).Sign() > 0 {
					fact(c13bTerm{sym[0], "-" + qty.FloatString(3)}, c13bTerm{cur, net.FloatString(2)})
				} else { // a sale without proceeds: the importer keeps the sign of Anzahl
					fact(c13bTerm{sym[0], qty.FloatString(3)}, c13bTerm{cur, net.FloatString(2)})
				}
			}
		case k <= 5: // currency exchange: two rows
			other := pick(r, curs)
			for other == cur {
				other = pick(r, curs)
			}
			a, b2 := big.NewRat(int64(1+r.intn(500000)), 100), big.NewRat(int64(1+r.intn(500000)), 100)
			gut, bel := "Forex-Gutschrift", "Forex-Belastung"
			if r.chance(25) {
				gut, bel = "Fx-Gutschrift Comp.", "Fx-Belastung Comp."
			}
			order = "00000000"
			if r.chance(50) {
				row(gut, "", "", "", "1.0", amt2(a), "0.00", amt2(a), cur)
				row(bel, "", "", "", "1.0", amt2(b2), "0.00", amt2(new(big.Rat).Neg(b2)), other)
			} else {
				row(bel, "", "", "", "1.0", amt2(b2), "0.00", amt2(new(big.Rat).Neg(b2)), other)
				row(gut, "", "", "", "1.0", amt2(a), "0.00", amt2(a), cur)
			}
			fact(c13bTerm{cur, a.FloatString(2)}, c13bTerm{other, "-" + b2.FloatString(2)})
		case k <= 7: // dividend, with or without withholding tax
			gross := big.NewRat(int64(1+r.intn(100000)), 100)
			tax := new(big.Rat)
			if r.chance(50) {
				tax = big.NewRat(int64(1+r.intn(3000)), 100)
			}
			net := new(big.Rat).Sub(gross, tax)
			row(pick(r, []string{"Dividende", "Dividende", "Capital Gain", "Kapitalrückzahlung"}), sym[0], name, sym[2], "1.0", amt2(gross), amt2(tax), amt2(net), cur)
			fact(c13bTerm{cur, net.FloatString(2)})
		case k == 8:
			net := big.NewRat(-int64(1+r.intn(10000)), 100)
			order = "00000000"
			row("Depotgebühren", "", "", "", "1.0", amt2(new(big.Rat).Neg(net)), "3.25", amt2(net), cur)
			fact(c13bTerm{cur, net.FloatString(2)})
		case k <= 10:
			net := big.NewRat(int64(1+r.intn(2000000)), 100)
			typ := pick(r, []string{"Einzahlung", "Vergütung"})
			if r.chance(40) {
				net.Neg(net)
				typ = pick(r, []string{"Auszahlung", "Belastung"})
			}
			order = "00000000"
			row(typ, "", "", "", "1.0", amt2(new(big.Rat).Abs(net)), "0.00", amt2(net), cur)
			fact(c13bTerm{cur, net.FloatString(2)})
		case k == 11:
			net := big.NewRat(int64(r.intn(2000))-500, 100)
			order = "00000000"
			row("Zins", "", "", "", "1.0", amt2(new(big.Rat).Abs(net)), "0.00", amt2(net), cur)
			fact(c13bTerm{cur, net.FloatString(2)})
		default: // anything else is booked against Expenses:TBD
			net := big.NewRat(int64(r.intn(20000))-10000, 100)
			order = "00000000"
			row(pick(r, []string{"Spesen Steuerauszug", "Berichtigung Börsengeschäft", "Titeleingang", "Crypto Deposit", c13aText(r, false, quotesOK)}),
				pick(r, []string{"", sym[0]}), "", "", "1.0", "0.00", "0.00", amt2(net), cur)
			fact(c13bTerm{cur, net.FloatString(2)})
		}
		lines[i] = l
	}
	if r.chance(50) { // newest first, as Swissquote exports; the two rows of an exchange stay in their order
		for i, j := 0, len(lines)-1; i < j; i, j = i+1, j-1 {
			lines[i], lines[j] = lines[j], lines[i]
		}
	}
	bad := -1
	if mal != "" && mal != "acct" {
		bad = r.intn(n)
	}
	var b strings.Builder
	b.WriteString("Datum;Auftrag #;Transaktionen;Symbol;Name;ISIN;Anzahl;Stückpreis;Kosten;Aufgelaufene Zinsen;Nettobetrag;Saldo;Währung\n")
	for i, l := range lines {
		for k, fields := range l.rows {
			if i == bad && k == 0 {
				switch mal {
				case "date":
					fields[0] = pick(r, []string{"30-02-2020 10:00:00", "29-02-2021 00:00:00", "01-13-2020 10:00:00", "00-01-2020 10:00:00"})
				case "datefmt":
					fields[0] = pick(r, []string{"2020-01-02 10:00:00", "1-1-2020", "01.02.2020 10:00", "", "01/02/2020 10:00:00"})
				case "amount":
					fields[pick(r, []int{6, 7, 8, 9, 10, 11})] = pick(r, append(c13aBadAmounts, ""))
				case "cur":
					if r.chance(50) {
						fields[12] = pick(r, c13aBadCurs)
					} else {
						fields[3] = pick(r, []string{"BRK.B", "A B", "X-Y"})
					}
				case "cols":
					if r.chance(50) {
						fields = fields[:12]
					} else {
						fields = append(fields, "extra")
					}
				}
			}
			for j, f := range fields {
				if j > 0 {
					b.WriteByte(';')
				}
				if raw, ok := c13aLazyField(r, f, ';'); ok && (j == 2 || j == 4) {
					b.WriteString(raw) // a bare quote inside an unquoted field (LazyQuotes)
				} else if (j == 2 || j == 4) && (strings.ContainsAny(f, ";\"") || strings.HasPrefix(f, " ")) {
					b.WriteString("\"" + strings.ReplaceAll(f, "\"", "\"\"") + "\"")
				} else {
					b.WriteString(f)
				}
			}
			b.WriteString(pick(r, []string{"\n", "\n", "\r\n"}))
		}
		c.facts = append(c.facts, l.facts...)
	}
	c.file = []byte(b.String())
	return c
}

// ---------------------------------------------------------------- interactivebrokers

// decimal.Round(2): half away from zero, on the generator's rationals
func c13bRound2(q *big.Rat) *big.Rat {
	neg := q.Sign() < 0
	v := new(big.Rat).Abs(q)
	v.Mul(v, big.NewRat(100, 1))
	n, rem := new(big.Int).QuoRem(v.Num(), v.Denom(), new(big.Int))
	if rem.Mul(rem, big.NewInt(2)).Cmp(v.Denom()) >= 0 {
		n.Add(n, big.NewInt(1))
	}
	res := new(big.Rat).SetFrac(n, big.NewInt(100))
	if neg {
		res.Neg(res)
	}
	return res
}

// a number with d decimals, as IB writes it (thousands separators in quoted fields now and then)
func c13bIBNum(r *rng, q *big.Rat, d int) string {
	t := q.FloatString(d)
	if i := strings.Index(strings.TrimPrefix(t, "-"), "."); (i > 3 || (i < 0 && len(strings.TrimPrefix(t, "-")) > 3)) && r.chance(40) {
		neg := strings.HasPrefix(t, "-")
		u := strings.TrimPrefix(t, "-")
		ip, fp := u, ""
		if j := strings.Index(u, "."); j >= 0 {
			ip, fp = u[:j], u[j:]
		}
		var b []byte
		for k := 0; k < len(ip); k++ {
			if k > 0 && (len(ip)-k)%3 == 0 {
				b = append(b, ',')
			}
			b = append(b, ip[k])
		}
		t = string(b) + fp
		if neg {
			t = "-" + t
		}
	}
	return t
}

func c13bGenIB(r *rng, mal string) c13bCase {
	c := c13bCase{imp: "interactivebrokers", flags: map[string]string{
		"acct":    pick(r, []string{"Assets:IB", "Assets:Broker:InteractiveBrokers", "Assets:I"}),
		"div":     pick(r, []string{"Income:Dividends", "Income:D"}),
		"int":     pick(r, []string{"Expenses:Interest", "Income:Interest"}),
		"tax":     pick(r, []string{"Expenses:Tax", "Expenses:Taxes:Withholding"}),
		"fee":     pick(r, []string{"Expenses:Fees", "Expenses:Broker:Fees"}),
		"trading": pick(r, []string{"Expenses:Trading", "Equity:Trading", "Income:Trading"})}}
	n := c13aRowCount(r)
	if mal != "" && n == 0 {
		n = 3
	}
	quotesOK := r.chance(15)
	c.quotes = quotesOK
	base := pick(r, []string{"CHF", "EUR", "USD"})
	curs := []string{"USD", "USD", "CHF", "EUR"}
	stocks := []string{"AAPL", "VT", "MSFT", "BRK", "VWRL", "X5"}
	// IB reports fractional shares, proceeds and commissions with four and more decimals and cash
	// balances with nine; the importer rounds some of them to two places
	// (findings/C13-interactivebrokers-rounding.md).  Most generated statements stay within two
	// decimals, where rounding changes nothing; "fractional" ones use IB's precision and state the
	// exact amounts as facts.
	fractional := mal == "" && r.chance(12)
	if fractional {
		c.note = "fractional"
	}
	exact := func(q *big.Rat) *big.Rat {
		if fractional {
			return q
		}
		return c13bRound2(q)
	}
	dts := c13aNewDates(r)
	start := dts.cur.AddDate(0, 0, -r.intn(20))
	sections := map[string][][]string{}
	hold := map[string]*big.Rat{}
	change := func(com string, q *big.Rat) {
		if hold[com] == nil {
			hold[com] = new(big.Rat)
			if r.chance(60) {
				hold[com] = big.NewRat(int64(r.intn(1000000)), 100)
				c.opening = append(c.opening, c13bTerm{com, c13bCanon(hold[com])})
			}
		}
		hold[com].Add(hold[com], q)
	}
	last := start
	bad := -1
	if mal != "" && mal != "acct" {
		bad = r.intn(n)
	}
	for i := 0; i < n; i++ {
		t := dts.next()
		last = t
		day := c13aISO(t)
		cur := pick(r, curs)
		var row []string
		section := ""
		fact := func(terms ...c13bTerm) {
			c.facts = append(c.facts, c13bFact{day, terms})
			for _, tm := range terms {
				change(tm.cur, c13aRat(tm.amount))
			}
		}
		stamp := fmt.Sprintf("%s, %02d:%02d:%02d", day, r.intn(24), r.intn(60), r.intn(60))
		switch k := r.intn(12); {
		case k <= 3: // stock trade
			section = "Trades"
			stock := pick(r, stocks)
			qty := big.NewRat(int64(1+r.intn(3000)), 1)
			qd := 0
			if fractional && r.chance(50) {
				qty, qd = big.NewRat(int64(1+r.intn(300000)), 10000), 4
			} else if r.chance(20) {
				qty, qd = big.NewRat(int64(1+r.intn(30000)), 100), 2
			}
			price := big.NewRat(int64(1+r.intn(5000000)), 10000)
			sell := r.chance(40)
			proceeds := new(big.Rat).Mul(qty, price)
			if sell {
				qty.Neg(qty)
			} else {
				proceeds.Neg(proceeds)
			}
			fee := exact(big.NewRat(-int64(r.intn(200000)), 100000))
			feeText := c13bCanon(fee)
			if r.chance(30) {
				feeText = fee.FloatString(5)
			}
			proceeds = exact(proceeds)
			pd := 2
			if fractional {
				pd = pick(r, []int{4, 6})
			}
			row = []string{"Trades", "Data", "Order", "Stocks", cur, stock, stamp, c13bIBNum(r, qty, qd), c13bIBNum(r, price, 4), price.FloatString(2),
				c13bIBNum(r, proceeds, pd), feeText, "0", "0", "0", "40.425", pick(r, []string{"O", "C", "O;P", ""})}
			prText, _ := new(big.Rat).SetString(strings.ReplaceAll(row[10], ",", ""))
			fact(c13bTerm{stock, qty.FloatString(4)}, c13bTerm{cur, prText.FloatString(6)}, c13bTerm{cur, fee.FloatString(5)})
		case k <= 5: // currency trade
			section = "Trades"
			other := pick(r, curs)
			for other == cur {
				other = pick(r, []string{"CHF", "EUR", "USD", "GBP"})
			}
			qty := big.NewRat(int64(1+r.intn(3000000)), 100)
			price := big.NewRat(int64(50000+r.intn(100000)), 100000)
			proceeds := new(big.Rat).Mul(qty, price)
			if r.chance(50) {
				qty.Neg(qty)
			} else {
				proceeds.Neg(proceeds)
			}
			fee := exact(big.NewRat(-int64(r.intn(30000)), 10000))
			proceeds = exact(proceeds)
			row = []string{"Trades", "Data", "Order", "Forex", cur, other + "." + cur, stamp, c13bIBNum(r, qty, pick(r, []int{0, 2})), price.FloatString(5), "",
				c13bIBNum(r, proceeds, 5), c13bCanon(fee), "", "", "", "3.446", ""}
			qt, _ := new(big.Rat).SetString(strings.ReplaceAll(row[7], ",", ""))
			pt, _ := new(big.Rat).SetString(strings.ReplaceAll(row[10], ",", ""))
			fact(c13bTerm{other, qt.FloatString(2)}, c13bTerm{cur, pt.FloatString(5)}, c13bTerm{base, fee.FloatString(4)})
		case k <= 7:
			section = "Deposits & Withdrawals"
			q := big.NewRat(int64(r.intn(2000000))-500000, 100)
			if fractional && r.chance(50) {
				q = big.NewRat(int64(r.intn(2000000)), 1000)
			}
			row = []string{section, "Data", cur, day, pick(r, []string{"Electronic Fund Transfer", "Disbursement Initiated by John Doe", c13aText(r, false, quotesOK)}), c13bIBNum(r, q, 3)}
			qt, _ := new(big.Rat).SetString(strings.ReplaceAll(row[5], ",", ""))
			fact(c13bTerm{cur, qt.FloatString(3)})
		case k <= 9:
			stock := pick(r, stocks)
			q := big.NewRat(int64(1+r.intn(100000)), 100)
			desc := stock + "(US0378331005) Cash Dividend " + cur + " 0.77 per Share (Ordinary Dividend)"
			if r.chance(20) {
				desc = pick(r, []string{" ", "(", ""}) + stock + " " + c13aText(r, false, quotesOK)
			}
			if r.chance(40) {
				section = "Withholding Tax"
				q.Neg(q)
				row = []string{section, "Data", cur, day, desc + " - US Tax", c13bIBNum(r, q, 2), ""}
			} else {
				section = "Dividends"
				row = []string{section, "Data", cur, day, desc, c13bIBNum(r, q, 2)}
			}
			fact(c13bTerm{cur, q.FloatString(2)})
		default:
			section = "Interest"
			q := big.NewRat(int64(r.intn(20000))-15000, 100)
			row = []string{section, "Data", cur, day, cur + " Debit Interest for " + t.Format("Jan-2006"), c13bIBNum(r, q, 2)}
			fact(c13bTerm{cur, q.FloatString(2)})
		}
		if i == bad {
			di := map[string]int{"Trades": 6, "Deposits & Withdrawals": 3, "Dividends": 3, "Withholding Tax": 3, "Interest": 3}[section]
			ai := map[string]int{"Trades": 10, "Deposits & Withdrawals": 5, "Dividends": 5, "Withholding Tax": 5, "Interest": 5}[section]
			ci := map[string]int{"Trades": 4, "Deposits & Withdrawals": 2, "Dividends": 2, "Withholding Tax": 2, "Interest": 2}[section]
			switch mal {
			case "date":
				row[di] = pick(r, []string{"2020-02-30", "2021-02-29", "2020-13-01", "2020-00-10"}) + row[di][10:]
			case "datefmt":
				row[di] = pick(r, []string{"02.01.2020", "2020-1-1", "20200101", "2020/01/01, 10:00:00", ""})
			case "amount":
				row[ai] = pick(r, append(c13aBadAmounts, ""))
			case "cur":
				row[ci] = pick(r, c13aBadCurs)
			case "cols":
				row = row[:len(row)-1-r.intn(2)]
			}
		}
		sections[section] = append(sections[section], row)
	}
	end := last.AddDate(0, 0, r.intn(10))
	endDay := c13aISO(end)
	var out [][]string
	add := func(fields ...string) { out = append(out, fields) }
	add("Statement", "Header", "Field Name", "Field Value")
	add("Statement", "Data", "BrokerName", "Interactive Brokers")
	if r.chance(50) {
		add("Statement", "Data", "Title", "Activity Statement")
	}
	add("Statement", "Data", "Period", start.Format("January 2, 2006")+" - "+end.Format("January 2, 2006"))
	add("Account Information", "Header", "Field Name", "Field Value")
	add("Account Information", "Data", "Name", pick(r, []string{"John Doe", "Jörg \"JM\" Müller", "A, B"}))
	add("Account Information", "Data", "Base Currency", base)
	if r.chance(60) {
		add("Net Asset Value", "Header", "Asset Class", "Prior Total", "Current Long", "Current Short", "Current Total", "Change")
		add("Net Asset Value", "Data", "Cash ", "1000", "2000", "0", "2000", "1000")
		add("Net Asset Value", "Data", "Total", "1000", "2000", "0", "2000", "1000")
	}
	// the positions at the end of the period: what the account held before plus the imported changes
	coms := make([]string, 0, len(hold))
	for com := range hold {
		coms = append(coms, com)
	}
	sort.Strings(coms)
	isCur := map[string]bool{"CHF": true, "EUR": true, "USD": true, "GBP": true}
	if len(coms) > 0 {
		add("Open Positions", "Header", "DataDiscriminator", "Asset Category", "Currency", "Symbol", "Quantity", "Mult", "Cost Price", "Cost Basis", "Close Price", "Value", "Unrealized P/L", "Unrealized P/L %", "Code")
	}
	for _, com := range coms {
		if !isCur[com] && r.chance(80) {
			add("Open Positions", "Data", "Summary", "Stocks", "USD", com, c13bCanon(hold[com]), "1", "100.00", "100.00", "100.00", "100.00", "100.00", "100.00", "")
			c.asserts = append(c.asserts, c13bFact{endDay, []c13bTerm{{com, c13bCanon(hold[com])}}})
		}
	}
	if len(coms) > 0 {
		add("Open Positions", "Total", "", "Stocks", "USD", "", "", "", "", "100.00", "", "100.00", "100.00", "", "")
		add("Forex Balances", "Header", "Asset Category", "Currency", "Description", "Quantity", "Cost Price", "Cost Basis in "+base, "Close Price", "Value in "+base, "Unrealized P/L in "+base, "Code")
	}
	for _, com := range coms {
		if isCur[com] && r.chance(80) {
			q := new(big.Rat).Set(hold[com]) // the exact cash balance
			add("Forex Balances", "Data", "Forex", base, com, c13bIBNum(r, q, 9), "1", "-320.07", "1", "320.07", "0", "")
			c.asserts = append(c.asserts, c13bFact{endDay, []c13bTerm{{com, c13bCanon(q)}}})
		}
	}
	if len(coms) > 0 {
		add("Forex Balances", "Total", "", "", "", "", "", "100", "", "100", "0", "")
	}
	order := []string{"Trades", "Deposits & Withdrawals", "Dividends", "Withholding Tax", "Interest"}
	headers := map[string][]string{
		"Trades":                 {"Trades", "Header", "DataDiscriminator", "Asset Category", "Currency", "Symbol", "Date/Time", "Quantity", "T. Price", "C. Price", "Proceeds", "Comm/Fee", "Basis", "Realized P/L", "Realized P/L %", "MTM P/L", "Code"},
		"Deposits & Withdrawals": {"Deposits & Withdrawals", "Header", "Currency", "Settle Date", "Description", "Amount"},
		"Dividends":              {"Dividends", "Header", "Currency", "Date", "Description", "Amount"},
		"Withholding Tax":        {"Withholding Tax", "Header", "Currency", "Date", "Description", "Amount", "Code"},
		"Interest":               {"Interest", "Header", "Currency", "Date", "Description", "Amount"}}
	for _, sec := range order {
		rows := sections[sec]
		if len(rows) == 0 && r.chance(70) {
			continue
		}
		out = append(out, headers[sec])
		out = append(out, rows...)
		switch sec {
		case "Trades":
			if len(rows) > 0 {
				add("Trades", "SubTotal", "", "Stocks", "USD", "AAPL", "", "7", "", "", "-70.00", "-1.00", "71", "0", "0", "40.425", "")
				add("Trades", "Total", "", "Stocks", "USD", "", "", "", "", "", "-70.00", "-1.00", "71", "0", "0", "40.425", "")
			}
		case "Withholding Tax":
			add(sec, "Data", "Total", "", "", "-1.23", "")
			add(sec, "Data", "Total in "+base, "", "", "-1.11", "")
		default:
			add(sec, "Data", "Total", "", "", "1000")
			if r.chance(50) {
				add(sec, "Data", "Total in "+base, "", "", "900.5")
			}
		}
	}
	if r.chance(50) {
		add("Codes", "Header", "Code", "Meaning")
		add("Codes", "Data", "O", "Opening Trade")
	}
	var b strings.Builder
	for _, fields := range out {
		for k, f := range fields {
			if k > 0 {
				b.WriteByte(',')
			}
			if strings.ContainsAny(f, ",\"") || strings.HasPrefix(f, " ") {
				b.WriteString("\"" + strings.ReplaceAll(f, "\"", "\"\"") + "\"")
			} else {
				b.WriteString(f)
			}
		}
		b.WriteString("\n")
	}
	c.file = []byte(b.String())
	return c
}

// ---------------------------------------------------------------- generator entry

var c13bGenFuncs = map[string]func(r *rng, mal string) c13bCase{
	"revolut2": c13bGenRevolut2, "revolut": c13bGenRevolut, "wise": c13bGenWise,
	"swissquote": c13bGenSwissquote, "interactivebrokers": c13bGenIB,
}

var c13bMalKinds = []string{"date", "datefmt", "amount", "cols", "cur", "acct", "quote"}

// genC13b: n well-formed statements per importer and n/3 damaged ones; args may name a subset
// of importers.
// op C13.revolut2files: `knut import revolut2 A.csv B.csv` (the importer takes one statement file per account);
// input = case of A ++ " ## " ++ hex of B ++ " | " ++ items of B
func c13bObserveFiles(in string) string {
	parts := strings.SplitN(in, " ## ", 2)
	c := c13bDecode(parts[0])
	second, _ := hex.DecodeString(strings.SplitN(parts[1], " | ", 2)[0])
	var out string
	withTempDir(func(dir string) {
		f1 := writeFileBytes(dir, "a.csv", c.file)
		f2 := writeFileBytes(dir, "b.csv", second)
		args := []string{"import", c13bUse["revolut2"]}
		for _, k := range c13bFlagNames {
			if v, ok := c.flags[k]; ok {
				args = append(args, c13bFlagOpt[k], v)
			}
		}
		r := runKnut(knutBin(), dir, nil, 20*time.Second, append(args, f1, f2)...)
		pr := "na"
		if r.class() == "OK" {
			pr = c13bPrintCheck(dir, c, r.Stdout)
		}
		out = renderRun(r) + " | print=" + pr + " | rows=na"
	})
	return out
}

func genC13bFiles(out *caseWriter, seed uint64, n int, _ []string) error {
	var items []caseIn
	for i := 0; i < n; i++ {
		r := newRng(seed, "C13b.files", i)
		a, b := c13bGenRevolut2(r, ""), c13bGenRevolut2(r, "")
		a.kind = "wf"
		in := a.enc() + " ## " + hex.EncodeToString(b.file) + " | " + c13aEncItems(c13bReadItems("revolut2", b.file))
		items = append(items, caseIn{fmt.Sprintf("C13b-files-%d-%d", seed, i), "C13.revolut2files", in})
	}
	out.addBatch(items)
	return nil
}

func genC13b(out *caseWriter, seed uint64, n int, args []string) error {
	imps := c13bImporters
	if len(args) > 0 {
		imps = args
	}
	var items []caseIn
	for _, imp := range imps {
		g, ok := c13bGenFuncs[imp]
		if !ok {
			return fmt.Errorf("unknown importer %s", imp)
		}
		for i := 0; i < n; i++ {
			r := newRng(seed, "C13b."+imp, i)
			c := g(r, "")
			c.kind = "wf"
			items = append(items, caseIn{fmt.Sprintf("C13b-%s-%d-%d", imp, seed, i), "C13." + imp, c.enc()})
		}
		for i := 0; i < (n+2)/3; i++ {
			r := newRng(seed, "C13b.mal."+imp, i)
			mal := c13bMalKinds[i%len(c13bMalKinds)]
			c := g(r, mal)
			c.kind = "mal:" + mal
			c.facts, c.asserts = nil, nil
			if mal == "acct" {
				// one of the account flags is invalid or omitted (all are required)
				names := make([]string, 0, len(c.flags))
				for _, k := range c13bFlagNames {
					if _, ok := c.flags[k]; ok {
						names = append(names, k)
					}
				}
				k := pick(r, names)
				if r.chance(25) {
					delete(c.flags, k)
				} else {
					c.flags[k] = pick(r, c13bBadAccts)
				}
			}
			items = append(items, caseIn{fmt.Sprintf("C13b-%s-mal-%d-%d", imp, seed, i), "C13." + imp, c.enc()})
		}
	}
	out.addBatch(items)
	return nil
}
