package main

// C14, flag values: the value parsers behind knut's flags, called in-process.
//
// op C14.flag, input: <kind> <hex value>      ("-" = the empty string)
//   int64   pflag IntVar   (--last)             observed: ok <n> | err syntax | err range
//   int32   pflag Int32Var (--digits)           observed: ok <n> | err syntax | err range
//   bool    pflag BoolVar  (--color=..., ...)   observed: ok true|false | err
//   date    flags.DateFlag.Set (--from, --to)   observed: ok <yyyy-mm-dd> | err
//   rx      flags.RegexFlag.Set                 observed: ok m=<0/1 per probe string> | err
//   map     flags.MappingFlag.Set (-m)          observed: ok <level> <suffix> <hex regex or -> | err
//   com     commodity registry Get (-v)         observed: ok | err
// The model (Model/Flags.v) prints the same; for a regular expression outside its sublanguage it prints "?".

import (
	"fmt"
	"strings"

	"github.com/spf13/pflag"

	"github.com/sboehler/knut/cmd/flags"
	"github.com/sboehler/knut/lib/model/registry"
)

func init() {
	observers["C14.flag"] = obsC14Flag
	gens["C14flag"] = genC14Flag
}

// the strings a regular expression is tried on (the driver has the same list)
var c14RxProbes = []string{"", "Assets", "Assets:Bank", "Assets:Bank:Savings", "Expenses:Rent", "Income:Salary", "Equity:Equity",
	"Expenses:TBD", "CHF", "USD", "assets", "a", "ab", "b", "aab", "abab", "xay"}

func numErr(err error) string {
	if strings.Contains(err.Error(), "value out of range") {
		return "err range"
	}
	return "err syntax"
}

func obsC14Flag(in string) string {
	f := strings.Fields(in)
	if len(f) != 2 {
		return "bad input"
	}
	v := unhx(f[1])
	switch f[0] {
	case "int64":
		fs := pflag.NewFlagSet("x", pflag.ContinueOnError)
		var n int
		fs.IntVar(&n, "last", 0, "")
		if err := fs.Set("last", v); err != nil {
			return numErr(err)
		}
		return fmt.Sprintf("ok %d", n)
	case "int32":
		fs := pflag.NewFlagSet("x", pflag.ContinueOnError)
		var n int32
		fs.Int32Var(&n, "digits", 0, "")
		if err := fs.Set("digits", v); err != nil {
			return numErr(err)
		}
		return fmt.Sprintf("ok %d", n)
	case "bool":
		fs := pflag.NewFlagSet("x", pflag.ContinueOnError)
		var b bool
		fs.BoolVar(&b, "color", true, "")
		if err := fs.Set("color", v); err != nil {
			return "err"
		}
		return fmt.Sprintf("ok %v", b)
	case "date":
		var d flags.DateFlag
		if err := d.Set(v); err != nil {
			return "err"
		}
		return "ok " + d.Value().Format("2006-01-02")
	case "rx":
		var rf flags.RegexFlag
		if err := rf.Set(v); err != nil {
			return "err"
		}
		var b strings.Builder
		for _, p := range c14RxProbes {
			b.WriteString(b2s(rf.Regex().MatchString(p)))
		}
		return "ok m=" + b.String()
	case "map":
		var mf flags.MappingFlag
		if err := mf.Set(v); err != nil {
			return "err"
		}
		m := mf.Value()
		if len(m) != 1 {
			return fmt.Sprintf("ok but %d rules", len(m))
		}
		rx := "-"
		if m[0].Regex != nil {
			rx = "x" + hx(m[0].Regex.String())
		}
		return fmt.Sprintf("ok %d %d %s", m[0].Level, m[0].Suffix, rx)
	case "com":
		if _, err := registry.New().Commodities().Get(v); err != nil {
			return "err"
		}
		return "ok"
	}
	return "bad kind"
}

const c14RxAlphabet = "aab(){}[]|*+?^$.\\,012:-iP<sU"

func c14RandRx(r *rng) string {
	switch r.intn(10) {
	case 0:
		return pick(r, c14Rx)
	case 1:
		// the generators' own language: alternatives of ^?literal$?
		var alts []string
		for k := r.rangeInt(1, 3); k > 0; k-- {
			a := pick(r, []string{"Assets", "Expenses", "Bank", "CHF", "a", "ab", "", "Income:Salary", "s"})
			if r.chance(30) {
				a = "^" + a
			}
			if r.chance(30) {
				a += "$"
			}
			alts = append(alts, a)
		}
		return strings.Join(alts, "|")
	case 2:
		// counted repetitions
		mk := func() string {
			lo, hi := pick(r, []string{"0", "1", "2", "3", "999", "1000", "1001", "01", "", "100000000", "99999999"}), pick(r, []string{"0", "1", "2", "5", "1000", "1001", "", "00"})
			switch r.intn(4) {
			case 0:
				return "{" + lo + "}"
			case 1:
				return "{" + lo + ",}"
			case 2:
				return "{" + lo + "," + hi + "}"
			}
			return "{" + lo + "," + hi
		}
		s := pick(r, []string{"a", "(a)", "(a|b)", ".", "", "^", "a*", "(?i)a", "\\d", "(", "|"}) + mk()
		if r.chance(40) {
			s += pick(r, []string{"?", "*", "+", "??", mk(), "b" + mk(), ")" + mk()})
		}
		if r.chance(20) {
			s = "(" + s + ")" + mk()
		}
		return s
	case 3:
		// Perl groups and escapes
		s := pick(r, []string{"(?i)", "(?i:", "(?:", "(?-i)", "(?i-s:", "(?-)", "(?--i)", "(?", "(?i", "(?x)", "(?P<n>", "(?<n>", "(?U)", "(?s-:", "(?m)", "(?i-)"})
		s += pick(r, []string{"a", "a)", "a*", "*", "", ")", "a|b)", "a))"})
		if r.chance(30) {
			s += pick(r, []string{"\\.", "\\d+", "\\", "\\q", "\\z", "\\b*", "\\$"})
		}
		return s
	}
	if r.chance(50) {
		// a sequence of tokens
		toks := []string{"a", "b", "ab", ".", "^", "$", "|", "(", ")", "(?:", "(?i)", "*", "+", "?", "*?", "+?", "??", "{2}", "{1,3}", "{2,}", "{0}", "{1}", "{,3}", "{", "}", "{2", "{2,x}",
			"\\.", "\\d", "\\(", "\\", "[", "]", "[a]", ":", "-", ",", "1", "0", " ", "A"}
		var b strings.Builder
		for n := r.intn(8); n > 0; n-- {
			b.WriteString(pick(r, toks))
		}
		return b.String()
	}
	n := r.intn(13)
	b := make([]byte, n)
	for i := range b {
		b[i] = c14RxAlphabet[r.intn(len(c14RxAlphabet))]
	}
	return string(b)
}

func c14RandInt(r *rng) string {
	switch r.intn(8) {
	case 0:
		return pick(r, c14Ints)
	case 1:
		return pick(r, []string{"2147483647", "2147483648", "-2147483648", "-2147483649", "9223372036854775807", "9223372036854775808",
			"-9223372036854775808", "-9223372036854775809", "18446744073709551615", "18446744073709551616", "0x7fffffff", "0x80000000", "-0x80000000",
			"0x7fffffffffffffff", "0x8000000000000000", "-0x8000000000000000", "0xffffffffffffffff", "0x10000000000000000",
			"0777", "0o17777777777", "0o20000000000", "0b1111111111111111111111111111111", "0b10000000000000000000000000000000",
			"1_000", "1__000", "_1", "1_", "0_7", "0x_ff", "0_x1", "0x", "0b", "0o", "00", "08", "0b2", "0xg", "+1", "+-1", "--1", "+", "-", " 1", "1 ", "1e3", "١"})
	}
	const al = "0123456789_xXbBoOabcdefABCDEFg+- "
	var b strings.Builder
	if r.chance(40) {
		b.WriteString(pick(r, []string{"-", "+", "-", ""}))
	}
	if r.chance(40) {
		b.WriteString(pick(r, []string{"0x", "0X", "0b", "0o", "0", "0O", "0B"}))
	}
	for n := r.intn(22); n > 0; n-- {
		if r.chance(85) {
			b.WriteByte("0123456789"[r.intn(10)])
		} else {
			b.WriteByte(al[r.intn(len(al))])
		}
	}
	return b.String()
}

func c14RandDate(r *rng) string {
	switch r.intn(6) {
	case 0:
		return pick(r, c14Dates)
	case 1:
		return fmt.Sprintf("%04d-%02d-%02d", r.rangeInt(0, 9999), r.rangeInt(0, 13), r.rangeInt(0, 32))
	case 2:
		return fmt.Sprintf("%04d-02-%02d", pick(r, []int{1900, 2000, 2020, 2021, 2100, 2400, 0, 4, 100, 400}), r.rangeInt(27, 30))
	case 3:
		return fmt.Sprintf("%d-%d-%d", r.rangeInt(0, 12000), r.rangeInt(0, 13), r.rangeInt(0, 32))
	}
	s := []byte(fmt.Sprintf("%04d-%02d-%02d", r.rangeInt(1, 9999), r.rangeInt(1, 12), r.rangeInt(1, 28)))
	switch r.intn(5) {
	case 0:
		s[r.intn(len(s))] = "0123456789-+ x/٣"[r.intn(16)]
	case 1:
		s = append(s, " T0Z-"[r.intn(5)])
	case 2:
		s = s[:r.intn(len(s))]
	case 3:
		s = append([]byte(pick(r, []string{" ", "+", "-", "0"})), s...)
	}
	return string(s)
}

func c14RandMap(r *rng) string {
	if r.chance(20) {
		return pick(r, c14Maps)
	}
	num := func() string {
		return pick(r, []string{"0", "1", "2", "3", "-1", "-0", "+1", "99", "", "x", "1_0", "0x1", "007", "9223372036854775807", "9223372036854775808",
			"-9223372036854775808", "999999999999999999", "1000000000000000000", " 1", "1 "})
	}
	s := num()
	for k := pick(r, []int{0, 0, 1, 1, 1, 2}); k > 0; k-- {
		s += ":" + num()
	}
	switch r.intn(4) {
	case 0:
	case 1:
		s += ","
	default:
		s += "," + c14RandRx(r)
	}
	return s
}

func genC14Flag(out *caseWriter, seed uint64, n int, args []string) error {
	for i := 0; i < n; i++ {
		r := newRng(seed, "C14flag", i)
		var kind, v string
		switch k := r.intn(100); {
		case k < 25:
			kind, v = pick(r, []string{"int64", "int32"}), c14RandInt(r)
		case k < 40:
			kind, v = "date", c14RandDate(r)
		case k < 70:
			kind, v = "rx", c14RandRx(r)
		case k < 88:
			kind, v = "map", c14RandMap(r)
		case k < 93:
			kind, v = "bool", pick(r, []string{"true", "false", "1", "0", "t", "f", "T", "F", "TRUE", "FALSE", "True", "False", "tRUE", "yes", "no", "", " true", "2", "on"})
		default:
			kind, v = "com", pick(r, append(append([]string{}, c14Coms...), "CHF1", "1A", "Ä", "a b", "a-b", "a_b", "\xff", "A\xc3", "٣", "Ⅷ", "½", "€", "日本"))
		}
		out.add(fmt.Sprintf("C14flag-%d-%d", seed, i), "C14.flag", kind+" "+hx(v))
	}
	return nil
}
