package main

import (
	"fmt"
	"sort"
	"strings"
	"time"

	"github.com/sboehler/knut/lib/common/date"
)

func init() {
	gens["C11"] = genC11
	gens["C11sweep"] = genC11Sweep
	gens["C11cal"] = genC11Cal
	observers["C11.part"] = obsC11Part
	observers["C11.align"] = obsC11Align
	observers["C11.seq"] = obsC11Seq
	observers["C11.cal"] = obsC11Cal
	observers["C11.clip"] = obsC11Clip
	gens["C11clip"] = genC11Clip
	observers["C11.cols"] = obsC11Cols
	gens["C11cols"] = genC11Cols
}

// op C11.cols: the columns of `knut balance --csv` (the header of the report): they are the ends of the periods that
// partition the requested window clipped to the JOURNAL'S period, which journal.Builder derives from the directives
// as they arrive.  input "<balance cfg> | <journal>"  observed "d1,d2,..." | ERR ...
func obsC11Cols(in string) string {
	var out string
	if cfgS, jS := splitInput(in); strings.Contains(" "+cfgS+" ", " noto=1 ") {
		// --to is left out: its default is today, which the generator wrote into the case as `to=`
		cfg := DecodeBalCfg(cfgS)
		cfg.To = "-"
		withTempDir(func(dir string) {
			f := writeFile(dir, "journal.knut", DecodeJournal(jS).Text())
			out = renderRun(runKnut(knutBin(), dir, nil, 20*time.Second, append(cfg.Args(), f)...))
		})
	} else {
		out = obsBalance(in)
	}
	if !strings.HasPrefix(out, "OK ") {
		return out
	}
	head := strings.SplitN(out[3:], "\\n", 2)[0] // the first line of the escaped stdout (esc writes a newline as \n)
	var ds []string
	for _, x := range strings.Split(head, ",") { // "Account,[Comm,]date,date,..."
		if len(x) == 10 && x[4] == '-' && x[7] == '-' {
			ds = append(ds, x)
		}
	}
	return "OK " + strings.Join(ds, ",")
}

// small journals in file orders that matter to a running minimum/maximum: as generated (shuffled), oldest first,
// newest first (seeded change C11e-builder-minmax-switch: the first transaction added only set the minimum, so a
// journal whose first transaction is its latest lost its last columns), a single transaction; windows inside,
// beyond and across the journal's period
func genC11Cols(out *caseWriter, seed uint64, n int, _ []string) error {
	var items []caseIn
	for i := 0; i < n; i++ {
		r := newRng(seed, "C11cols", i)
		o := defaultOpts(r)
		o.accruals, o.perf, o.assertions, o.closes = false, false, false, false
		o.nTxn = r.rangeInt(1, 6)
		o.prices = r.chance(50)
		j := genJournal(r, o)
		switch r.intn(4) {
		case 0:
			sort.SliceStable(j, func(a, b int) bool { return j[a].Date < j[b].Date })
		case 1, 2:
			sort.SliceStable(j, func(a, b int) bool { return j[a].Date > j[b].Date })
		}
		cfg := BalCfg{From: "-", To: dateStr(o.startDate.AddDate(0, 0, o.days+r.rangeInt(-10, 40))), Interval: pick(r, []string{"once", "daily", "weekly", "monthly", "quarterly", "yearly"}), CSV: true, Alpha: true}
		if r.chance(40) {
			cfg.From = dateStr(o.startDate.AddDate(0, 0, r.rangeInt(-30, o.days)))
		}
		if r.chance(30) {
			cfg.Last = r.rangeInt(1, 4)
		}
		enc := cfg.Enc()
		if r.chance(15) {
			// no --to on the command line (the window then ends TODAY) and a journal that reaches into the future -
			// standing orders, budgets, entries made ahead: the columns end today (seeded change
			// C11g-window-end-defaults-to-journal-end let the window run to the journal's last day)
			now := time.Now()
			today := time.Date(now.Year(), now.Month(), now.Day(), 0, 0, 0, 0, time.UTC)
			shift := today.Year() - o.startDate.Year() - r.intn(2)
			for k := range j {
				if t, err := time.Parse("2006-01-02", j[k].Date); err == nil {
					j[k].Date = dateStr(t.AddDate(shift, 0, 0))
				}
			}
			cfg.To = dateStr(today)
			if cfg.From != "-" {
				cfg.From = dateStr(pd(cfg.From).AddDate(shift, 0, 0))
			}
			enc = cfg.Enc() + " noto=1"
		}
		items = append(items, caseIn{fmt.Sprintf("C11cols-%d-%d", seed, i), "C11.cols", enc + " | " + j.Enc()})
	}
	out.addBatch(items)
	return nil
}

// input "<s1> <e1> <s2> <e2> <iv> <last>": the requested period (--from/--to; "-" start = the zero time, no --from)
// and the journal's period, as cmd/flags Multiperiod.Partition combines them: Clip, then NewPartition.
// observed: "<cs>..<ce> | <periods>" (or "... | PANIC")
func obsC11Clip(in string) (res string) {
	f := strings.Fields(in)
	z := func(s string) time.Time {
		if s == "-" {
			return time.Time{}
		}
		return pd(s)
	}
	c := date.Period{Start: z(f[0]), End: z(f[1])}.Clip(date.Period{Start: z(f[2]), End: z(f[3])})
	res = fd(c.Start) + ".." + fd(c.End) + " | "
	if c.Start.IsZero() {
		return res + "NOSTART" // Multiperiod.Partition reports an error (fix c04a731)
	}
	return res + obsC11Part(fmt.Sprintf("%s %s %s %s", fd(c.Start), fd(c.End), f[4], f[5]))
}

// windows and journal periods in every relative position: nested, overlapping at either end, touching, disjoint
// on either side (--to before the first transaction, --from after the last day), inverted requests (--from after --to)
func genC11Clip(out *caseWriter, seed uint64, n int, args []string) error {
	for i := 0; i < n; i++ {
		r := newRng(seed, "C11clip", i)
		js := date.Date(r.rangeInt(2015, 2024), time.Month(r.rangeInt(1, 12)), r.rangeInt(1, 28))
		je := js.AddDate(0, 0, r.rangeInt(0, 500))
		pts := []time.Time{js.AddDate(0, 0, -r.rangeInt(1, 400)), js.AddDate(0, 0, -1), js, js.AddDate(0, 0, 1),
			js.AddDate(0, 0, r.rangeInt(0, 500)), je.AddDate(0, 0, -1), je, je.AddDate(0, 0, 1), je.AddDate(0, 0, r.rangeInt(1, 400))}
		ws, we := pick(r, pts), pick(r, pts)
		from := fd(ws)
		if r.chance(25) {
			from = "-"
		}
		iv := intervals[r.intn(len(intervals))]
		last := 0
		if r.chance(30) {
			last = r.rangeInt(1, 6)
		}
		out.add(fmt.Sprintf("C11clip-%d-%d", seed, i), "C11.clip", fmt.Sprintf("%s %s %s %s %s %d", from, fd(we), fd(js), fd(je), iv, last))
	}
	return nil
}

var intervals = []date.Interval{date.Once, date.Daily, date.Weekly, date.Monthly, date.Quarterly, date.Yearly}

func fd(t time.Time) string { return t.Format("2006-01-02") }
func pd(s string) time.Time {
	t, err := time.Parse("2006-01-02", s)
	if err != nil {
		panic(err)
	}
	return t
}

func parseC11Input(in string) (s, e time.Time, iv date.Interval, last int, rest string) {
	f := strings.Fields(in)
	s, e = pd(f[0]), pd(f[1])
	iv, _ = date.ParseInterval(f[2])
	fmt.Sscanf(f[3], "%d", &last)
	if len(f) > 4 {
		rest = f[4]
	}
	return
}

// input "<s> <e> <iv> <last>": periods "a..b,c..d" or PANIC
func obsC11Part(in string) (res string) {
	defer func() {
		if r := recover(); r != nil {
			res = "PANIC"
		}
	}()
	s, e, iv, last, _ := parseC11Input(in)
	part := date.NewPartition(date.Period{Start: s, End: e}, iv, last)
	sd, ed := part.StartDates(), part.EndDates()
	var sb strings.Builder
	for i := range sd {
		if i > 0 {
			sb.WriteByte(',')
		}
		sb.WriteString(fd(sd[i]) + ".." + fd(ed[i]))
	}
	return sb.String()
}

// input "<s> <e> <iv> <last1,last2,...>": a history of NewPartition calls on one window with different
// `last` values, made one after the other in this process (the result of a call must not depend on
// earlier calls: accrual expansion and the report both ask for partitions in one knut run; seeded
// change C11-partition-cache-ignores-last).  observed: the results joined by " / "
func obsC11Seq(in string) string {
	f := strings.Fields(in)
	var out []string
	for _, l := range strings.Split(f[3], ",") {
		out = append(out, obsC11Part(fmt.Sprintf("%s %s %s %s", f[0], f[1], f[2], l)))
	}
	return strings.Join(out, " / ")
}

// input "<s> <e> <iv> <last> <d1,d2,..>": Align of each probe ("-" for the zero time);
// "!contains" is appended when Partition.Contains disagrees with the window
func obsC11Align(in string) (res string) {
	defer func() {
		if r := recover(); r != nil {
			res = "PANIC"
		}
	}()
	s, e, iv, last, ds := parseC11Input(in)
	part := date.NewPartition(date.Period{Start: s, End: e}, iv, last)
	align := part.Align()
	var rs []string
	for _, p := range strings.Split(ds, ",") {
		d := pd(p)
		a := align(d)
		x := "-"
		if !a.IsZero() {
			x = fd(a)
		}
		if part.Contains(d) != (!d.Before(s) && !d.After(e)) {
			x += "!contains"
		}
		rs = append(rs, x)
	}
	return strings.Join(rs, ",")
}

// input "<date> <years> <months> <days>": AddDate, Weekday, StartOf x6, EndOf x6
func obsC11Cal(in string) string {
	f := strings.Fields(in)
	d := pd(f[0])
	var y, m, dd int
	fmt.Sscanf(f[1]+" "+f[2]+" "+f[3], "%d %d %d", &y, &m, &dd)
	parts := []string{fd(d.AddDate(y, m, dd)), fmt.Sprint(int(d.Weekday()))}
	for _, iv := range intervals {
		parts = append(parts, fd(date.StartOf(d, iv)))
	}
	for _, iv := range intervals {
		parts = append(parts, fd(date.EndOf(d, iv)))
	}
	return strings.Join(parts, " ")
}

func randDate(r *rng) time.Time {
	switch r.intn(10) {
	case 0: // month ends, leap days
		y := r.rangeInt(1896, 2104)
		m := r.rangeInt(1, 12)
		return date.Date(y, time.Month(m+1), 0).AddDate(0, 0, r.rangeInt(-1, 1))
	case 1: // far dates
		return date.Date(r.rangeInt(1, 9990), time.Month(r.rangeInt(1, 12)), r.rangeInt(1, 28))
	default:
		return date.Date(r.rangeInt(1995, 2030), time.Month(r.rangeInt(1, 12)), r.rangeInt(1, 31))
	}
}

func c11Probes(r *rng, s, e time.Time, periods string) string {
	var probes []time.Time
	probes = append(probes, s.AddDate(0, 0, -40), s.AddDate(0, 0, -1), s, s.AddDate(0, 0, 1), e.AddDate(0, 0, -1), e, e.AddDate(0, 0, 1), e.AddDate(0, 0, 400))
	if periods != "" && periods != "PANIC" {
		ps := strings.Split(periods, ",")
		for k := 0; k < 6; k++ {
			x := pd(strings.Split(ps[r.intn(len(ps))], "..")[1])
			probes = append(probes, x, x.AddDate(0, 0, 1))
		}
	}
	span := int(e.Sub(s).Hours()/24) + 60
	if span < 1 {
		span = 60
	}
	for k := 0; k < 6; k++ {
		probes = append(probes, s.AddDate(0, 0, r.intn(span)-30))
	}
	var ds []string
	for _, p := range probes {
		if p.Year() >= 1 && p.Year() <= 9999 {
			ds = append(ds, fd(p))
		}
	}
	return strings.Join(ds, ",")
}

// genC11: random windows x intervals x last, each with Align probes
func genC11(out *caseWriter, seed uint64, n int, _ []string) error {
	for i := 0; i < n; i++ {
		r := newRng(seed, "C11", i)
		s := randDate(r)
		var e time.Time
		switch r.intn(10) {
		case 0:
			e = s.AddDate(0, 0, -r.rangeInt(1, 400)) // inverted
		case 1:
			e = s
		case 2, 3:
			e = s.AddDate(0, 0, r.rangeInt(0, 70))
		case 4:
			e = s.AddDate(r.rangeInt(1, 30), r.rangeInt(0, 11), r.rangeInt(0, 30))
		default:
			e = s.AddDate(0, r.rangeInt(0, 40), r.rangeInt(0, 30))
		}
		if e.Year() > 9999 || e.Year() < 1 {
			e = s
		}
		iv := pick(r, intervals)
		if iv == date.Daily && e.Sub(s).Hours()/24 > 1500 {
			iv = date.Weekly
		}
		last := 0
		if r.chance(45) {
			last = pick(r, []int{1, 1, 2, 3, 5, 12, 100})
		}
		in := fmt.Sprintf("%s %s %s %d", fd(s), fd(e), iv, last)
		id := fmt.Sprintf("C11-%d-%d", seed, i)
		res := out.add(id+".p", "C11.part", in)
		if res != "PANIC" {
			out.add(id+".a", "C11.align", in+" "+c11Probes(r, s, e, res))
		}
		if i%5 == 0 {
			// the same window asked for again with other values of `last`, in both directions
			ls := []string{"0", "2", "1", "0", "100", "3"}
			r.shuffle(len(ls), func(a, b int) { ls[a], ls[b] = ls[b], ls[a] })
			out.add(id+".s", "C11.seq", fmt.Sprintf("%s %s %s %s", fd(s), fd(e), iv, strings.Join(ls, ",")))
		}
	}
	return nil
}

// genC11Sweep: every (s, e) with s in [from, to], e in [s-2, to] (args) x 6 intervals x last in {0,1,2,5,100}
func genC11Sweep(out *caseWriter, seed uint64, _ int, args []string) error {
	from, to := pd(args[0]), pd(args[1])
	i := 0
	for s := from; !s.After(to); s = s.AddDate(0, 0, 1) {
		for e := s.AddDate(0, 0, -2); !e.After(to); e = e.AddDate(0, 0, 1) {
			for _, iv := range intervals {
				for _, last := range []int{0, 1, 2, 5, 100} {
					out.add(fmt.Sprintf("C11s-%d-%d", seed, i), "C11.part", fmt.Sprintf("%s %s %s %d", fd(s), fd(e), iv, last))
					i++
				}
			}
		}
	}
	return nil
}

// genC11Cal: Go's calendar on n days starting at args[0], stepping args[1] days
func genC11Cal(out *caseWriter, seed uint64, n int, args []string) error {
	d := pd(args[0])
	step := 1
	if len(args) > 1 {
		fmt.Sscanf(args[1], "%d", &step)
	}
	for i := 0; i < n; i++ {
		r := newRng(seed, "C11cal", i)
		y, m, dd := r.rangeInt(-2, 2), r.rangeInt(-14, 14), r.rangeInt(-40, 40)
		if r.chance(50) {
			y, m = 0, r.rangeInt(-3, 3)
		}
		if t := d.AddDate(y, m, dd); t.Year() < 1 || t.Year() > 9999 {
			y, m, dd = 0, 0, 0
		}
		out.add(fmt.Sprintf("C11c-%d-%s-%d", seed, args[0], i), "C11.cal", fmt.Sprintf("%s %d %d %d", fd(d), y, m, dd))
		d = d.AddDate(0, 0, step)
		if d.Year() > 9998 {
			break
		}
	}
	return nil
}
