package main

// C14, regular expressions on all strings: regexp/syntax.Parse(s, syntax.Perl) - the parser behind
// regexp.Compile, which knut's RegexFlag.Set and MappingFlag.Set call - against Model/RxSyntax.v.
//
// op C14.rx, input: <hex of the expression>   ("-" = the empty string)
//   observed: ok <tree> set=ok | err <ErrorCode> set=err
//   <tree>: op{Flags} followed by the runes of a literal "r,r", the ranges of a class [lo-hi,...], #cap<name> of a
//   capture, {min,max} of a repeat, and the sub-expressions (a b c); a tree of more than 4000 bytes is given as
//   #<length>:<FNV-1a 64 of the text>.  set=: what flags.RegexFlag.Set (knut) says about the same string.
// The generator is grammar-directed (mostly valid or one edit away), with families for the shapes the parser
// rewrites (factoring of alternations, class merging, case folding), every Unicode class name of the toolchain,
// and the limits (repeat product 1000, nesting depth 1000, compiled size, rune count).

import (
	"fmt"
	"regexp"
	"regexp/syntax"
	"sort"
	"strconv"
	"strings"
	"unicode"

	"github.com/sboehler/knut/cmd/flags"
)

func init() {
	observers["C14.rx"] = obsC14Rx
	gens["C14rx"] = genC14Rx
}

var rxOpNames = map[syntax.Op]string{1: "nomatch", 2: "empty", 3: "lit", 4: "cc", 5: "anynl", 6: "any", 7: "bol", 8: "eol", 9: "bot", 10: "eot",
	11: "wb", 12: "nwb", 13: "cap", 14: "star", 15: "plus", 16: "quest", 17: "rep", 18: "cat", 19: "alt"}

var rxErrNames = map[syntax.ErrorCode]string{
	syntax.ErrInvalidCharClass: "ErrCharClass", syntax.ErrInvalidCharRange: "ErrCharRange", syntax.ErrInvalidEscape: "ErrEscape",
	syntax.ErrInvalidNamedCapture: "ErrNamedCapture", syntax.ErrInvalidPerlOp: "ErrPerlOp", syntax.ErrInvalidRepeatOp: "ErrRepeatOp",
	syntax.ErrInvalidRepeatSize: "ErrRepeatSize", syntax.ErrInvalidUTF8: "ErrUTF8", syntax.ErrMissingBracket: "ErrMissingBracket",
	syntax.ErrMissingParen: "ErrMissingParen", syntax.ErrMissingRepeatArgument: "ErrMissingRepeatArg",
	syntax.ErrTrailingBackslash: "ErrTrailingBackslash", syntax.ErrUnexpectedParen: "ErrUnexpectedParen",
	syntax.ErrNestingDepth: "ErrNestingDepth", syntax.ErrLarge: "ErrLarge", syntax.ErrInternalError: "ErrInternal"}

func rxDump(b *strings.Builder, re *syntax.Regexp) {
	b.WriteString(rxOpNames[re.Op])
	b.WriteString("{")
	b.WriteString(strconv.Itoa(int(re.Flags)))
	b.WriteString("}")
	switch re.Op {
	case syntax.OpLiteral:
		b.WriteString("\"")
		for i, r := range re.Rune {
			if i > 0 {
				b.WriteString(",")
			}
			b.WriteString(strconv.Itoa(int(r)))
		}
		b.WriteString("\"")
	case syntax.OpCharClass:
		b.WriteString("[")
		for i := 0; i+1 < len(re.Rune); i += 2 {
			if i > 0 {
				b.WriteString(",")
			}
			b.WriteString(strconv.Itoa(int(re.Rune[i])))
			b.WriteString("-")
			b.WriteString(strconv.Itoa(int(re.Rune[i+1])))
		}
		b.WriteString("]")
	case syntax.OpCapture:
		fmt.Fprintf(b, "#%d<%s>", re.Cap, re.Name)
	case syntax.OpRepeat:
		fmt.Fprintf(b, "{%d,%d}", re.Min, re.Max)
	}
	if len(re.Sub) > 0 {
		b.WriteString("(")
		for i, s := range re.Sub {
			if i > 0 {
				b.WriteString(" ")
			}
			rxDump(b, s)
		}
		b.WriteString(")")
	}
}

func rxFnv(s string) uint64 {
	h := uint64(14695981039346656037)
	for i := 0; i < len(s); i++ {
		h ^= uint64(s[i])
		h *= 1099511628211
	}
	return h
}

func obsC14Rx(in string) string {
	s := unhx(strings.TrimSpace(in))
	var rf flags.RegexFlag
	set := "ok"
	if err := rf.Set(s); err != nil {
		set = "err"
	}
	re, err := syntax.Parse(s, syntax.Perl)
	_, cerr := regexp.Compile(s)
	if (err == nil) != (cerr == nil) {
		return fmt.Sprintf("compile-differs parse=%v compile=%v set=%s", err, cerr, set)
	}
	if err != nil {
		se, ok := err.(*syntax.Error)
		if !ok {
			return "err ? set=" + set
		}
		return "err " + rxErrNames[se.Code] + " set=" + set
	}
	var b strings.Builder
	rxDump(&b, re)
	t := b.String()
	if len(t) > 4000 {
		t = fmt.Sprintf("#%d:%016x", len(t), rxFnv(t))
	}
	return "ok " + t + " set=" + set
}

var rxLits = []string{"a", "b", "c", "d", "x", "y", "A", "B", "k", "K", "s", "S", "ſ", "K", "é", "É", "σ", "ς", "Σ", "δ", "Δ", "ǅ", "ǆ", "Ǆ",
	"0", "1", "9", " ", "-", ":", ",", "_", "\n", "\t", "日", "😀", "ẞ", "ß", "\U0001e943", "\U0001e921", "İ", "ı", "i", "I", "\x00", "µ", "μ", "Μ", "z", "Z", "~", "}", "]"}

var rxEscapes = []string{`\.`, `\\`, `\(`, `\)`, `\[`, `\]`, `\{`, `\}`, `\*`, `\+`, `\?`, `\|`, `\^`, `\$`, `\-`, `\_`, `\/`, `\ `, `\"`, `\~`,
	`\a`, `\f`, `\t`, `\n`, `\r`, `\v`, `\0`, `\00`, `\012`, `\101`, `\123`, `\377`, `\1234`, `\08`, `\12`, `\x41`, `\x6b`, `\xff`, `\x{41}`, `\x{10FFFF}`, `\x{0}`,
	`\x{212a}`, `\x{17F}`, `\x{0041}`}
var rxBadEscapes = []string{`\1`, `\8`, `\9`, `\q`, `\e`, `\c`, `\C`, `\Z`, `\G`, `\X`, `\x`, `\x4`, `\xg1`, `\x1g`, `\x{}`, `\x{110000}`, `\x{41`, `\x{4g}`, `\x{ 41}`,
	`\k`, `\é`, `\日`, `\18`, `A`, `\N`, `\h`, `\R`, `\y`, `\i`, `\l`, `\o`, `\E`}
var rxZeroWidth = []string{`^`, `$`, `\A`, `\z`, `\b`, `\B`}
var rxPerlClass = []string{`\d`, `\D`, `\s`, `\S`, `\w`, `\W`}
var rxPosix = []string{"alnum", "alpha", "ascii", "blank", "cntrl", "digit", "graph", "lower", "print", "punct", "space", "upper", "word", "xdigit"}
var rxBadPosix = []string{"alph", "ALPHA", "", "^", "alpha ", "foo", "^^alpha", "digit:"}
var rxUniNames []string
var rxBadUniNames = []string{"", "^", "Foo", "l", "latin", "Any ", "any", "IsLatin", "L&", "Lu|Ll", "^^L", "Greek}", "é", "LC", "Inherited "}

func init() {
	for k := range unicode.Categories {
		rxUniNames = append(rxUniNames, k)
	}
	for k := range unicode.Scripts {
		rxUniNames = append(rxUniNames, k)
	}
	rxUniNames = append(rxUniNames, "Any")
	sort.Strings(rxUniNames)
}

var rxCommonUni = []string{"L", "Lu", "Ll", "Lt", "N", "Nd", "Greek", "Latin", "Any", "Z", "Zs", "P", "Sc", "Han", "Cyrillic", "Cherokee", "Adlam", "M", "C", "Cc", "Co", "Cs", "Braille", "Common", "Inherited"}

func rxUniClass(r *rng) string {
	name := ""
	switch r.intn(10) {
	case 0:
		name = pick(r, rxBadUniNames)
	case 1, 2, 3:
		name = pick(r, rxUniNames)
	default:
		name = pick(r, rxCommonUni)
	}
	p := pick(r, []string{`\p`, `\p`, `\P`})
	if r.chance(25) {
		name = "^" + name
	}
	if len(name) == 1 && r.chance(60) {
		return p + name
	}
	s := p + "{" + name + "}"
	if r.chance(3) {
		s = p + "{" + name
	}
	return s
}

func rxClassItem(r *rng) string {
	switch r.intn(14) {
	case 0:
		return pick(r, rxPerlClass)
	case 1:
		n := pick(r, rxPosix)
		if r.chance(8) {
			n = pick(r, rxBadPosix)
		}
		if r.chance(25) {
			n = "^" + n
		}
		s := "[:" + n + ":]"
		if r.chance(5) {
			s = "[:" + n
		}
		return s
	case 2:
		return rxUniClass(r)
	case 3:
		return pick(r, rxEscapes)
	case 4:
		if r.chance(30) {
			return pick(r, rxBadEscapes)
		}
		return pick(r, []string{`\b`, `\A`, `\z`, `\B`, `\Q`, `\pN`})
	case 5, 6, 7:
		lo, hi := pick(r, rxLits), pick(r, rxLits)
		if r.chance(85) && lo > hi {
			lo, hi = hi, lo
		}
		if r.chance(20) {
			lo = pick(r, rxEscapes)
		}
		if r.chance(20) {
			hi = pick(r, rxEscapes)
		}
		return lo + "-" + hi
	case 8:
		return pick(r, []string{"-", "^", "[", "]", ".", "*", "(", ")", "|", "a-", "-a", "--", "a-b-c", "[:", ":]", "[.", "[=a=]", "\\"})
	}
	return pick(r, rxLits)
}

func rxClass(r *rng) string {
	var b strings.Builder
	b.WriteString("[")
	if r.chance(30) {
		b.WriteString("^")
	}
	if r.chance(8) {
		b.WriteString(pick(r, []string{"]", "-", "]-a", "^"}))
	}
	for n := r.rangeInt(0, 4); n > 0; n-- {
		b.WriteString(rxClassItem(r))
	}
	if r.chance(6) {
		b.WriteString("-")
	}
	if !r.chance(3) {
		b.WriteString("]")
	}
	return b.String()
}

func rxCount(r *rng) string {
	num := func() string {
		switch r.intn(10) {
		case 0:
			return pick(r, []string{"1000", "1001", "999", "500", "501", "334", "333", "100000000", "99999999", "999999999", "1000000000", "00", "01", "", "-1", "+1", " 1", "1 "})
		case 1:
			return fmt.Sprint(r.rangeInt(10, 40))
		}
		return fmt.Sprint(r.rangeInt(0, 5))
	}
	switch r.intn(10) {
	case 0:
		return "{" + num() + ",}"
	case 1, 2, 3:
		a, b := num(), num()
		if r.chance(80) && len(a) <= 4 && len(b) <= 4 && (len(a) > len(b) || len(a) == len(b) && a > b) {
			a, b = b, a
		}
		return "{" + a + "," + b + "}"
	case 4:
		return pick(r, []string{"{", "{1", "{1,", "{1,2", "{,2}", "{}", "{a}", "{1,a}", "{1 }", "{1,,2}", "}"})
	}
	return "{" + num() + "}"
}

func rxRepeat(r *rng) string {
	s := ""
	switch r.intn(8) {
	case 0, 1:
		s = "*"
	case 2:
		s = "+"
	case 3, 4:
		s = "?"
	default:
		s = rxCount(r)
	}
	if r.chance(20) {
		s += "?"
	}
	if r.chance(4) {
		s += pick(r, []string{"*", "+", "?", "{2}", "??"})
	}
	return s
}

func rxFlags(r *rng) string {
	switch r.intn(12) {
	case 0:
		return pick(r, []string{"(?", "(?i", "(?-)", "(?-:", "(?i-)", "(?i-:", "(?--i)", "(?i-s-m)", "(?x)", "(?ix)", "(?é)", "(?#c)", "(?=a)", "(?!a)", "(?<=a)", "(?P=n)", "(?P>", "(?'n'a)", "(?\xff)", "(?i\xff)"})
	}
	fl := ""
	for n := r.rangeInt(0, 3); n > 0; n-- {
		fl += pick(r, []string{"i", "i", "i", "m", "s", "U"})
	}
	if r.chance(35) {
		fl += "-"
		for n := r.rangeInt(0, 2); n > 0; n-- {
			fl += pick(r, []string{"i", "i", "m", "s", "U"})
		}
	}
	return "(?" + fl
}

func rxName(r *rng) string {
	if r.chance(12) {
		return pick(r, []string{"", "1", "a-b", "a b", "é", "a>", "n\xff", "_", "9a", "a.b", strings.Repeat("n", 40)})
	}
	return pick(r, []string{"n", "name", "N_1", "x", "_a", "a9"})
}

func rxAtom(r *rng, depth int) string {
	k := r.intn(100)
	switch {
	case k < 30:
		return pick(r, rxLits)
	case k < 34:
		return "."
	case k < 38:
		return pick(r, rxZeroWidth)
	case k < 43:
		return pick(r, rxEscapes)
	case k < 45:
		return pick(r, rxBadEscapes)
	case k < 50:
		return pick(r, rxPerlClass)
	case k < 55:
		return rxUniClass(r)
	case k < 68:
		return rxClass(r)
	case k < 71:
		n := r.rangeInt(0, 4)
		var b strings.Builder
		b.WriteString(`\Q`)
		for ; n > 0; n-- {
			b.WriteString(pick(r, append(rxLits, ".", "*", "(", `\`, "[", `\E`, `\Q`, "|")))
		}
		if r.chance(70) {
			b.WriteString(`\E`)
		}
		return b.String()
	case k < 74:
		// a flag setting without a group
		return rxFlags(r) + ")"
	}
	if depth <= 0 {
		return pick(r, rxLits)
	}
	inner := rxAlt(r, depth-1)
	switch r.intn(10) {
	case 0, 1, 2, 3:
		return "(" + inner + ")"
	case 4, 5, 6:
		return "(?:" + inner + ")"
	case 7:
		return rxFlags(r) + ":" + inner + ")"
	case 8:
		return pick(r, []string{"(?P<", "(?<", "(?P<", "(?<", "(?P", "(?P=", "(?<"}) + rxName(r) + ">" + inner + ")"
	}
	return "(" + inner
}

func rxConcat(r *rng, depth int) string {
	var b strings.Builder
	for n := pick(r, []int{0, 1, 1, 2, 2, 3, 3, 4, 6}); n > 0; n-- {
		b.WriteString(rxAtom(r, depth))
		if r.chance(30) {
			b.WriteString(rxRepeat(r))
		}
	}
	return b.String()
}

func rxAlt(r *rng, depth int) string {
	n := pick(r, []int{1, 1, 1, 2, 2, 3, 4})
	parts := make([]string, n)
	for i := range parts {
		parts[i] = rxConcat(r, depth)
	}
	return strings.Join(parts, "|")
}

// alternations whose branches share prefixes, leading classes or are single characters: factor's four rounds
func rxFactorFamily(r *rng) string {
	words := []string{"a", "ab", "abc", "abd", "abcd", "b", "bc", "ba", "", "A", "Ab", "aB", "k", "K", "K", "ka", "Ka", "s", "ſ", "sa", "ſa",
		".", ".a", ".b", "[ab]", "[ab]c", "[ab]d", "[a-c]", "x*", "x*a", "x*b", "x{2}a", "x{2}b", "x{2,3}a", "x{2,3}b", "[ab]{2}a", "[ab]{2}b", "a{2}", "a{2}b",
		"\\d", "\\da", "\\db", "\\n", "[^a]", "[^\\n]", "(?s:.)", "(?s:.)a", "(a)", "(a)b", "(?:ab)", "(?:a|b)", "(?:ab|ac)", "(?:ab|ac)d", "a|b", "^a", "^b", "$", "\\b", "\\ba", "\\bb",
		"(?i:a)", "(?i:a)b", "(?i:ab)", "(?i:abc)", "(?i:k)", "(?i:k)a", "(?i:s)", "é", "éa", "éb", "σ", "ς", "(?i:σ)", "(?i:σ)a", "a?", "a?b", "a+", "a+b", "a*?", "a*?b",
		"abcde", "abcdf", "abxyz", "aa", "aaa", "aab", "\\x00", "日本", "日", "日a"}
	n := r.rangeInt(2, 7)
	parts := make([]string, n)
	for i := range parts {
		parts[i] = pick(r, words)
		if r.chance(10) {
			parts[i] += pick(r, words)
		}
	}
	if r.chance(50) {
		sort.Strings(parts)
	}
	s := strings.Join(parts, "|")
	switch r.intn(8) {
	case 0:
		s = "(?i)" + s
	case 1:
		s = "(" + s + ")" + pick(r, []string{"", "*", "{2}", "c"})
	case 2:
		s = "x(?:" + s + ")y"
	case 3:
		s = "(?i:" + s + ")|" + s
	}
	return s
}

// expressions near the three limits and the repeat-size rule
func rxLimitFamily(r *rng, big bool) string {
	switch k := r.intn(10); {
	case k < 3:
		// nested repeats around the product 1000
		nums := [][]int{{1000}, {1001}, {10, 100}, {10, 101}, {2, 500}, {2, 501}, {500, 2}, {501, 2}, {10, 10, 10}, {10, 10, 11}, {2, 2, 2, 2, 2, 2, 2, 2, 2, 2}, {2, 2, 2, 2, 2, 2, 2, 2, 2},
			{1000, 1}, {1, 1000}, {1000, 0}, {0, 1000}, {1000, 0, 1000}, {32, 32}, {31, 32}, {999, 1, 1}, {334, 3}, {333, 3}, {3, 334}}
		ns := pick(r, nums)
		s := pick(r, []string{"a", ".", "[ab]", "(a|b)", "ab"})
		for _, n := range ns {
			form := pick(r, []string{"{%d}", "{%d}", "{%d,}", "{0,%d}", "{1,%d}", "{%d,%d}"})
			rep := fmt.Sprintf(form, n, n)
			if strings.Count(form, "%d") == 1 {
				rep = fmt.Sprintf(form, n)
			}
			s = pick(r, []string{"(", "(?:", "(?:x|", "(?:x"}) + s + ")" + rep
			if r.chance(15) {
				s += pick(r, []string{"*", "?", "+"})
			}
		}
		return s
	case k < 6:
		// nesting depth around 1000
		d := r.rangeInt(990, 1010)
		if !big && r.chance(70) {
			d = r.rangeInt(2, 60)
		}
		open := pick(r, []string{"(", "(?:", "(?i:", "(?:a", "(?:a|", "(?P<n>", "(a"})
		shut := pick(r, []string{")", ")*", ")?", "){1,2}", ")b", ")+?"})
		core := pick(r, []string{"a", "", "a|b", "[ab]", "a*", ".", "ab"})
		extra := r.rangeInt(-1, 1)
		if !r.chance(15) {
			extra = 0
		}
		return strings.Repeat(open, d) + core + strings.Repeat(shut, d+extra)
	case k < 8:
		// compiled size around maxSize = 3355443
		unit := pick(r, []string{"a{1000}", ".{1000}", "[ab]{1000}", "(a){500}", "(?:ab){1000}", "a{1000}b{1000}", "(?:a|b){1000}", "a{0,1000}", "a{1000,}", "(?:a*){1000}"})
		n := r.rangeInt(2, 12)
		if big {
			n = pick(r, []int{1100, 1670, 1680, 3340, 3350, 3355, 3356, 3360, 3400, 840, 1118, 1119, 560, 670, 680})
		}
		s := strings.Repeat(unit, n)
		if r.chance(30) {
			s = "(?:" + s + ")" + pick(r, []string{"", "?", "*", "|b"})
		}
		return s
	case k < 9 && big:
		// a long expression (more than 1000 structs: the height and size caches are in use) of random pieces,
		// inside groups up to the depth limit and after counted repetitions that start the size accounting
		var b strings.Builder
		if r.chance(60) {
			b.WriteString(strings.Repeat(pick(r, []string{"a{1000}", "(?:ab){500}", "[ab]{999}"}), r.rangeInt(1, 4)))
		}
		d := pick(r, []int{0, 10, 500, 900, 940, 960, 980, 990})
		open := pick(r, []string{"(", "(?:", "(?i:", "(?:z|", "(?:zz|z"})
		b.WriteString(strings.Repeat(open, d))
		for n := r.rangeInt(150, 500); n > 0; n-- {
			switch r.intn(6) {
			case 0:
				b.WriteString(rxFactorFamily(r))
			case 1:
				b.WriteString("|")
			default:
				b.WriteString(rxConcat(r, 1))
			}
		}
		b.WriteString(strings.Repeat(pick(r, []string{")", ")", ")?", "){2}", ")*"}), d))
		return b.String()
	default:
		// many runes in classes
		unit := pick(r, []string{`\pL`, `\PL`, `[\pL\pN]`, `(?i)\pL`, `\p{Han}`, `[^\pL]`, `\p{Lo}`})
		n := r.rangeInt(1, 6)
		return strings.Repeat(unit, n)
	}
}

func rxMutate(r *rng, s string) string {
	b := []byte(s)
	for n := pick(r, []int{1, 1, 1, 2, 3}); n > 0; n-- {
		special := "()[]{}|*+?^$.\\-,:<>PiQE0123456789"
		switch r.intn(7) {
		case 0:
			if len(b) > 0 {
				i := r.intn(len(b))
				b = append(b[:i], b[i+1:]...)
			}
		case 1, 2:
			i := r.intn(len(b) + 1)
			c := special[r.intn(len(special))]
			b = append(b[:i], append([]byte{c}, b[i:]...)...)
		case 3:
			if len(b) > 0 {
				b[r.intn(len(b))] = special[r.intn(len(special))]
			}
		case 4:
			b = b[:r.intn(len(b)+1)]
		case 5:
			i := r.intn(len(b) + 1)
			c := pick(r, []byte{0xff, 0xc0, 0x80, 0xe2, 0xf4, 0xed, 0xa0, 0xc3})
			b = append(b[:i], append([]byte{c}, b[i:]...)...)
		case 6:
			if len(b) > 1 {
				i, j := r.intn(len(b)), r.intn(len(b))
				b[i], b[j] = b[j], b[i]
			}
		}
	}
	return string(b)
}

// one expression; big allows the expensive near-limit shapes
func rxRandom(r *rng, big bool) string {
	var s string
	switch k := r.intn(100); {
	case k < 45:
		s = rxAlt(r, r.rangeInt(0, 3))
	case k < 65:
		s = rxFactorFamily(r)
	case k < 72:
		s = rxLimitFamily(r, big)
		return s
	case k < 80:
		s = rxClass(r)
		if r.chance(40) {
			s = "(?i)" + s
		}
		if r.chance(30) {
			s += rxRepeat(r)
		}
	case k < 86:
		s = rxUniClass(r)
		if r.chance(40) {
			s = "(?i)" + s
		}
		if r.chance(30) {
			s = "[" + pick(r, []string{"", "^", "a", "^a-z"}) + s + "]"
		}
	case k < 92:
		s = c14RandRx(r)
	default:
		n := r.intn(10)
		b := make([]byte, n)
		const al = "ab(){}[]|*+?^$.\\,012:-iP<>sUQEpd\xc3\xa9\xff "
		for i := range b {
			b[i] = al[r.intn(len(al))]
		}
		s = string(b)
	}
	if r.chance(25) {
		s = rxMutate(r, s)
	}
	return s
}

// fixed cases first: every Unicode class name in four settings, with "big" both sides of the rune limit (found by
// bisection on syntax.Parse), then the random ones.  args: "big" lets the limit family use its expensive shapes
// (depth 1000, thousands of counted repetitions, long expressions).
func genC14Rx(out *caseWriter, seed uint64, n int, args []string) error {
	big := len(args) > 0 && args[0] == "big"
	i := 0
	emit := func(s string) {
		out.add(fmt.Sprintf("C14rx-%d-%d", seed, i), "C14.rx", hx(s))
		i++
	}
	for _, name := range rxUniNames {
		if i+4 > n {
			break
		}
		emit(`\p{` + name + `}`)
		emit(`\P{` + name + `}`)
		emit(`(?i)\p{` + name + `}`)
		emit(`(?i)[^\p{` + name + `}]`)
	}
	if big && i+2 <= n {
		// the rune limit (maxRunes): the largest number of \pL in a row that still parses, and one more
		ok := func(k int) bool { _, err := syntax.Parse(strings.Repeat(`\pL`, k), syntax.Perl); return err == nil }
		lo, hi := 1, 60000
		if ok(lo) && !ok(hi) {
			for hi-lo > 1 {
				if mid := (lo + hi) / 2; ok(mid) {
					lo = mid
				} else {
					hi = mid
				}
			}
			emit(strings.Repeat(`\pL`, lo))
			emit(strings.Repeat(`\pL`, hi))
		}
	}
	for ; i < n; i++ {
		r := newRng(seed, "C14rx", i)
		out.add(fmt.Sprintf("C14rx-%d-%d", seed, i), "C14.rx", hx(rxRandom(r, big && r.chance(15))))
	}
	return nil
}
